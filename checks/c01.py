"""C01 - every repository state rocfl can produce is a valid OCFL repository.

proof:          Props/C01.v (reachable_valid, commit_valid, one new file per digest ...)
correspondence: per-step refinement of generated histories (Corr/CheckStage.v): the model applied to the
                implementation's own pre-state must equal its post-state (dedup as a relation)
search:         after every commit / upgrade / purge the independent validator (vplib/ocflv.py) on every
                object and on the storage root, plus the structural clauses of the property
"""
from vplib import common, histcheck, histeval


def hook(run, st):
    msgs = []
    if st.op["op"] in ("commit", "upgrade_object", "purge") and st.rc == "ok":
        msgs = histeval.c01_oracle(run, st)
    elif st.rc == "panic":
        msgs = ["operation panicked: %r" % (st.res.get("panic"),)]
    st.findings["C01"] = msgs


def run(ctx):
    proof = common.proof_stage(ctx)
    n, length = (16, 45) if ctx.quick() else (160, 60)
    ctx.assumptions.append("file-system clauses (no stray file / empty directory, version inventories) are decided by the direct search on executed histories; the theorems cover the manifest/state algebra")
    return histcheck.run_history_check(
        ctx, proof, hook, n, length, final_commit=True,
        rule="adaptive random histories over 3 object ids x rotating configurations (8 layout variants, spec 1.0/1.1, sha256/512, content dir, padding, external staging, fresh handle); distinct = distinct (operation, arguments, result class); NotFound steps are trivial")
