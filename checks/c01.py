"""C01 - every repository state rocfl can produce is a valid OCFL repository.

proof:          Props/C01.v (reachable_valid, commit_valid, one new file per digest ...)
correspondence: per-step refinement of generated histories (Corr/CheckStage.v): the model applied to the
                implementation's own pre-state must equal its post-state (dedup as a relation);
                file-system level (vplib/commitabs.py, Model/CommitAbs.v c01_fs_check): for every successful commit
                the hypotheses of C01_commit_yields_written_object on the abstracted REAL pre-state, written_by_rocflb
                of the abstracted REAL post-state, and the model's fault-free run against the real result
refused commits: (former known finding failed-commit-dedup-persisted, repaired by 890d206) 4 scripted histories are must-pass;
                after every refused commit clause I5 is evaluated on the real staged inventory (vplib/c01known.py) and the
                step is compared with Model/RefusedCommit.v (Corr.CheckStage.check_refused_commit)
search:         after every commit / upgrade / purge the independent validator (vplib/ocflv.py) on every
                object and on the storage root, plus the structural clauses of the property
"""
import os

from vplib import c01known, commitabs, common, hist, histcheck, histeval


def hook(run, st):
    msgs = []
    if (st.op["op"] in ("commit", "upgrade_object", "purge") and st.rc == "ok") or st.op["op"] == "commit":
        # (a refused commit must leave a valid repository too: hostile object roots, refusals after partial work;
        #  `driver_dirty`: the driver itself has just put a leftover into the object, the tree oracle is skipped once)
        msgs = [] if st.op.get("driver_dirty") and st.rc != "ok" else histeval.c01_oracle(run, st)
        beside = sorted(set(os.listdir(run.r.sc.base)) - {"root", "src", "stg"})
        if beside:
            msgs.append("entries created beside the storage root: %r" % (beside,))
        msgs += c01known.refused_commit_oracle(run, st)
    elif st.rc == "panic":
        msgs = ["operation panicked: %r" % (st.res.get("panic"),)]
    st.findings["C01"] = msgs


def run(ctx):
    proof = common.proof_stage(ctx)
    n, length = (16, 45) if ctx.quick() else (160, 60)
    # file-system level stage: collects the commits of the histories below through the step hook and is evaluated
    # (inside Coq) when run_history_check merges it into the evidence, i.e. after the histories and before finish
    fs = commitabs.FsStage(ctx, 400 if ctx.quick() else 1500)

    def hook2(run_, st):
        hook(run_, st)
        fs.hook(run_, st)
    ctx.assumptions.append("file-system clauses: proved for the fault-free commit of the protocol model (C01_commit_yields_written_object, C01_reachable_tree_valid) under commit_pre + commit_pre_tree, which the correspondence evaluates on every real pre-state; storage root files, layout placement, purge and operations under faults are decided by the direct search on executed histories (and by C04/C05/C11/C12)")
    return histcheck.run_history_check(
        ctx, proof, hook2, n, length, final_commit=True, extra_evidence=fs,
        scripted=c01known.scenarios() + c01known.leftover_version_scenarios() + hist.hostile_root_scenarios() + hist.upgrade_scenarios() + hist.backslash_scenarios(),
        rule="adaptive random histories over 3 object ids x rotating configurations (8 layout variants, spec 1.0/1.1, sha256/512, content dir, padding, external staging, fresh handle); distinct = distinct (operation, arguments, result class); NotFound steps are trivial")
