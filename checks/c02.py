"""C02 - committed versions return exactly the ingested bytes, forever.

proof:          Props/C02.v (resolution_total, committed_versions_stable, commit keeps the staged state)
correspondence: per-step refinement of the histories (Corr/CheckStage.v), commits as dedup relation
search:         after EVERY step of every history, every version of every committed object is read back
                (listing + every file): listing = the staged state recorded when that version was committed,
                bytes = the ingested bytes with that digest under the object's algorithm
"""
import hashlib

from vplib import c01known, absinv, common, histcheck


def hook(run, st):
    msgs = []
    op = st.op
    oid = op.get("id")
    # an upgrade (or commit) of an object without staged changes commits a clone of the head state
    if op["op"] in ("commit", "upgrade_object") and st.rc == "ok" and st.pre["staged"].get(oid) is None and oid in st.pre["main"]:
        minv = st.pre["main"][oid][1]
        run.committed.setdefault(oid, {})[absinv.vnum_of(minv["head"]) + 1] = absinv.head_state_map(minv)
    probe = st.committed_probe or {}
    for o, versions in run.committed.items():
        if o not in st.post["main"]:
            if o in st.pre["main"] and not (op["op"] == "purge" and oid == o):
                msgs.append("committed object %s vanished after %s" % (o, op["op"]))
            continue
        alg = st.post["main"][o][1].get("digestAlgorithm", "sha512")
        pr = probe.get(o, {})
        for v, expected in versions.items():
            ent = pr.get(v)
            if ent is None or ent.get("listing") is None:
                msgs.append("version %d of %s cannot be opened after %s" % (v, o, op["op"]))
                continue
            if ent["listing"] != expected:
                msgs.append("listing of %s v%d differs from the state staged when it was committed" % (o, v))
            for p, dg in expected.items():
                data = run.pool.get(dg)
                if data is None:
                    msgs.append("digest of %s in v%d was never ingested" % (p, v))
                    continue
                if hashlib.new(alg, data).hexdigest() != dg:
                    msgs.append("listing digest of %s is not the %s digest of the ingested bytes" % (p, alg))
                if ent["cat"].get(p) != hashlib.sha256(data).hexdigest():
                    msgs.append("reading %s at v%d of %s does not return the ingested bytes (%s)" % (p, v, o, ent["cat"].get(p)))
    if st.rc == "panic":
        msgs.append("operation panicked")
    st.findings["C02"] = msgs


def run(ctx):
    proof = common.proof_stage(ctx)
    n, length = (14, 45) if ctx.quick() else (150, 60)
    ctx.assumptions.append("digest injectivity (SHA-256/512 collision freedom): equal digests are treated as equal bytes")
    return histcheck.run_history_check(
        ctx, proof, hook, n, length,
        # commits refused AFTER their de-duplication step (no object root; the version directory exists), then one of the
        # two names of the shared content is removed / overwritten and the commit repeated: both names must read back
        scripted=c01known.scenarios() + c01known.leftover_version_scenarios(),
        rule="adaptive random histories; after every step all versions of all committed objects are re-read (listing + every file, incl. empty content, 768-byte binary content, identical content under several names, content re-added after deletion); distinct = distinct (operation, arguments, result class)")
