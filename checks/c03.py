"""C03 - committed version directories are never modified (append-only storage).

Stage 1 (proof): Props/C03.v over Model/Footprint.v: no call that satisfies `allowed` - for any operation other
  than purge of that object - has a target inside a committed version directory; the only entries of an
  existing object root it touches are inventory.json, the sidecar, a declaration (upgrade) and the version
  directory that does not exist yet; every call of every prefix of the generated traces satisfies `allowed`.
Stage 2 (correspondence, real CLI under strace, ONE traced process per operation, evaluated inside Coq by
  Corr/CheckFootprint.v): `check_allowed cfg pre op observed` for every traced operation of generated histories
  (see checks/c12.py for the generator: all mutating commands, six layouts, default / external staging, hostile
  ids / destinations / content directories / object roots), for successful, refused, fault-injected
  (EIO/ENOSPC/EACCES), killed (SIGKILL) and interrupted (SIGINT) runs - failed calls included - and
  `check_covers` (generating model vs. trace) for the successful fault-free runs.
Stage 3 (direct search, model-free): byte snapshots of every committed version directory before and after
  every operation (also the failing / killed ones) are identical unless the operation purges that object; no
  mutating system call, successful or not, targets a path inside an existing committed version directory;
  across commit / upgrade only the root inventory, its sidecar and (upgrade) the declaration of pre-existing
  files differ; staging operations change no pre-existing entry of the main repository at all.
"""
import os

from vplib import common, footlib
from vplib import strace as st


def run(ctx):
    proof = common.proof_stage(ctx)
    common.build_rocfl_release()
    common.build_harness()
    ok, log = common.coq_make(["theories/Corr/CheckFootprint.vo"])
    if not ok:
        raise common.BuildError("Corr/CheckFootprint.v does not build:\n" + log[-3000:])
    env = st.rocfl_env(os.path.join(ctx.tmp, "home"))
    quick = ctx.quick()
    plans, out, stats = footlib.run_all(ctx, env, n_worlds=12 if quick else 72, n_random=12 if quick else 36,
                                        with_validity=False, fault_budget=4 if quick else 12)
    footlib.evaluate(ctx, "C03", out, stats)
    ctx.coverage["worlds"] = ["%s/%s" % (l, "ext-missing-parent" if m else ("ext" if e else "default")) for l, e, m in plans]
    ctx.level = "proof"
    ctx.assumptions += [
        "the staging root is the default one or a user-chosen directory (-s) unrelated to the storage root and disjoint from every object root (hypotheses cfg_ok / stg_separate); `-s <dir inside an object>` is outside the statement",
        "objects of the pre-state lie strictly inside the storage root, are not nested and have version directories named v<digits> (env_ok; kept by validate_object_root: C03_invariants_preserved)",
        "paths are resolved lexically (no symbolic links inside the roots); strace sees every mutating system call (rocfl uses no mmap / io_uring writes)",
        "the named sources of an external mv: the refusal of sources inside the repository (fix 128b230) decides on fs::canonicalize of the source; the model takes the canonical paths as a second input (o_csrcs, realpath in the driver) and the theorems assume o_csrcs = o_srcs (no symbolic link in a named source); sources that reach the repository through symbolic links or `..` spellings are covered by the correspondence and the model-free oracle only",
        "S3 is out of scope",
    ]
    return common.finish_with_proof(
        ctx, proof,
        rule="same generator as C12 (checks/c12.py): one traced CLI process per operation of generated histories over six layouts x default / external staging, "
             "hostile inputs included; sampled operations (half of them commits) re-run with EIO/ENOSPC/EACCES, SIGKILL, SIGINT at sampled system calls; "
             "distinct = (history, step, injection); non-trivial = the operation made at least one mutating call")
