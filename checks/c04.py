"""C04 - a commit is all-or-nothing even when file-system calls fail; retry / reset work afterwards.

Stage 1 (proof): Props/C04.v over Model/FsTree.v + Model/Commit.v (the commit protocol of repo.rs /
  store/fs.rs / lock.rs / util.rs as monadic programs with a fault / stop oracle).
Stage 2 (correspondence, real CLI under strace, evaluated inside Coq by Corr/CheckCommit.v): for every
  scenario (new object, new version, duplicates + orphans, delete only, upgrade of an existing object with
  and without staged changes, upgrade before the first commit, nested directories; layouts 0004 / 0002;
  default / external staging) the fault-free run is recorded: the model's step log covers the observed
  calls, its trace equals the observed operations (exact order outside the staged object's clean-up
  loops, multiset inside), its final tree equals the abstracted real tree.  Then EVERY call of the
  recording is failed once with EIO / ENOSPC / EACCES and SIGINT is delivered before every call; the
  observed outcome class (old / new / invalid x exit status) and what retry and reset do afterwards
  must be what the model predicts for the aligned position.
Stage 3 (direct search, model free): main object byte-identical to before or equal to the fault-free
  result (inventories as JSON modulo `created` and the HashSet-order dedup choice, sidecars
  consistent, content by hash) and accepted by ocflv.py and `rocfl validate`; exit status 0 only if
  new; an error before the install rename leaves old; retry succeeds with the fault-free result,
  reset succeeds.  No known finding class is left for C04: every position is must-pass.
"""
import concurrent.futures
import json
import os

from vplib import common
from vplib import commitlib as cl
from vplib import strace as st



def judge(o):
    """model-free verdict on one injected run: list of (tag, message); tags: state, status, retry-invalid, wedged, reset"""
    out = [("state" if "neither" in m else "status", m) for m in o["msgs"]]
    if "retry_rc0" in o:
        if o["retry_rc0"] and o["retry_cls"] != "new":
            out.append(("retry-invalid", "the retried command succeeded but the object is %s, not the valid new version (ocflv %r, rocfl validate exit %s)" % (
                o["retry_cls"], o["retry_detail"]["ocflv"], o["retry_detail"]["rocfl_validate_rc"])))
        if not o["retry_rc0"] and not o["reset_ok"]:
            out.append(("wedged", "neither the retried command nor reset succeeds: %r" % (o["follow"],)))
    if "reset_ok" in o and not o["reset_ok"] and not any(t == "wedged" for t, _ in out):
        out.append(("reset", "reset does not succeed or leaves the staged object (exit %s, staged object still there: %s)" % (
            o.get("reset_rc"), o.get("reset_staged_left"))))
    return out


def case_input(o):
    return {"scenario": o["scn"], "inject": "F" if o["kind"] == "R" else o["kind"], "non_mutating_call": bool(o.get("read")),
            "errno_or_signal": o["what"], "point": o["point"], "set": o["set"],
            "call_of_recording": o["rec_step"], "call_hit": o["hit"]}


def evaluate(ctx, recs, outs, env, stats):
    """Coq predictions for every recording, then verdicts"""
    terms = []
    for r in recs:
        n = len(r.steps)
        # predictions are evaluated only for the injection kinds used with this recording
        if r.set == "all-fs":
            injs = [("R", i) for i in range(n)]
        elif r.set:
            injs = [("F", i) for i in range(n)]
        else:
            injs = [("F", i) for i in range(n)] + [("S", i) for i in range(n)]
        terms.append(cl.report_term(r, injs))
        terms.append(cl.follow_term(r, list(range(n)) if r.set != "all-fs" else []))
        terms.append(cl.pre_term(r))
    vals = common.coq_eval("c04", cl.IMPORTS, terms, batch=1)
    pred = {}
    for k, r in enumerate(recs):
        rep = cl.parse_coq(vals[3 * k])
        follow = cl.parse_coq(vals[3 * k + 1])
        pre = cl.parse_coq(vals[3 * k + 2])
        # pre = (commit_pre, same_type, decl_swap_ok): non-upgrade commits satisfy the hypotheses of the same-type theorems,
        # every commit (the upgrades too) those of the any-type theorems
        p_pre, p_same, p_swap = pre
        stats["hypotheses_%s" % r.scn.kind] = "commit_pre=%s same_type=%s decl_swap_ok=%s" % (p_pre, p_same, p_swap)
        # (the pre-state of an `upgrade` command is not the pre-state of its commit: the staged inventory of the new type
        #  is written by the command itself; there the two conjuncts of decl_swap_ok hold by construction of the abstraction -
        #  version names are v<digits>, a directory listing has no name twice - and the model is compared at every position)
        if not r.scn.is_upgrade and not (p_pre and p_same and p_swap):
            common.corr_break(ctx, "Corr.CheckCommitUp.pre_check_any (the hypotheses commit_pre / same_type / decl_swap_ok of the C04 / C05 theorems hold on the abstracted real pre-state)",
                              {"input": {"scenario": r.scn.name}, "commit_pre_b": p_pre, "same_type_b": p_same, "decl_swap_ok_b": p_swap})
        n = len(r.steps)
        pr = rep[4]
        pred[id(r)] = {"perm": rep[0], "trace": rep[1], "final": rep[2], "align": rep[3], "follow": follow,
                       "F": pr[:n] if r.set != "all-fs" else [], "S": pr[n:2 * n] if not r.set else [],
                       "R": pr if r.set == "all-fs" else []}
        inp = {"scenario": r.scn.name, "command": r.scn.final("<w>")}
        ctx.count(("rec", r.scn.name, r.set), nontrivial=True,
                  sample={"scenario": r.scn.name, "calls": n, "model_log_covers": rep[0], "trace_equal": rep[1], "final_tree_equal": rep[2]})
        if not rep[0]:
            common.corr_break(ctx, "Corr.CheckCommit.log_perm (every call of the real commit has a step of the model and vice versa)",
                              {"input": inp, "alignment": rep[3], "observed_steps": [s["step"][0] + " " + s["step"][1].replace(r.w, "~") for s in r.steps]})
        if not rep[1]:
            common.corr_break(ctx, "Corr.CheckCommit.check_trace (model trace vs operations of the fault-free real run)",
                              {"input": inp, "observed_ops": st.fmt_ops(r.trace.ops, strip=r.w)})
        if not rep[2]:
            common.corr_break(ctx, "Corr.CheckCommit.check_final (final tree of the model vs the real tree)", {"input": inp})
        if r.errs != [] or r.vrc != 0:
            ctx.violation("impl-violation", {"input": inp, "observed": {"ocflv": r.errs, "rocfl_validate": r.vrc},
                                             "expected": "the fault-free commit yields a valid object"})
    for r, o in outs:
        p = pred[id(r)]
        stats["runs_" + o["kind"]] = stats.get("runs_" + o["kind"], 0) + 1
        if o["timed_out"] or o["parse_errors"]:
            raise common.BuildError("strace run not understood: %r" % (o,))
        if not o["reached"]:
            stats["point_not_reached"] = stats.get("point_not_reached", 0) + 1
            continue
        if o["read"]:
            o["kind"] = "R"
            stats["runs_R"] = stats.get("runs_R", 0) + 1
        okey = "%s_%s_%s" % (o["kind"], o["cls"], "rc0" if o["rc"] == 0 else "rcN")
        stats[okey] = stats.get(okey, 0) + 1
        verdict = judge(o)
        midx = o["midx"]
        if verdict:
            ctx.violation("impl-violation", {"input": case_input(o),
                                             "observed": {"exit_status": o["rc"], "stderr": o["stderr"], "main_object": o["cls"], "detail": o["detail"],
                                                          "afterwards": o["follow"], "retry_detail": o.get("retry_detail")},
                                             "expected": "; ".join(m for _, m in verdict)})
            continue
        if midx is None or midx >= len(p[o["kind"]]):
            stats["not_aligned"] = stats.get("not_aligned", 0) + 1
            continue
        obs = (cl.CLS_NO[o["cls"]], 0 if o["rc"] == 0 else 1)
        model = [tuple(x) for x in p[o["kind"]][midx]]
        if obs not in model:
            common.corr_break(ctx, "Corr.CheckCommit.predict_obs (outcome class of the model at the aligned position vs the real run)",
                              {"input": case_input(o), "observed": {"class,status": obs, "stderr": o["stderr"]}, "model": model})
            continue
        if o["kind"] == "F" and "retry_rc0" in o and midx < len(p["follow"]):
            f = p["follow"][midx]
            mr = (f[0], f[1])
            mz = f[2]
            want_r = (cl.CLS_NO[o["retry_cls"]], 0 if o["retry_rc0"] else 1)
            want_z = (0 if o["reset_rc"] == 0 else 1, bool(o["reset_staged_left"]))
            if not o["retry_rc0"]:
                stats["retry_refused_reset_ok"] = stats.get("retry_refused_reset_ok", 0) + 1
            if mr != want_r or (mz[0], mz[1]) != want_z:
                common.corr_break(ctx, "Corr.CheckCommit.follow_obs (retry and reset after the fault: model vs real)",
                                  {"input": case_input(o), "observed": {"retry(class,status)": want_r, "reset(status,staged left)": want_z, "follow": o["follow"]},
                                   "model": {"retry": mr, "reset": mz}})


def read_jobs(ctx, rrecs):
    """error injection into the non-mutating calls on the object root and the staged object, from the lock to the unlock.
    quick: in the fully enumerated scenarios every fourth call, but always the listing of an object root (find_files) and
    the stat calls below the staged head content directory (rm_orphaned_files); a sixth elsewhere"""
    jobs = []
    n = 0
    for r in rrecs:
        full = (r.scn.kind, r.scn.layout, r.scn.ext) in cl.READ_ALL
        w = r.w
        roots = (cl.main_root(w, r.scn), cl.staged_root(w, r.scn))
        for rp in r.reads:
            if not 2 <= rp["next"] < len(r.steps):
                continue
            n += 1
            pinned = full and ((rp["name"] == "getdents64" and rp["path"] in roots)
                               or (rp["name"] in ("statx", "newfstatat", "stat", "lstat") and "/content" in rp["path"][len(roots[1]):]
                                   and rp["path"].startswith(roots[1])))
            if not ctx.quick() or pinned or (full and n % 4 == 0) or (not full and n % 6 == 0):
                jobs.append((r, "F", rp["next"], ["EIO", "EACCES"][(n // 2) % 2], rp["point"]))
    return jobs


def make_jobs(ctx, recs, wrecs):
    jobs = []
    n = 0
    for r in recs:
        for i in range(len(r.steps)):
            errs = cl.ERRNOS if not ctx.quick() else [cl.ERRNOS[n % 3]]
            n += 1
            for e in errs:
                jobs.append((r, "F", i, e, None))
            if not ctx.quick() or r.scn.kind in ("new", "version") or n % 3 == 0:      # quick: a stop request before every third call elsewhere
                jobs.append((r, "S", i, None, None))
    for r in wrecs:
        for i, pt in cl.sample_write_points(ctx, r, per_file=1 if ctx.quick() else 6):
            jobs.append((r, "F", i, cl.ERRNOS[n % 3], pt))
            n += 1
    return jobs


def run(ctx):
    import time
    tm = {}
    t_ = time.time()
    proof = common.proof_stage(ctx)
    tm["proof_stage"] = round(time.time() - t_, 1)
    common.build_rocfl_release()
    ok, log = common.coq_make(["theories/Corr/CheckCommit.vo", "theories/Corr/CheckCommitUp.vo"])
    if not ok:
        raise common.BuildError("Corr/CheckCommit.v does not build:\n" + log[-3000:])
    env = st.rocfl_env(os.path.join(ctx.tmp, "home"))
    workers = max(4, min(14, common.NPROC - 2))
    scns = cl.scenario_list(ctx)
    recs = cl.prepare(ctx, env, scns, workers=workers)
    wscn = [cl.Scn(*x) for x in cl.WRITE_GRANULARITY]
    for s in wscn:
        s.name += "-w"
    wrecs = cl.prepare(ctx, env, wscn, set_="mutating+write", workers=workers)
    rscn = [cl.Scn(*x) for x in cl.READ_ALL + cl.READ_SAMPLED]
    for s in rscn:
        s.name += "-r"
    rrecs = cl.prepare(ctx, env, rscn, set_="all-fs", workers=workers)
    jobs = make_jobs(ctx, recs, wrecs) + read_jobs(ctx, rrecs)
    tm["templates_and_recordings"] = round(time.time() - t_ - tm["proof_stage"], 1)
    t1 = time.time()
    with concurrent.futures.ThreadPoolExecutor(max_workers=workers) as ex:
        outs = list(ex.map(lambda j: (j[0], cl.run_case(j[0], env, j[1], j[2], j[3], point=j[4], set_=j[0].set)), jobs))
    tm["injected_runs"] = round(time.time() - t1, 1)
    t1 = time.time()
    stats = {}
    evaluate(ctx, recs + wrecs + rrecs, outs, env, stats)
    tm["coq_evaluation_and_verdicts"] = round(time.time() - t1, 1)
    ctx.coverage["timing_s"] = tm
    ctx.coverage["scenarios"] = [r.scn.name for r in recs + wrecs + rrecs]
    ctx.coverage["read_fault_points"] = sum(1 for j in jobs if j[0].set == "all-fs")
    ctx.coverage["injection_points"] = sum(len(r.steps) for r in recs)
    ctx.coverage["traces_validated_against_impl"] = len(outs) + len(recs) + len(wrecs)
    ctx.coverage["distribution"] = stats
    ctx.assumptions += [
        "the model's two-step file write (truncate, data) abstracts the individual write calls: faults inside a partially completed write are not byte-exact (a partial file is one token)",
        "fault positions: every mutating call (plus sampled write calls), and the non-mutating calls (open for reading, read, getdents64, stat family) on the object root and the staged object between lock and unlock (set all-fs; quick: all of them in the version scenarios, a third elsewhere); the model does not number reads one by one: a failing read is predicted as an abort at the position of the next mutating step, or as swallowed by the caller (fault-free outcome)",
        "no fault is injected into the rollback of a fault (single-fault sequences); a fault at the unlink of the lock file leaves the lock behind (as C13 states)",
        "SIGINT is handled by rocfl's ctrl-c thread asynchronously: the observed outcome must be among the model's outcomes for a stop request at the aligned or any later position",
        "`new` is compared modulo the choice Inventory::dedup_head makes among equal head content paths (HashSet order, differs from run to run)",
    ]
    return common.finish_with_proof(ctx, proof,
        rule="scenarios = commit kinds x layouts 0004/0002 x default/external staging (quick: 10 + 4 at write granularity); every call of the "
             "fault-free recording is failed with EIO/ENOSPC/EACCES (quick: one errno per call, rotating) and hit by SIGINT (quick: every call of the new / version scenarios, every third elsewhere); read calls on both object roots with EIO/EACCES; distinct = "
             "(scenario, injection, call hit, outcome class, exit status); every run is non-trivial")


def replay(ctx, body):
    """re-run one recorded failing input: {"input": {"scenario", "inject", "errno_or_signal", "point", "set"}}"""
    inp = body.get("input") or {}
    name = inp.get("scenario")
    if not name or "point" not in inp:
        return run(ctx)
    common.build_rocfl_release()
    env = st.rocfl_env(os.path.join(ctx.tmp, "home"))
    kind, layout, stg = name.replace("-w", "").replace("-r", "").rsplit("-", 2)
    scn = cl.Scn(kind, layout, stg == "ext")
    rec = cl.record(cl.build_template(ctx, scn, env), env, set_=inp.get("set"))
    idx = [i for i, s in enumerate(rec.steps) if list(s["point"]) == list(inp["point"])]
    o = cl.run_case(rec, env, inp["inject"], idx[0] if idx else 0, inp.get("errno_or_signal"), point=tuple(inp["point"]), set_=inp.get("set"))
    verdict = judge(o)
    print(json.dumps({"exit_status": o["rc"], "main_object": o["cls"], "afterwards": o["follow"], "verdict": verdict}, indent=1, default=str))
    if verdict:
        ctx.violation("impl-violation", {"input": inp, "observed": {"exit_status": o["rc"], "main_object": o["cls"], "afterwards": o["follow"]},
                                         "expected": "; ".join(m for _, m in verdict)})
    import shutil
    shutil.rmtree(ctx.tmp, ignore_errors=True)
    for v in ctx.violations:
        print("VIOLATION property=%s replay=%s" % (ctx.prop, v["replay"]), flush=True)
    return 1 if ctx.violations else 0
