"""C05 - a kill during commit loses nothing and never yields a silently wrong object.

Stage 1 (proof): Props/C05.v over Model/FsTree.v + Model/Commit.v: for every kill position of commit /
  upgrade_object (i) every version directory committed before is unchanged, (ii) every content file of
  the version being committed is complete in the staged object or in the main object, (iii) the
  main object is old, new, or rejected by the validator [obj_validb].
Stage 2 (correspondence, real CLI under strace, evaluated inside Coq by Corr/CheckCommit.v): the
  scenarios of C04; the fault-free run is recorded and compared with the model (step log, trace, final
  tree); then the process is killed (SIGKILL on entering the call, the call is not executed) at EVERY
  call of the recording, and at sampled write calls inside the inventory, sidecar and declaration
  files (set mutating+write); the observed class of the main object (old / new / invalid) must be the
  model's prediction for the aligned kill position.
Stage 3 (direct search, model free): the three clauses evaluated on the real trees: every old version
  directory byte-identical; every digest of the new version's state present as a complete file in the
  staged object or in the object; main object byte-identical to before, or equal to the fault-free
  result and valid, or rejected by BOTH ocflv.py and `rocfl validate` (exit status 2).
"""
import concurrent.futures
import json
import os

from vplib import common
from vplib import commitlib as cl
from vplib import strace as st


def case_input(o):
    return {"scenario": o["scn"], "inject": "K", "errno_or_signal": "SIGKILL", "point": o["point"], "set": o["set"],
            "call_of_recording": o["rec_step"], "call_hit": o["hit"], "inside_file": o["mid_file"]}


def evaluate(ctx, recs, outs, stats):
    terms = []
    for r in recs:
        n = len(r.steps)
        terms.append(cl.report_term(r, [("K", i) for i in range(n)]))
        terms.append(cl.refs_term(r))
    vals = common.coq_eval("c05", cl.IMPORTS, terms, batch=1)
    pred = {}
    for r, v, rv in zip(recs, vals[0::2], vals[1::2]):
        rep = cl.parse_coq(v)
        if rv != "true":
            common.corr_break(ctx, "Corr.CheckCommit.kill_refs_ok (model: at every kill position the staged inventory on disk lists only existing content files)",
                              {"input": {"scenario": r.scn.name}})
        pred[id(r)] = rep
        inp = {"scenario": r.scn.name, "command": r.scn.final("<w>"), "set": r.set}
        ctx.count(("rec", r.scn.name, r.set), nontrivial=True,
                  sample={"scenario": r.scn.name, "calls": len(r.steps), "model_log_covers": rep[0], "trace_equal": rep[1], "final_tree_equal": rep[2]})
        if not rep[0]:
            common.corr_break(ctx, "Corr.CheckCommit.log_perm (every call of the real commit has a step of the model and vice versa)",
                              {"input": inp, "alignment": rep[3], "observed_steps": [s["step"][0] + " " + s["step"][1].replace(r.w, "~") for s in r.steps]})
        if not rep[1]:
            common.corr_break(ctx, "Corr.CheckCommit.check_trace (model trace vs operations of the fault-free real run)",
                              {"input": inp, "observed_ops": st.fmt_ops(r.trace.ops, strip=r.w)})
        if not rep[2]:
            common.corr_break(ctx, "Corr.CheckCommit.check_final (final tree of the model vs the real tree)", {"input": inp})
    for r, o in outs:
        stats["runs_K"] = stats.get("runs_K", 0) + 1
        if o["timed_out"] or o["parse_errors"]:
            raise common.BuildError("strace run not understood: %r" % (o,))
        if not o["killed"] or not o["reached"]:
            stats["point_not_reached"] = stats.get("point_not_reached", 0) + 1
            continue
        key = "K_%s%s" % (o["cls"], "_inside_file" if o["mid_file"] else "")
        stats[key] = stats.get(key, 0) + 1
        midx = o["midx"]
        rep = pred[id(r)]
        model = [tuple(x) for x in rep[4][midx]] if midx is not None else None
        ctx.count((o["scn"], tuple(o["hit"] or ()), o["cls"], o["set"], tuple(o["point"])), nontrivial=True,
                  sample={"input": case_input(o), "class": o["cls"], "ocflv": o["detail"]["ocflv"],
                          "rocfl_validate_exit": o["detail"]["rocfl_validate_rc"], "model": model})
        if "recovery" in o:
            rk = "recovery_retry_%s" % ("ok" if o["recovery"]["retry_rc"] == 0 else "refused")
            stats[rk] = stats.get(rk, 0) + 1
        if o["msgs"]:
            ctx.violation("impl-violation", {"input": case_input(o),
                                             "observed": {"main_object": o["cls"], "detail": o["detail"], "staged_left": o["staged_left"],
                                                          "recovery": o.get("recovery"), "staged_inventory_lists_missing_files": o.get("dangling")},
                                             "expected": "; ".join(o["msgs"])})
            continue
        if o.get("dangling"):
            common.corr_break(ctx, "Corr.CheckCommit.staged_refs_ok (the staged inventory on disk after the kill lists head content files that exist nowhere; the model's run never does)",
                              {"input": case_input(o), "observed": {"missing": o["dangling"][:6]}})
            continue
        if model is None:
            stats["not_aligned"] = stats.get("not_aligned", 0) + 1
            continue
        if (cl.CLS_NO[o["cls"]], 2) not in model:
            common.corr_break(ctx, "Corr.CheckCommit.predict_obs (class of the main object after a kill: model at the aligned position vs the real tree)",
                              {"input": case_input(o), "observed": {"class": o["cls"], "detail": o["detail"]}, "model": model})


def make_jobs(ctx, recs, wrecs):
    jobs = []
    for r in recs:
        for i in range(len(r.steps)):
            jobs.append((r, i, None))
    for r in wrecs:
        for i, pt in cl.sample_write_points(ctx, r, per_file=3 if ctx.quick() else 12):
            jobs.append((r, i, pt))
    return jobs


def run(ctx):
    proof = common.proof_stage(ctx)
    common.build_rocfl_release()
    ok, log = common.coq_make(["theories/Corr/CheckCommit.vo", "theories/Corr/CheckCommitUp.vo"])
    if not ok:
        raise common.BuildError("Corr/CheckCommit.v does not build:\n" + log[-3000:])
    env = st.rocfl_env(os.path.join(ctx.tmp, "home"))
    workers = max(4, min(14, common.NPROC - 2))
    scns = cl.scenario_list(ctx) + [cl.Scn("manydup", "0004", False), cl.Scn("dupold", "0004", False)] + \
        ([] if ctx.quick() else [cl.Scn("manydup", "0002", True), cl.Scn("dupold", "0002", True)])
    seen = set()
    scns = [x for x in scns if not (x.name in seen or seen.add(x.name))]      # (the thorough list has every kind already)
    recs = cl.prepare(ctx, env, scns, workers=workers)
    for r in recs:
        # recovery (remove the stale lock, commit again) after every kill: quick tier in the scenarios whose commit deletes staged files
        r.recover = (not ctx.quick()) or r.scn.kind in ("dedup", "manydup", "dupold")
    wscn = [cl.Scn(*x) for x in cl.WRITE_GRANULARITY]
    for s in wscn:
        s.name += "-w"
    wrecs = cl.prepare(ctx, env, wscn, set_="mutating+write", workers=workers)
    jobs = make_jobs(ctx, recs, wrecs)
    with concurrent.futures.ThreadPoolExecutor(max_workers=workers) as ex:
        outs = list(ex.map(lambda j: (j[0], cl.run_case(j[0], env, "K", j[1], None, point=j[2], set_=j[0].set)), jobs))
    stats = {}
    evaluate(ctx, recs + wrecs, outs, stats)
    ctx.coverage["scenarios"] = [r.scn.name for r in recs + wrecs]
    ctx.coverage["kill_points"] = len(jobs)
    ctx.coverage["recovery_runs"] = sum(1 for _, o in outs if "recovery" in o)
    ctx.coverage["identical_new_files_in_manydup"] = cl.NCOPIES
    ctx.coverage["traces_validated_against_impl"] = len(outs) + len(recs) + len(wrecs)
    ctx.coverage["distribution"] = stats
    ctx.assumptions += [
        "kills are enumerated before the mutating calls (and inside files): a kill before a non-mutating call (read, stat, getdents) leaves exactly the tree of a kill before the next mutating call, so reads add no kill position",
        "recovery after a kill = remove the stale lock file and run commit again (quick: after every kill point of the dedup and manydup scenarios, thorough: everywhere): a successful retry must give a valid object from which rocfl cat returns the ingested bytes of every logical path, a refused retry must leave every ingested content in the staged object or in the object; which of %d identical new files dedup_head keeps is random per process, so a defect that depends on that choice is found with probability about 1 - prod(1 - k/%d) over the kill points (k files already deleted)" % (cl.NCOPIES, cl.NCOPIES),
        "process-kill model of the property: calls already made are durable and ordered (no power loss, no reordering by the file system)",
        "a file written by several write calls is modelled in two steps (truncate, data): every interrupted file is one token [CPartial], distinct from all complete contents",
        "the validator of clause (iii) is [obj_validb]: root entries known to the inventory (E001), sidecar digest (E060), parseable inventory, declaration required by the inventory (E003/E007/E038), a directory for every version (E010), head inventory copy (E064); the real verdict is the agreement of ocflv.py and rocfl validate",
        "`new` is compared modulo the choice Inventory::dedup_head makes among equal head content paths (HashSet order, differs from run to run)",
    ]
    return common.finish_with_proof(ctx, proof,
        rule="scenarios as C04; SIGKILL on entering every call of the fault-free recording, plus sampled write calls inside inventory / sidecar / "
             "declaration files; distinct = (scenario, call hit, injection point, class of the main object); every run is non-trivial")


def replay(ctx, body):
    inp = body.get("input") or {}
    name = inp.get("scenario")
    if not name or "point" not in inp:
        return run(ctx)
    common.build_rocfl_release()
    env = st.rocfl_env(os.path.join(ctx.tmp, "home"))
    kind, layout, stg = name.replace("-w", "").rsplit("-", 2)
    scn = cl.Scn(kind, layout, stg == "ext")
    rec = cl.record(cl.build_template(ctx, scn, env), env, set_=inp.get("set"))
    idx = [i for i, s in enumerate(rec.steps) if list(s["point"]) == list(inp["point"])]
    o = cl.run_case(rec, env, "K", idx[0] if idx else 0, None, point=tuple(inp["point"]), set_=inp.get("set"))
    print(json.dumps({"main_object": o["cls"], "detail": o["detail"], "verdict": o["msgs"]}, indent=1, default=str))
    if o["msgs"]:
        ctx.violation("impl-violation", {"input": inp, "observed": {"main_object": o["cls"], "detail": o["detail"]}, "expected": "; ".join(o["msgs"])})
    import shutil
    shutil.rmtree(ctx.tmp, ignore_errors=True)
    for v in ctx.violations:
        print("VIOLATION property=%s replay=%s" % (ctx.prop, v["replay"]), flush=True)
    return 1 if ctx.violations else 0
