"""C06 - validate reports every single corruption of an object rocfl wrote.

proof:          Props/C06.v  (written_valid, corruption_detected, structural_detected_without_fixity over
                Model/ObjTree.v + TreeValidate.v + Corrupt.v; all corruption kinds, all trees; digest injectivity)
correspondence: objects are written by the real library through scripted and generated histories; each is
                abstracted to an ObjTree term (tokens = distinct file contents, digests from hashlib);
                Coq evaluates Corr/CheckCorrupt.check_object: written_by_rocfl holds for the object, the model
                validator accepts it, and for every corruption the model verdict with / without fixity
                equals what the release CLI printed for the corrupted copy
search:         (model-free) one corruption applied to a scratch copy; `rocfl validate <id>` must exit 2 and
                list an error, structural kinds also with --no-fixity-check; `validate -p <path>` and the
                repository-wide `validate` must exit 2 as well; the independent validator vplib/ocflv.py is
                run on the same copy (recorded)
"""
import collections
import concurrent.futures
import os
import re
import shutil
import subprocess

from vplib import common, corruptlib, hist, ocflv

ERR_LINE = re.compile(r"^\s+\d+\. \[(E\d+)\]", re.M)


# --------------------------------------------------------------------------- objects written by rocfl

def configurations(rng, n):
    out = []
    for i in range(n):
        repo_spec = ["1.1", "1.0", "1.1"][i % 3]
        out.append({
            "layout": "0004",                       # the default layout of `rocfl init`
            "repo_spec": repo_spec,
            "obj_spec": "1.0" if repo_spec == "1.0" else ["1.1", "1.0"][(i // 3) % 2],
            "alg": ["sha512", "sha256"][i % 2],
            "cdir": ["content", "stuff", "content", "c d"][i % 4],
            "pad": [0, 3, 0, 5][(i // 2) % 4],
            "ext_staging": False,
            "fresh_handle": False,
        })
    return out


def put(oid, path, content):
    return {"op": "cp_ext", "id": oid, "files": [[os.path.basename(path), content]], "dst": path, "recursive": False}


def scripted_history(cfg, variant):
    """histories that are certain to produce deduplicated content, versions that only delete or only
    rename (also as head), an upgrade in the middle, nested directories"""
    a, b = hist.obj_id(cfg, 0), hist.obj_id(cfg, 1)
    up = [{"op": "upgrade_object", "id": a, "spec": "1.1"}] if cfg["repo_spec"] == "1.1" and cfg["obj_spec"] == "1.0" else []
    ops = [{"op": "new", "id": a},
           put(a, "a.txt", 2), put(a, "b.txt", 3), put(a, "dir/c.txt", 2), put(a, "dir/sub/e.txt", 1), put(a, "x y.txt", 0),
           {"op": "commit", "id": a},
           {"op": "rm", "id": a, "paths": ["b.txt"], "recursive": False}, {"op": "commit", "id": a},
           {"op": "mv_int", "id": a, "src": ["a.txt"], "dst": "a2.txt"}, {"op": "commit", "id": a}]
    ops += up
    ops += [put(a, "f.bin", 5), put(a, "again.txt", 3), {"op": "commit", "id": a}]
    if variant % 2 == 0:
        ops += [{"op": "rm", "id": a, "paths": ["f.bin"], "recursive": False}, {"op": "commit", "id": a}]
    # a second, small object: one version, or two versions both with content
    ops += [{"op": "new", "id": b}, put(b, "only.txt", 4), {"op": "commit", "id": b}]
    if variant % 3 != 0:
        ops += [put(b, "dir2/a.txt", b"second version " + str(variant).encode()), {"op": "commit", "id": b}]
    return ops


def build_objects(ctx, n_scripted, n_random, length):
    """run the histories, freeze each repository; returns [dict(golden, obj_rel, obj, cfg, history)]"""
    objs = []
    cfgs = configurations(ctx.rng, n_scripted + n_random)
    for i, cfg in enumerate(cfgs):
        ops = scripted_history(cfg, i) if i < n_scripted else hist.gen_history(ctx.rng, cfg, length, n_objects=2)
        r = hist.Runner(ctx, cfg, "w%d" % i)
        done = []
        try:
            for op in ops:
                _, res = r.step(op)
                done.append({"op": op, "result": hist.res_class(res)})
            for k in range(2):                      # whatever is still staged becomes a version
                op = {"op": "commit", "id": hist.obj_id(cfg, k)}
                _, res = r.step(op)
                done.append({"op": op, "result": hist.res_class(res)})
            golden = os.path.join(ctx.tmp, "golden", "g%d" % i)
            os.makedirs(os.path.dirname(golden), exist_ok=True)
            corruptlib.clone_tree(r.root, golden, skip=("extensions/rocfl-staging", "extensions/rocfl-locks"))
            # the clone shares inodes with the scratch repository that is about to be deleted: fine, links stay
        finally:
            r.close()
        for root in hist.find_object_roots(golden):
            rel = os.path.relpath(root, golden).replace(os.sep, "/")
            try:
                so = corruptlib.StoredObject(golden, rel)
            except (KeyError, ValueError, OSError):
                continue
            objs.append({"golden": golden, "obj_rel": rel, "obj": so, "cfg": cfg,
                         "history": [d for d in done if d["op"].get("id") == so.id]})
    return objs


# --------------------------------------------------------------------------- the real validator

class Cli:
    def __init__(self, ctx, binary):
        self.bin = binary
        home = os.path.join(ctx.tmp, "home")
        os.makedirs(os.path.join(home, "cfg"), exist_ok=True)
        keep = ("PATH", "TZ", "LANG", "LC_ALL", "TMPDIR")
        self.env = {k: v for k, v in os.environ.items() if k in keep}
        self.env.update(HOME=home, XDG_CONFIG_HOME=os.path.join(home, "cfg"), XDG_DATA_HOME=os.path.join(home, "data"))
        self.home = home

    def validate(self, repo, args):
        p = subprocess.run([self.bin, "-r", repo, "-S", "validate", "-l", "error"] + args, env=self.env, cwd=self.home,
                           stdin=subprocess.DEVNULL, stdout=subprocess.PIPE, stderr=subprocess.PIPE, timeout=300)
        out = p.stdout.decode("utf-8", "replace")
        return {"rc": p.returncode, "codes": ERR_LINE.findall(out), "out": out[-1500:],
                "err": p.stderr.decode("utf-8", "replace")[-700:]}


def panicked(r):
    return r["rc"] == 101 or r["rc"] < 0 or "panicked at" in r["err"]


def c17_known_panic(r, c17_known):
    """a panic of the validator that is already recorded as a known finding of C17 (validate always
    returns a verdict): returns its id.  Such a run has no verdict; C06's model describes runs that return."""
    if not panicked(r):
        return None
    sig = {"uriparse": "uri-colon-segment", "validate/serde.rs:494": "blank-id"}
    for needle, slug in sig.items():
        if needle in r["err"] and slug in c17_known:
            return slug
    return None


def detected(r):
    """the command says: this is invalid, and names at least one error"""
    return r["rc"] == 2 and len(r["codes"]) > 0


def run_case(cli, ctx, idx, o, c):
    scratch = os.path.join(ctx.tmp, "case", "c%d" % idx)
    shutil.rmtree(scratch, ignore_errors=True)
    repo = os.path.join(scratch, "repo")
    try:
        corruptlib.clone_tree(o["golden"], repo)
        oroot = os.path.join(repo, *o["obj_rel"].split("/"))
        corruptlib.apply_op(oroot, os.path.join(scratch, "side"), c.op)
        res = {
            "fix": cli.validate(repo, ["--", o["obj"].id]),
            "nofix": cli.validate(repo, ["-n", "--", o["obj"].id]),
            "path": cli.validate(repo, ["-p", "--", o["obj_rel"]]),
            "repo": cli.validate(repo, []),
        }
        try:
            res["p_fix"] = sorted({e[0] for e in ocflv.validate_object(oroot, fixity=True)})
            res["p_nofix"] = sorted({e[0] for e in ocflv.validate_object(oroot, fixity=False)})
        except Exception as e:                         # the independent validator is auxiliary
            res["p_fix"] = res["p_nofix"] = ["EXC:" + type(e).__name__]
        return res
    finally:
        shutil.rmtree(scratch, ignore_errors=True)


# --------------------------------------------------------------------------- planning

def plan(ctx, objs, budget, per_group, n_offsets, every_byte_objects):
    """[(object index, Corruption)] : stratified by (kind, file class) so that every kind stays represented"""
    groups = collections.OrderedDict()
    for oi, o in enumerate(objs):
        cs = corruptlib.enumerate_corruptions(ctx.rng, o["obj"], n_offsets=n_offsets, every_byte=oi < every_byte_objects)
        by = collections.OrderedDict()
        for c in cs:
            by.setdefault((c.kind, c.cls), []).append(c)
        for key, lst in by.items():
            ctx.rng.shuffle(lst)
            keep = lst if (per_group is None or (oi < every_byte_objects and key[0] == "inventory-flip-byte")) else lst[:per_group]
            groups.setdefault(key, []).extend((oi, c) for c in keep)
    total = sum(len(v) for v in groups.values())
    if total <= budget:
        return [x for v in groups.values() for x in v], total
    out = []
    for v in groups.values():
        ctx.rng.shuffle(v)
    k = 0
    while len(out) < budget:
        took = False
        for v in groups.values():
            if k < len(v) and len(out) < budget:
                out.append(v[k])
                took = True
        if not took:
            break
        k += 1
    return out, total


def history_replay(o):
    return {"config": o["cfg"], "object_id": o["obj"].id, "object_root": o["obj_rel"],
            "history": [d["op"] for d in o["history"]],
            "stored_files": sorted(o["obj"].files)}


# --------------------------------------------------------------------------- main

def run(ctx):
    proof = common.proof_stage(ctx)
    common.build_harness()
    binary = common.build_rocfl_release()
    ok, log = common.coq_make(["theories/Corr/CheckCorrupt.vo"])
    if not ok:
        raise common.BuildError("Corr/CheckCorrupt.v does not build:\n" + log[-3000:])
    cli = Cli(ctx, binary)
    quick = ctx.quick()
    known_ids = {k["id"] for k in ctx.known}
    c17_known = {k["id"] for k in common.known_findings("C17") if k["kind"] == "known"}

    objs_all = build_objects(ctx, *((8, 10, 45) if quick else (12, 36, 60)))
    # only objects the real validator accepts are in the scope of the property (anything else is C01's business)
    objs, golden_invalid = [], []
    for o in objs_all:
        r0 = cli.validate(o["golden"], ["--", o["obj"].id])
        r1 = cli.validate(o["golden"], ["-n", "--", o["obj"].id])
        if r0["rc"] == 0 and r1["rc"] == 0 and not ocflv.validate_object(o["obj"].root, fixity=True):
            objs.append(o)
        else:
            golden_invalid.append({"object": history_replay(o), "rocfl": r0["codes"]})
    if not objs:
        raise common.BuildError("no valid object was produced by the histories")

    cases, n_candidates = plan(ctx, objs, budget=3000 if quick else 30000, per_group=3 if quick else None,
                               n_offsets=3 if quick else 8, every_byte_objects=0 if quick else 4)
    with concurrent.futures.ThreadPoolExecutor(max_workers=common.NPROC) as ex:
        futs = [ex.submit(run_case, cli, ctx, i, objs[oi], c) for i, (oi, c) in enumerate(cases)]
        results = [f.result() for f in futs]

    # ---- Coq: one term per object
    per_obj = collections.OrderedDict()
    for i, (oi, c) in enumerate(cases):
        per_obj.setdefault(oi, []).append(i)
    terms, term_cases = [], []
    for oi, idxs in per_obj.items():
        a = corruptlib.Abstraction()
        tree = a.tree(objs[oi]["obj"])
        cterms, with_term = [], []
        for i in idxs:
            t = cases[i][1].coq(a)
            if t is not None:
                cterms.append("(%s)" % t)
                with_term.append(i)
        terms.append("check_object %s %s [%s]" % (a.tables(), tree, "; ".join(cterms)))
        term_cases.append((oi, with_term))
    evals = common.coq_eval("c06", ["Corr.CheckCorrupt"], terms, batch=2)
    model = {}
    obj_ok = {}
    for (oi, with_term), val in zip(term_cases, evals):
        nums = [int(x) for x in re.findall(r"\d+", val)]
        if len(nums) != len(with_term) + 1:
            raise common.BuildError("check_object printed %d values for %d cases: %s" % (len(nums), len(with_term), val[:300]))
        obj_ok[oi] = nums[0] == 1
        for i, code in zip(with_term, nums[1:]):
            model[i] = code

    for oi, good in obj_ok.items():
        if not good:
            common.corr_break(ctx, "Corr.CheckCorrupt.check_object: written_by_rocfl (Model/ObjTree.v) does not hold for an "
                              "object rocfl wrote, or the model validator rejects it", history_replay(objs[oi]))

    # ---- oracle and comparison
    stats = collections.Counter()
    by_kind = collections.defaultdict(collections.Counter)
    by_class = collections.defaultdict(collections.Counter)
    info = collections.defaultdict(collections.Counter)
    p_missed, known_detected, panics = [], 0, []
    n_model = 0
    for i, ((oi, c), r) in enumerate(zip(cases, results)):
        o = objs[oi]
        d_fix, d_nofix, d_path, d_repo = detected(r["fix"]), detected(r["nofix"]), detected(r["path"]), r["repo"]["rc"] == 2
        p_fix, p_nofix = bool(r["p_fix"]), bool(r["p_nofix"])
        key = (c.kind, c.cls, d_fix, d_nofix)
        ctx.count(key, nontrivial=True, sample={"object": o["obj"].id, "config": {k: o["cfg"][k] for k in ("alg", "cdir", "pad", "obj_spec")},
                                                "corruption": c.describe(), "rocfl_fixity": r["fix"]["codes"],
                                                "rocfl_no_fixity": r["nofix"]["codes"], "ocflv": r["p_fix"]})
        by_kind[c.kind]["n"] += 1
        by_class[c.cls]["n"] += 1
        by_kind[c.kind]["detected_with_fixity"] += d_fix
        by_kind[c.kind]["detected_without_fixity"] += d_nofix
        by_class[c.cls]["detected_with_fixity"] += d_fix
        by_class[c.cls]["detected_without_fixity"] += d_nofix
        stats["ocflv_detects"] += p_fix
        msg = None
        if c.must:
            stats["must_detect"] += 1
            if not d_fix:
                msg = "validate <id> with fixity: exit %d, %d error lines (expected exit 2 and an error)" % (r["fix"]["rc"], len(r["fix"]["codes"]))
            elif c.structural and not d_nofix:
                msg = "structural corruption, validate <id> --no-fixity-check: exit %d, %d error lines" % (r["nofix"]["rc"], len(r["nofix"]["codes"]))
            elif not d_path:
                msg = "validate -p <object root>: exit %d, %d error lines" % (r["path"]["rc"], len(r["path"]["codes"]))
            elif not d_repo:
                msg = "repository-wide validate: exit %d (expected 2)" % r["repo"]["rc"]
            if not c.structural:
                stats["fixity_only_kind"] += 1
                stats["fixity_only_found_without_fixity"] += d_nofix
        else:
            info[c.kind]["n"] += 1
            info[c.kind]["detected_with_fixity"] += d_fix
            info[c.kind]["detected_without_fixity"] += d_nofix
        failed = msg is not None
        c17 = [c17_known_panic(r[k], c17_known) for k in ("fix", "nofix", "path", "repo")]
        if any(c17) and all(x or not panicked(r[k]) for x, k in zip(c17, ("fix", "nofix", "path", "repo"))):
            # the corrupted inventory makes the validator PANIC in a way C17 records as a known finding:
            # no verdict at all (exit 101), neither "valid" nor the exit status 2 the property asks for
            slug = "C17/" + next(x for x in c17 if x)
            ctx.known_hit(slug)
            stats["validator_panics_known_to_C17"] += 1
            if len(panics) < 5:
                panics.append({"corruption": c.describe(), "object": o["obj"].id, "stderr": r["fix"]["err"][-300:]})
            continue
        if failed and c.known and c.known in known_ids:
            ctx.known_hit(c.known)
            stats["known_hits"] += 1
            failed = False
            msg = None
        elif not c.must and c.known and not d_fix and c.known in known_ids:
            ctx.known_hit(c.known)
            stats["known_hits_informational"] += 1
        elif c.known and d_fix:
            known_detected += 1
        if failed:
            stats["undetected"] += 1
            ctx.violation("impl-violation", dict(history_replay(o), corruption=c.describe(), expected=msg,
                                                 observed={k: {"exit": r[k]["rc"], "errors": r[k]["codes"], "stdout": r[k]["out"], "stderr": r[k]["err"]}
                                                           for k in ("fix", "nofix", "path", "repo")},
                                                 ocflv=r["p_fix"]))
            continue
        if d_fix and not p_fix and len(p_missed) < 20:
            p_missed.append({"corruption": c.describe(), "rocfl": r["fix"]["codes"]})
        # model vs implementation
        if i in model and obj_ok.get(oi):
            n_model += 1
            code = model[i]
            bad = None
            if code == 2:
                bad = "the model cannot apply this corruption (apply_corruption = None)"
            else:
                m_fix, m_nofix = bool(code & 1), bool(code & 2)
                m_known = bool(code & 12)
                m_struct = bool(code & 32)
                if m_fix != d_fix or m_nofix != d_nofix:
                    bad = "model verdict (fixity %s, no fixity %s) differs from rocfl (fixity %s, no fixity %s)" % (m_fix, m_nofix, d_fix, d_nofix)
                elif m_known != (c.known is not None):
                    bad = "known-class classification differs: Coq %s, check %s" % (m_known, c.known)
                elif m_struct != c.structural:
                    bad = "is_structural differs: Coq %s, check %s" % (m_struct, c.structural)
                elif c.must and not m_known and not (m_fix and (m_nofix or not c.structural)):
                    bad = "instance of the theorem evaluates to false"
            if bad:
                stats["model_disagrees"] += 1
                common.corr_break(ctx, "Corr.CheckCorrupt.check_case (Model/TreeValidate.v + Corrupt.v vs validate/mod.rs)",
                                  dict(history_replay(o), corruption=c.describe(), coq_term=c.coq(corruptlib.Abstraction()),
                                       model_code=code, disagreement=bad,
                                       rocfl={"fixity": r["fix"]["codes"], "no_fixity": r["nofix"]["codes"]}))

    cfg_stats = collections.Counter()
    for o in objs:
        so = o["obj"]
        cfg_stats["alg=" + so.alg] += 1
        cfg_stats["spec=" + str(so.spec)] += 1
        cfg_stats["cdir=" + so.cdir] += 1
        cfg_stats["pad=%d" % (corruptlib.version_name(so.head) or (0, 0))[0]] += 1
        cfg_stats["versions=%d" % len(so.vnames)] += 1
        cfg_stats["contentless_versions"] += sum(1 for v in so.vnames if not so.version_has_content(v))
        cfg_stats["contentless_head"] += 0 if so.version_has_content(so.head) else 1
        cfg_stats["upgraded"] += 1 if len({json_type(so, v) for v in so.vnames}) > 1 else 0
        cfg_stats["deduplicated"] += 1 if dedup(so) else 0
    ctx.coverage["objects"] = len(objs)
    ctx.coverage["objects_rejected_before_corruption"] = golden_invalid[:5]
    ctx.coverage["object_distribution"] = dict(cfg_stats)
    ctx.coverage["corruption_candidates"] = n_candidates
    ctx.coverage["corruptions_run"] = len(cases)
    ctx.coverage["by_kind"] = {k: dict(v) for k, v in sorted(by_kind.items())}
    ctx.coverage["by_file_class"] = {k: dict(v) for k, v in sorted(by_class.items())}
    ctx.coverage["informational_kinds"] = {k: dict(v) for k, v in sorted(info.items())}
    ctx.coverage["totals"] = dict(stats)
    ctx.coverage["known_class_cases_detected_anyway"] = known_detected
    ctx.coverage["ocflv_missed_what_rocfl_found"] = p_missed
    ctx.coverage["validator_panics_recorded_by_C17"] = panics
    ctx.coverage["traces_validated_against_impl"] = n_model
    ctx.assumptions.append("digest injectivity (no collision among the contents that occur) is a hypothesis of the theorems; "
                           "the inventory parser is abstract in the model (parse_inv): the check instantiates it with vplib/ocflv.validate_inventory")
    ctx.assumptions.append("objects are written through the library harness (vh hist) against /repo; validation runs through the release CLI built from VERIF_REPO")
    return common.finish_with_proof(ctx, proof,
        rule="objects: 8 scripted + 10 generated histories (quick; 12 + 36 thorough) over sha512/sha256, spec 1.0/1.1/upgrade, content directory names, zero padding; "
             "corruptions: every kind x every file/directory x sampled offsets, stratified by (kind, file class); "
             "distinct = distinct (kind, file class, detected with fixity, detected without)")


def json_type(so, v):
    import json
    f = v + "/inventory.json"
    try:
        return json.loads(so.files[f].decode("utf-8")).get("type")
    except (KeyError, ValueError):
        return None


def dedup(so):
    """some state digest is shared by several logical paths or a later version re-uses stored content"""
    for v in so.inv["versions"].values():
        if any(len(ps) > 1 for ps in v["state"].values()):
            return True
    return False
