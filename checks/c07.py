"""C07 - rocfl's validation verdict equals that of an independent reading of the OCFL 1.0/1.1 rules.

Stage 1 (proof): Props/C07.v - the Gallina validator (Model/Validate.v, written from the
  specification) is sound and complete for the declarative inventory clauses of
  Model/ValidateSpec.v, its verdict does not depend on member order nor on the spelling of
  the JSON text; parser/printer facts of Model/JsonValue.v.
Stage 2+3 (correspondence and search, one corpus): for every object of the corpus three verdicts
  R = the real `rocfl validate -p` (release CLI built from the current tree; exit status 2 = invalid),
      with and without the fixity check,
  G = Model/Validate.v `object_errors` evaluated by coqc on the object's listing,
  P = vplib/ocflv.py (a second independent implementation, Python),
  plus, where the generator knows it by construction, the expected verdict E.
  Oracle: G = P (= E) and R differs -> rocfl is wrong on that object: a violation with the object
  inline (no known class is left: the respelled valid inventories are must-pass since fix 2f36fc5).
  G <> P or G <> E -> one of the independent readings is wrong: correspondence break.
Corpus: official + custom fixtures; objects written by rocfl itself through generated
  histories; single spec-relevant edits of the inventory (re-serialised, sidecar regenerated,
  copied into the head version directory) and of the directory structure; respellings of valid
  inventories (escapes, key order, whitespace, non-ASCII).
"""
import collections
import concurrent.futures
import hashlib
import os
import re
import shutil
import unicodedata

from vplib import common, hist, vallib
from vplib.vallib import O, jget, jset, jdel, jrename, jcopy, jload, Spelling, PLAIN, Rawjson

INVALID, VALID = True, False


# --------------------------------------------------------------------------- an object copy being edited

def link_tree(src, dst):
    """copy of an object root; content files are hard links (never modified in place)"""
    os.makedirs(dst)
    for name in os.listdir(src):
        s, d = os.path.join(src, name), os.path.join(dst, name)
        if os.path.islink(s):
            os.symlink(os.readlink(s), d)
        elif os.path.isdir(s):
            link_tree(s, d)
        else:
            try:
                os.link(s, d)
            except OSError:
                shutil.copy2(s, d)


def rewrite(path, data):
    """replace a (possibly hard-linked) file"""
    if os.path.lexists(path):
        os.remove(path)
    os.makedirs(os.path.dirname(path), exist_ok=True)
    with open(path, "wb") as f:
        f.write(data)


class Obj:
    def __init__(self, path):
        self.path = path
        self.data = open(os.path.join(path, "inventory.json"), "rb").read()
        self.t = jload(self.data)

    # -- accessors on the root inventory tree
    @property
    def head(self):
        return jget(self.t, "head")

    @property
    def alg(self):
        return jget(self.t, "digestAlgorithm")

    @property
    def cdir(self):
        return jget(self.t, "contentDirectory", "content")

    def versions(self):
        return jget(self.t, "versions")

    def vkeys(self):
        return [k for k, _ in self.versions()]

    def headblock(self):
        return jget(self.versions(), self.head)

    def manifest(self):
        return jget(self.t, "manifest")

    def save(self, spelling=PLAIN, tree=None, alg=None, sep=" "):
        data = spelling.bytes(self.t if tree is None else tree)
        vallib.write_inventory(self.path, data, alg=alg or (self.alg if self.alg in ("sha512", "sha256") else "sha512"),
                               head=self.head if isinstance(self.head, str) else None, sidecar_sep=sep)
        return data

    def inventory_dirs(self):
        """directories with an inventory.json: root first, then version directories"""
        out = [self.path]
        for n in sorted(os.listdir(self.path)):
            p = os.path.join(self.path, n)
            if re.fullmatch(r"v\d+", n) and os.path.isfile(os.path.join(p, "inventory.json")):
                out.append(p)
        return out

    def edit_all(self, f, spelling=PLAIN):
        """apply f(tree) to every inventory of the object (root, head copy, prior versions)"""
        root_data = None
        for d in self.inventory_dirs():
            p = os.path.join(d, "inventory.json")
            data = open(p, "rb").read()
            if d != self.path and root_data is not None and os.path.basename(d) == self.head:
                continue        # head copy is written together with the root
            t = jload(data)
            f(t)
            out = spelling.bytes(t)
            a = jget(t, "digestAlgorithm")
            a = a if a in ("sha512", "sha256") else "sha512"
            if d == self.path:
                self.t = t
                vallib.write_inventory(self.path, out, alg=a, head=self.head)
                root_data = out
            else:
                for n in os.listdir(d):
                    if n.startswith("inventory.json"):
                        os.remove(os.path.join(d, n))
                rewrite(p, out)
                rewrite(p + "." + a, (hashlib.new(a, out).hexdigest() + " inventory.json\n").encode())

    def content_files(self):
        out = []
        for v in self.vkeys():
            base = os.path.join(self.path, v, self.cdir)
            for d, _, fs in os.walk(base):
                for f in fs:
                    out.append(os.path.relpath(os.path.join(d, f), self.path))
        return sorted(out)


def _prior_dirs(o):
    return [d for d in o.inventory_dirs()[1:] if os.path.basename(d) != o.head]


def pick(o, rng, seq):
    """the main variant of an edit: the k-th object made by an edit kind takes the k-th element (so that a
    short run still covers every variant of a list in order); later choices inside the same edit are random"""
    seq = list(seq)
    k = getattr(o, "k", None)
    if k is not None and not getattr(o, "_picked", False):
        o._picked = True
        return seq[k % len(seq)]
    return rng.choice(seq)


def first_digest(o):
    m = o.manifest()
    return m[0][0] if m else None


# --------------------------------------------------------------------------- edits
# each edit: f(o: Obj, rng) -> (expect_with_fixity, expect_without) | None when not applicable
# expectation: INVALID / VALID / None (not fixed by construction)

EDITS = collections.OrderedDict()


def edit(name):
    def deco(f):
        EDITS[name] = f
        return f
    return deco


def both(v):
    return (v, v)


def _mk_del(k):
    def f(o, rng):
        if jget(o.t, k) is None:
            return None
        jdel(o.t, k)
        o.save()
        return both(INVALID)
    return f


def _mk_rename(k):
    def f(o, rng):
        if jget(o.t, k) is None:
            return None
        jrename(o.t, k, k + "X")
        o.save()
        return both(INVALID)
    return f


def _mk_dup(k):
    def f(o, rng):
        v = jget(o.t, k)
        if v is None:
            return None
        o.t.append((k, jcopy(v)))
        o.save()
        return both(INVALID)
    return f


def _mk_type(k, val, label):
    def f(o, rng):
        if jget(o.t, k) is None and k != "fixity":
            return None
        jset(o.t, k, val)
        o.save()
        return both(INVALID)
    return f


for _k in ("id", "type", "digestAlgorithm", "head", "manifest", "versions"):
    EDITS["del-" + _k] = _mk_del(_k)
    EDITS["rename-" + _k] = _mk_rename(_k)
    EDITS["dup-" + _k] = _mk_dup(_k)
for _k, _vals in (("id", [7, None, ["x"]]), ("type", [1, None]), ("digestAlgorithm", [512, None]),
                  ("head", [1, None, ["v1"]]), ("manifest", [[], "m", None]), ("versions", [[], "v", None, O()]),
                  ("contentDirectory", [1, None, ["content"]]), ("fixity", [[], "f", None, 3])):
    for _i, _v in enumerate(_vals):
        EDITS["type-%s-%d" % (_k, _i)] = _mk_type(_k, _v, "")


@edit("id-empty")
def _(o, rng):
    o.edit_all(lambda t: jset(t, "id", ""))
    return both(INVALID)


@edit("unknown-top-key")
def _(o, rng):
    o.t.append((pick(o, rng, ["extra", "Id", "digest", "created", "state"]), pick(o, rng, ["x", 1, O(), []])))
    o.save()
    return both(INVALID)


@edit("type-uri")
def _(o, rng):
    cur = jget(o.t, "type")
    new = pick(o, rng, ["https://ocfl.io/1.2/spec/#inventory", "https://ocfl.io/1.0/spec/", "http://ocfl.io/1.0/spec/#inventory",
                      "https://ocfl.io/1.0/spec/#Inventory", cur + " ", "",
                      "https://ocfl.io/1.1/spec/#inventory" if cur.startswith("https://ocfl.io/1.0") else "https://ocfl.io/1.0/spec/#inventory"])
    jset(o.t, "type", new)
    o.save()
    return both(INVALID)


@edit("alg-name")
def _(o, rng):
    jset(o.t, "digestAlgorithm", pick(o, rng, ["md5", "SHA512", "sha-512", "sha1", "blake2b-512", "", "sha512 ", "sha512/256"]))
    o.save(alg="sha512")
    return both(INVALID)


@edit("head-bad")
def _(o, rng):
    vk = o.vkeys()
    cands = ["v0", "1", "V1", "", "v", "v1.0", "v-1", "head", "v" + str(len(vk) + 1), " v1", "v1 "]
    if len(vk) >= 2:
        cands += [vk[0]] * 4
    h = pick(o, rng, cands)
    if h == o.head:
        return None
    jset(o.t, "head", h)
    data = PLAIN.bytes(o.t)
    vallib.write_inventory(o.path, data, alg=o.alg, head=vk[-1])
    return both(INVALID)


@edit("cdir-bad")
def _(o, rng):
    jset(o.t, "contentDirectory", pick(o, rng, ["a/b", ".", "..", "", "content/", "/content", "./content"]))
    o.save()
    return both(INVALID)


@edit("cdir-explicit-default")
def _(o, rng):
    if jget(o.t, "contentDirectory") is not None:
        return None
    o.edit_all(lambda t: jset(t, "contentDirectory", "content"))
    return both(VALID)


@edit("cdir-default-mixed-spelling")
def _(o, rng):
    """the default content directory spelled out in some inventories and omitted in others (root + head copy one way,
    one or two earlier version inventories the other way): the same value everywhere, a valid object (3.5.1: the
    default applies when the key is absent)"""
    pv = prior_versions(o)
    if not pv or jget(o.t, "contentDirectory", "content") != "content":
        return None
    root_has = jget(o.t, "contentDirectory") is not None
    done = False
    for v in rng.choice(subsets12(pv)):
        t = vinv_load(o, v)
        has = jget(t, "contentDirectory") is not None
        if has == root_has:
            if has:
                jdel(t, "contentDirectory")
            else:
                jset(t, "contentDirectory", "content")
            vinv_save(o, v, t)
            done = True
    if not done:
        return None
    return both(VALID)


@edit("version-skip")
def _(o, rng):
    vk = o.vkeys()
    last = vk[-1]
    m = re.fullmatch(r"v(0*)(\d+)", last)
    width = len(last) - 1
    new = "v" + str(int(last[1:]) + 1).rjust(width if last.startswith("v0") else 0, "0")
    jrename(o.versions(), last, new)
    if o.head == last:
        jset(o.t, "head", new)
    os.rename(os.path.join(o.path, last), os.path.join(o.path, new))
    o.save()
    return both(INVALID)


@edit("version-padding-mixed")
def _(o, rng):
    vk = o.vkeys()
    k = pick(o, rng, vk)
    new = ("v" + k[1:].lstrip("0")) if k.startswith("v0") else ("v0" + k[1:])
    if new in vk or new == "v":
        return None
    if len(vk) == 1:
        # a single version: any one convention is consistent; the content paths still name the old directory
        return None
    jrename(o.versions(), k, new)
    if o.head == k:
        jset(o.t, "head", new)
    os.rename(os.path.join(o.path, k), os.path.join(o.path, new))
    o.save()
    return both(INVALID)


@edit("version-key-bad")
def _(o, rng):
    new = pick(o, rng, ["v0", "v1x", "1", "version1", "v", "v-2", "V9", "v1.5", ""])
    if new in o.vkeys():
        return None
    o.versions().append((new, jcopy(o.headblock())))
    o.save()
    return both(INVALID)


@edit("versions-empty")
def _(o, rng):
    jset(o.t, "versions", O())
    o.save()
    return both(INVALID)


CREATED_VALID = ["2020-01-01T00:00:00Z", "2020-01-01t00:00:00z", "2020-01-01T00:00:00.123456789Z", "2020-01-01T00:00:00.0Z",
                 "2020-01-01T00:00:00+05:30", "2020-01-01T00:00:00-00:00", "2020-01-01T23:59:59-23:59", "2016-12-31T23:59:60Z",
                 "2020-02-29T12:00:00Z", "2000-02-29T12:00:00Z", "0001-01-01T00:00:00Z", "9999-12-31T23:59:59Z",
                 "2020-01-01T00:00:00.5+01:00", "2020-01-01T00:00:00z", "2020-01-01t00:00:00Z"]
CREATED_INVALID = ["2020-01-01T00:00:00", "2020-01-01T00:00Z", "2020-01-01T00:00+01:00", "2020-02-30T00:00:00Z", "2019-02-29T00:00:00Z",
                   "1900-02-29T00:00:00Z", "2020-13-01T00:00:00Z", "2020-00-10T00:00:00Z", "2020-01-00T00:00:00Z", "2020-01-32T00:00:00Z",
                   "2020-04-31T00:00:00Z", "2020-01-01T24:00:00Z", "2020-01-01T00:60:00Z", "2020-01-01T00:00:61Z",
                   "2020-01-01 00:00:00Z", "2020-01-01", "", "2020-01-01T00:00:00.Z", "2020-01-01T00:00:00+0530", "2020-01-01T00:00:00+05",
                   "20-01-01T00:00:00Z", "2020-01-01T00:00:00Zjunk", "2020-1-1T0:0:0Z", "2020-01-01T00:00:00 Z", "2020-01-01T00:00:00ZZ",
                   "2020-01-01T00:00:00+24:00", "2020-01-01T00:00:00+00:60", "Mon, 01 Jan 2020 00:00:00 GMT", "1577836800",
                   "2020-01-01T00:00:00,5Z", " 2020-01-01T00:00:00Z", "2020-01-01T00:00:00Z ", "+2020-01-01T00:00:00Z", "2020-01-01T00:00:00.5"]


@edit("created-valid")
def _(o, rng):
    jset(o.headblock(), "created", pick(o, rng, CREATED_VALID))
    o.save()
    return both(VALID)


@edit("created-invalid")
def _(o, rng):
    jset(o.headblock(), "created", pick(o, rng, CREATED_INVALID))
    o.save()
    return both(INVALID)


@edit("created-leap-midday")
def _(o, rng):
    jset(o.headblock(), "created", "2020-06-15T12:30:60Z")
    o.save()
    return (None, None)


@edit("created-missing")
def _(o, rng):
    jdel(o.headblock(), "created")
    o.save()
    return both(INVALID)


@edit("created-type")
def _(o, rng):
    jset(o.headblock(), "created", pick(o, rng, [1577836800, None, ["2020-01-01T00:00:00Z"], O()]))
    o.save()
    return both(INVALID)


def _swapcase_hex(d):
    return d.upper() if d != d.upper() else d.lower()


@edit("digest-case-manifest-only")
def _(o, rng):
    m = o.manifest()
    cands = [i for i, (d, _) in enumerate(m) if re.search(r"[a-fA-F]", d)]
    if not cands:
        return None
    i = pick(o, rng, cands)
    m[i] = (_swapcase_hex(m[i][0]), m[i][1])
    o.save()
    return both(INVALID)


@edit("digest-case-consistent")
def _(o, rng):
    m = o.manifest()
    cands = [d for d, _ in m if re.search(r"[a-fA-F]", d)]
    if not cands:
        return None
    d = pick(o, rng, cands)
    nd = _swapcase_hex(d)

    def f(t):
        mm = jget(t, "manifest")
        if isinstance(mm, O):
            jrename(mm, d, nd)
        for _, vb in jget(t, "versions") or []:
            st = jget(vb, "state")
            if isinstance(st, O):
                jrename(st, d, nd)
    if jget(o.t, "fixity") is not None and o.alg in [k for k, _ in jget(o.t, "fixity")]:
        return None
    o.edit_all(f)
    return both(VALID)


@edit("digest-wrong-length")
def _(o, rng):
    d = first_digest(o)
    if d is None:
        return None
    nd = pick(o, rng, [d[:-1], d + "0", d[:32], d[: len(d) // 2]])
    jrename(o.manifest(), d, nd)
    for _, vb in o.versions():
        jrename(jget(vb, "state"), d, nd)
    o.save()
    return both(INVALID)


@edit("digest-not-hex")
def _(o, rng):
    d = first_digest(o)
    if d is None:
        return None
    nd = d[:-1] + pick(o, rng, "gz_ ")
    jrename(o.manifest(), d, nd)
    for _, vb in o.versions():
        jrename(jget(vb, "state"), d, nd)
    o.save()
    return both(INVALID)


@edit("digest-dup-case")
def _(o, rng):
    m = o.manifest()
    cands = [(d, ps) for d, ps in m if re.search(r"[a-fA-F]", d) and ps]
    if not cands:
        return None
    d, ps = pick(o, rng, cands)
    # the same digest a second time in the other case, with a second copy of the file
    src = os.path.join(o.path, ps[0])
    newp = ps[0] + ".copy"
    shutil.copy(src, os.path.join(o.path, newp))
    m.append((_swapcase_hex(d), [newp]))
    jget(o.headblock(), "state").append((_swapcase_hex(d), ["copy-of-" + os.path.basename(ps[0])]))
    o.save()
    return both(INVALID)


@edit("cpath-bad")
def _(o, rng):
    m = o.manifest()
    cands = [(i, j) for i, (_, ps) in enumerate(m) for j in range(len(ps))]
    if not cands:
        return None
    i, j = rng.choice(cands)
    p = m[i][1][j]
    parts = p.split("/")
    kind = pick(o, rng, ["dot", "dotdot", "empty", "lead", "trail", "dotend"])
    if kind == "dot":
        np = "/".join(parts[:2] + ["."] + parts[2:])
    elif kind == "dotdot":
        np = "/".join(parts[:2] + ["..", parts[1]] + parts[2:])
    elif kind == "empty":
        np = "/".join(parts[:2]) + "//" + "/".join(parts[2:])
    elif kind == "lead":
        np = "/" + p
    elif kind == "trail":
        np = p + "/"
    else:
        np = p + "/."
    m[i][1][j] = np
    o.save()
    return both(INVALID)


@edit("cpath-prefix-conflict")
def _(o, rng):
    m = o.manifest()
    cands = [ps[0] for _, ps in m if ps]
    if not cands:
        return None
    p = pick(o, rng, cands)
    data = b"conflict " + p.encode()
    d = hashlib.new(o.alg, data).hexdigest()
    m.append((d, [p + "/sub.txt"]))
    jget(o.headblock(), "state").append((d, ["conflict-sub.txt"]))
    o.save()
    return both(INVALID)


@edit("cpath-duplicate")
def _(o, rng):
    m = o.manifest()
    cands = [i for i, (_, ps) in enumerate(m) if ps]
    if not cands:
        return None
    i = pick(o, rng, cands)
    if rng.random() < 0.5 or len(cands) < 2:
        m[i][1].append(m[i][1][0])
    else:
        j = pick(o, rng, [c for c in cands if c != i])
        m[j][1].append(m[i][1][0])
    o.save()
    return both(INVALID)


@edit("cpath-outside-content")
def _(o, rng):
    m = o.manifest()
    cands = [(i, j) for i, (_, ps) in enumerate(m) for j in range(len(ps))]
    if not cands:
        return None
    i, j = pick(o, rng, cands)
    p = m[i][1][j]
    v = p.split("/")[0]
    np = v + "/" + os.path.basename(p) + ".moved"
    os.rename(os.path.join(o.path, p), os.path.join(o.path, np))
    m[i][1][j] = np
    o.save()
    return both(INVALID)


LPATH_BAD = [".", "..", "a//b", "/a", "a/", "", "a/./b", "a/../b", "./a", "../a", "a/..", "a/.", "/", "//"]
LPATH_ODD = ["a b", "...", ".a", "a..", "a/..b", "-", "~", "con", "a:b", "a*b?", "a|b", "%2F", "aé", "é", "日本/語",
             "\U0001F600.txt", "a'b", "a<b>", "{a}", "[a]", "a,b", "a=b&c", " ", "​", "a‮b", "trüb/süß"]


def _some_state_slot(o, rng):
    st = jget(o.headblock(), "state")
    cands = [(i, j) for i, (_, ps) in enumerate(st) for j in range(len(ps))] if isinstance(st, O) else []
    if not cands:
        return None
    i, j = rng.choice(cands)
    return st, i, j


@edit("lpath-bad")
def _(o, rng):
    s = _some_state_slot(o, rng)
    if s is None:
        return None
    st, i, j = s
    st[i][1][j] = pick(o, rng, LPATH_BAD)
    o.save()
    return both(INVALID)


@edit("lpath-odd-valid")
def _(o, rng):
    s = _some_state_slot(o, rng)
    if s is None:
        return None
    st, i, j = s
    new = pick(o, rng, LPATH_ODD)
    allp = [p for _, ps in st for p in ps]
    if any(p == new or p.startswith(new + "/") or new.startswith(p + "/") for p in allp):
        return None
    st[i][1][j] = new
    o.save()
    return both(VALID)


@edit("lpath-conflict")
def _(o, rng):
    s = _some_state_slot(o, rng)
    if s is None:
        return None
    st, i, j = s
    p = st[i][1][j]
    i2 = rng.randrange(len(st))
    st[i2][1].append(p + "/child" if rng.random() < 0.6 else p.split("/")[0] if "/" in p else p + "/x/y")
    o.save()
    return both(INVALID)


@edit("lpath-duplicate")
def _(o, rng):
    s = _some_state_slot(o, rng)
    if s is None:
        return None
    st, i, j = s
    i2 = rng.randrange(len(st))
    st[i2][1].append(st[i][1][j])
    o.save()
    return both(INVALID)


@edit("state-digest-unknown")
def _(o, rng):
    st = jget(o.headblock(), "state")
    if not st:
        return None
    # prefer a digest that another version uses too: then E050 is the only broken clause (no E107)
    def used_elsewhere(d):
        return sum(1 for _, vb in o.versions() if isinstance(jget(vb, "state"), O) and any(k == d for k, _ in jget(vb, "state"))) >= 2
    cands = [i for i, (d, _) in enumerate(st) if used_elsewhere(d)] or list(range(len(st)))
    i = pick(o, rng, cands)
    d = st[i][0]
    nd = d[:-1] + ("0" if d[-1] != "0" else "1")
    if nd in [x for x, _ in o.manifest()]:
        return None
    st[i] = (nd, st[i][1])
    o.save()
    return both(INVALID)


@edit("manifest-unused-digest")
def _(o, rng):
    data = b"unused content"
    d = hashlib.new(o.alg, data).hexdigest()
    p = "%s/%s/unused-file.bin" % (o.head, o.cdir)
    rewrite(os.path.join(o.path, p), data)
    o.manifest().append((d, [p]))
    o.save()
    return both(INVALID)


@edit("manifest-entry-empty")
def _(o, rng):
    # a digest some state uses, but without any content path (objects without prior inventories:
    # those would still list the removed files)
    m = o.manifest()
    if not m or _prior_dirs(o) or jget(o.t, "fixity") is not None:
        return None
    i = rng.randrange(len(m))
    for p in m[i][1]:
        os.remove(os.path.join(o.path, p))
        d = os.path.dirname(os.path.join(o.path, p))
        while os.path.dirname(d) != o.path and not os.listdir(d):      # no empty directory stays behind
            os.rmdir(d)
            d = os.path.dirname(d)
    m[i] = (m[i][0], [])
    o.save()
    # no MUST is broken (3.5.2 E092 fixes "an array containing the content paths ... with the given digest";
    # E050 / E107 speak of keys): all validators must agree that the object is valid
    return both(VALID)


@edit("state-entry-empty")
def _(o, rng):
    st = jget(o.headblock(), "state")
    m = o.manifest()
    if not m:
        return None
    d = pick(o, rng, [x for x, _ in m])
    if any(k == d for k, _ in st):
        for i, (k, ps) in enumerate(st):
            if k == d:
                if len([1 for _, vb in o.versions() if any(k2 == d for k2, _ in jget(vb, "state"))]) < 2:
                    return None
                st[i] = (k, [])
    else:
        st.append((d, []))
    o.save()
    return both(VALID)


@edit("paths-not-array")
def _(o, rng):
    where = pick(o, rng, ["manifest", "state"])
    blk = o.manifest() if where == "manifest" else jget(o.headblock(), "state")
    if not blk:
        return None
    i = rng.randrange(len(blk))
    ps = blk[i][1]
    blk[i] = (blk[i][0], pick(o, rng, [ps[0] if ps else "x", O((p, 1) for p in ps), None, ps + [7], [ps], ps + [None]]))
    o.save()
    return both(INVALID)


@edit("message-type")
def _(o, rng):
    jset(o.headblock(), "message", pick(o, rng, [1, None, ["m"], O(), True]))
    o.save()
    return both(INVALID)


@edit("message-odd-valid")
def _(o, rng):
    jset(o.headblock(), "message", pick(o, rng, ["", " ", "line1\nline2\ttab", "quote \" backslash \\ slash /", "日本語 \U0001F600",
                                               "é vs é", "\u0001\u001f control", "x" * 5000]))
    o.save()
    return both(VALID)


@edit("user-bad")
def _(o, rng):
    jset(o.headblock(), "user", pick(o, rng, ["alice", 1, None, ["a"], O(), O([("address", "mailto:a@b.c")]),
                                            O([("name", 1)]), O([("name", None)]), O([("name", ["A"])]),
                                            O([("name", "A"), ("address", 5)]), O([("name", "A"), ("address", None)]),
                                            O([("Name", "A")])]))
    o.save()
    return both(INVALID)


@edit("user-odd-valid")
def _(o, rng):
    jset(o.headblock(), "user", pick(o, rng, [O([("name", "A")]), O([("address", "mailto:a@b.c"), ("name", "Zoë")]),
                                            O([("name", "Zoë"), ("address", "not a uri")]), O([("name", "")]),
                                            O([("name", "q\"uote\\"), ("address", "https://orcid.org/0000-0002-1825-0097")]),
                                            O([("name", "\U0001F600"), ("address", "mailto:zoë@example.org")])]))
    o.save()
    return both(VALID)


@edit("user-unknown-key")
def _(o, rng):
    jset(o.headblock(), "user", O([("name", "A"), ("address", "mailto:a@b.c"), ("email", "a@b.c")]))
    o.save()
    return both(INVALID)


@edit("version-unknown-key")
def _(o, rng):
    o.headblock().append((pick(o, rng, ["extra", "Created", "users", "id"]), "x"))
    o.save()
    return both(INVALID)


@edit("version-dup-key")
def _(o, rng):
    hb = o.headblock()
    k, v = pick(o, rng, hb)
    hb.append((k, jcopy(v)))
    o.save()
    return both(INVALID)


@edit("version-not-object")
def _(o, rng):
    jset(o.versions(), o.head, pick(o, rng, ["x", 1, None, []]))
    o.save()
    return both(INVALID)


@edit("state-missing")
def _(o, rng):
    if rng.random() < 0.5:
        jdel(o.headblock(), "state")
    else:
        jset(o.headblock(), "state", pick(o, rng, [[], "s", None]))
    o.save()
    return both(INVALID)


@edit("state-dup-digest")
def _(o, rng):
    st = jget(o.headblock(), "state")
    if not st:
        return None
    d, ps = pick(o, rng, st)
    st.append((d, ["dup-" + str(rng.randrange(1000))]))
    o.save()
    # RFC 8259 section 4: names SHOULD be unique; E096 / E097 cover manifest and fixity only - no MUST broken
    return both(VALID)


@edit("manifest-dup-digest")
def _(o, rng):
    m = o.manifest()
    if not m:
        return None
    d, ps = pick(o, rng, m)
    data = open(os.path.join(o.path, ps[0]), "rb").read()
    p = "%s/%s/dup-file.bin" % (o.head, o.cdir)
    rewrite(os.path.join(o.path, p), data)
    m.append((d, [p]))
    o.save()
    return both(INVALID)


def _digest_for(a, data):
    return {"blake2b-512": lambda x: hashlib.blake2b(x).hexdigest()}.get(a, lambda x: hashlib.new(a, x).hexdigest())(data)


def _fixity_block(o, a, rng, n=2):
    files = [p for _, ps in o.manifest() for p in ps]
    rng.shuffle(files)
    blk = O()
    by = {}
    for p in files[:n]:
        d = _digest_for(a, open(os.path.join(o.path, p), "rb").read())
        by.setdefault(d, []).append(p)
    for d, ps in by.items():
        blk.append((d, ps))
    return blk


@edit("fixity-good")
def _(o, rng):
    if not o.manifest():
        jset(o.t, "fixity", O())
        o.save()
        return both(VALID)
    fx = O()
    for a in rng.sample(["md5", "sha1", "sha256", "sha512", "blake2b-512"], rng.randint(1, 3)):
        fx.append((a, _fixity_block(o, a, rng)))
    jset(o.t, "fixity", fx)
    o.save()
    return both(VALID)


@edit("fixity-empty-block")
def _(o, rng):
    jset(o.t, "fixity", pick(o, rng, [O(), O([("md5", O())]), O([("sha1", O()), ("md5", O())])]))
    o.save()
    return both(VALID)


@edit("fixity-wrong-digest")
def _(o, rng):
    if not o.manifest():
        return None
    a = pick(o, rng, ["md5", "sha1", "sha256", "sha512"])
    blk = _fixity_block(o, a, rng, 1)
    d, ps = blk[0]
    nd = d[:-1] + ("0" if d[-1] != "0" else "1")
    jset(o.t, "fixity", O([(a, O([(nd, ps)]))]))
    o.save()
    return (INVALID, VALID)


@edit("fixity-own-algorithm-wrong")
def _(o, rng):
    """a fixity block under the object's own digest algorithm whose digest does not match the file
    (regression test of fix b049716: fixity_check kept one expected digest per algorithm, so in an object
    with prior version inventories this value was never compared with the file)"""
    if not o.manifest():
        return None
    blk = _fixity_block(o, o.alg, rng, 1)
    d, ps = blk[0]
    nd = d[:-1] + ("0" if d[-1] != "0" else "1")
    jset(o.t, "fixity", O([(o.alg, O([(nd, ps)]))]))
    o.save()
    return (INVALID, VALID)


@edit("fixity-own-algorithm-hides-manifest")
def _(o, rng):
    """the manifest digest of one file is wrong (manifest and states agree with each other), a fixity
    entry of the same algorithm carries the file's real digest (regression test of fix b049716: the fixity
    entry replaced the manifest digest as THE expectation for that algorithm)"""
    m = o.manifest()
    if not m or _prior_dirs(o):
        return None
    i = rng.randrange(len(m))
    d, ps = m[i]
    nd = d[:-1] + ("0" if d[-1] != "0" else "1")
    if any(x == nd for x, _ in m):
        return None
    m[i] = (nd, ps)
    for _, vb in o.versions():
        jrename(jget(vb, "state"), d, nd)
    jset(o.t, "fixity", O([(o.alg, O([(d.lower(), list(ps))]))]))
    o.save()
    return (INVALID, VALID)


@edit("fixity-block-bad")
def _(o, rng):
    if not o.manifest():
        return None
    a = rng.choice(["md5", "sha1"])
    blk = _fixity_block(o, a, rng, 2)
    d, ps = blk[0]
    kind = pick(o, rng, ["block-type", "paths-type", "dup-case", "path-bad", "path-twice", "path-elem"])
    if kind == "block-type":
        fx = O([(a, pick(o, rng, [[], "x", None, 1]))])
    elif kind == "paths-type":
        fx = O([(a, O([(d, pick(o, rng, [ps[0], None, O(), 1]))]))])
    elif kind == "dup-case":
        if not re.search(r"[a-f]", d):
            return None
        fx = O([(a, O([(d, ps), (d.upper(), ps)]))])
    elif kind == "path-bad":
        fx = O([(a, O([(d, [pick(o, rng, ["/" + ps[0], ps[0] + "/", ps[0].replace("/", "//", 1), "./" + ps[0], "v1/../" + ps[0]])])]))])
    elif kind == "path-twice":
        fx = O([(a, O([(d, [ps[0], ps[0]])]))])
    else:
        fx = O([(a, O([(d, ps + [3])]))])
    jset(o.t, "fixity", fx)
    o.save()
    return both(INVALID)


@edit("fixity-path-unknown")
def _(o, rng):
    if not o.manifest():
        return None
    a = "md5"
    jset(o.t, "fixity", O([(a, O([("d41d8cd98f00b204e9800998ecf8427e", ["%s/%s/not-in-manifest.txt" % (o.head, o.cdir)])]))]))
    o.save()
    return (None, None)


@edit("fixity-digest-malformed")
def _(o, rng):
    if not o.manifest():
        return None
    a = pick(o, rng, ["md5", "sha1"])
    blk = _fixity_block(o, a, rng, 1)
    d, ps = blk[0]
    jset(o.t, "fixity", O([(a, O([(pick(o, rng, [d[:-2], d + "00", "xyz", ""]), ps)]))]))
    o.save()
    return (INVALID, None)


@edit("fixity-unknown-algorithm")
def _(o, rng):
    if not o.manifest():
        return None
    p = o.manifest()[0][1][0]
    jset(o.t, "fixity", O([(pick(o, rng, ["crc32", "sha3-256", "size", "MD5"]), O([("abcdef01", [p])]))]))
    o.save()
    return (None, None)


# ---- directory structure

@edit("fs-stray-file-root")
def _(o, rng):
    rewrite(os.path.join(o.path, pick(o, rng, ["readme.txt", ".DS_Store", "inventory.json.bak", "v1.txt", "1=extra", "inventory.jsonx"])), b"x")
    return both(INVALID)


@edit("fs-stray-dir-root")
def _(o, rng):
    os.makedirs(os.path.join(o.path, pick(o, rng, ["tmp", "content", "v", "vx1", "Logs", "extension"])), exist_ok=True)
    return both(INVALID)


@edit("fs-extra-sidecar-root")
def _(o, rng):
    other = "sha256" if o.alg == "sha512" else "sha512"
    rewrite(os.path.join(o.path, "inventory.json." + other), (hashlib.new(other, o.data).hexdigest() + " inventory.json\n").encode())
    return (None, None)


@edit("fs-stray-file-version")
def _(o, rng):
    rewrite(os.path.join(o.path, pick(o, rng, o.vkeys()), pick(o, rng, ["notes.txt", "inventory.json.bak", ".keep"])), b"x")
    return both(INVALID)


@edit("fs-stray-dir-version")
def _(o, rng):
    d = os.path.join(o.path, pick(o, rng, o.vkeys()), pick(o, rng, ["extra", "metadata"]))
    os.makedirs(d, exist_ok=True)
    rewrite(os.path.join(d, "f.txt"), b"ignored")
    return both(VALID)


@edit("fs-missing-version-dir")
def _(o, rng):
    vk = o.vkeys()
    v = pick(o, rng, vk)
    shutil.rmtree(os.path.join(o.path, v))
    # spec: a version directory may be absent only if nothing refers to it - the inventory lists it (E010)
    return both(INVALID)


@edit("fs-extra-version-dir")
def _(o, rng):
    vk = o.vkeys()
    last = vk[-1]
    width = len(last) - 1
    new = "v" + str(int(last[1:]) + 1).rjust(width if last.startswith("v0") else 0, "0")
    os.makedirs(os.path.join(o.path, new))
    if rng.random() < 0.5:
        rewrite(os.path.join(o.path, new, o.cdir, "f.txt"), b"future")
    return both(INVALID)


@edit("fs-no-declaration")
def _(o, rng):
    for n in os.listdir(o.path):
        if n.startswith("0="):
            os.remove(os.path.join(o.path, n))
    return both(INVALID)


@edit("fs-two-declarations")
def _(o, rng):
    have = [n for n in os.listdir(o.path) if n.startswith("0=")]
    other = "0=ocfl_object_1.1" if "0=ocfl_object_1.0" in have else "0=ocfl_object_1.0"
    rewrite(os.path.join(o.path, other), (other[2:] + "\n").encode())
    return both(INVALID)


@edit("fs-declaration-content")
def _(o, rng):
    n = [x for x in os.listdir(o.path) if x.startswith("0=")][0]
    good = n[2:]
    rewrite(os.path.join(o.path, n), pick(o, rng, [good.encode(), (good + "\r\n").encode(), (good + "\n\n").encode(), b"", b"ocfl_object\n",
                                                 (" " + good + "\n").encode(), good.upper().encode() + b"\n",
                                                 ("ocfl_object_1.1\n" if good.endswith("1.0") else "ocfl_object_1.0\n").encode()]))
    return both(INVALID)


@edit("fs-declaration-name")
def _(o, rng):
    n = [x for x in os.listdir(o.path) if x.startswith("0=")][0]
    new = pick(o, rng, ["0=ocfl_object_1.2", "0=ocfl_object_", "0=ocfl_1.0", "0=OCFL_OBJECT_1.0", "0=ocfl_object_1.0.txt", "0=ocfl_object_2.0"])
    os.rename(os.path.join(o.path, n), os.path.join(o.path, new))
    rewrite(os.path.join(o.path, new), (new[2:] + "\n").encode())
    return both(INVALID)


@edit("fs-declaration-version-mismatch")
def _(o, rng):
    n = [x for x in os.listdir(o.path) if x.startswith("0=")][0]
    new = "0=ocfl_object_1.1" if n.endswith("1.0") else "0=ocfl_object_1.0"
    os.remove(os.path.join(o.path, n))
    rewrite(os.path.join(o.path, new), (new[2:] + "\n").encode())
    return both(INVALID)


@edit("fs-empty-content-dir")
def _(o, rng):
    cands = [v for v in o.vkeys() if not os.path.exists(os.path.join(o.path, v, o.cdir))]
    if not cands:
        return None
    os.makedirs(os.path.join(o.path, pick(o, rng, cands), o.cdir))
    return (None, None)


@edit("fs-empty-dir-in-content")
def _(o, rng):
    v = pick(o, rng, o.vkeys())
    os.makedirs(os.path.join(o.path, v, o.cdir, pick(o, rng, ["emptydir", "a/b/c"])))
    return both(INVALID)


@edit("fs-extensions-file")
def _(o, rng):
    rewrite(os.path.join(o.path, "extensions", "file.txt"), b"x")
    return both(INVALID)


@edit("fs-extensions-dir")
def _(o, rng):
    rewrite(os.path.join(o.path, "extensions", pick(o, rng, ["0001-digest-algorithms", "my-ext"]), "config.json"), b"{}")
    return both(VALID)


@edit("fs-logs")
def _(o, rng):
    if rng.random() < 0.5:
        os.makedirs(os.path.join(o.path, "logs"), exist_ok=True)
    else:
        rewrite(os.path.join(o.path, "logs", "audit.log"), b"ok\n")
    return both(VALID)


@edit("fs-logs-is-file")
def _(o, rng):
    rewrite(os.path.join(o.path, "logs"), b"x")
    return both(INVALID)


@edit("fs-content-missing")
def _(o, rng):
    fs = o.content_files()
    if not fs:
        return None
    os.remove(os.path.join(o.path, pick(o, rng, fs)))
    return both(INVALID)


@edit("fs-content-extra")
def _(o, rng):
    v = pick(o, rng, o.vkeys())
    rewrite(os.path.join(o.path, v, o.cdir, pick(o, rng, ["extra.txt", "sub/extra.txt"])), b"extra")
    return both(INVALID)


@edit("fs-content-corrupt")
def _(o, rng):
    fs = o.content_files()
    if not fs:
        return None
    p = os.path.join(o.path, pick(o, rng, fs))
    data = open(p, "rb").read()
    rewrite(p, (bytes([data[0] ^ 1]) + data[1:]) if data else b"x")
    return (INVALID, VALID)


@edit("fs-sidecar-wrong-digest")
def _(o, rng):
    where = pick(o, rng, [o.path, os.path.join(o.path, o.head)])
    p = os.path.join(where, "inventory.json." + o.alg)
    if not os.path.exists(p):
        return None
    txt = open(p).read()
    rewrite(p, (("0" if txt[0] != "0" else "1") + txt[1:]).encode())
    return both(INVALID)


@edit("fs-sidecar-format-bad")
def _(o, rng):
    p = os.path.join(o.path, "inventory.json." + o.alg)
    d = open(p).read().split()[0]
    rewrite(p, pick(o, rng, [d, d + "\n", d + " inventory.jsn\n", d + "inventory.json\n", "inventory.json " + d + "\n", d + " \n",
                           "", d + " inventory.json extra\n", d + " ./inventory.json\n", d + "  *inventory.json\n"]).encode())
    return both(INVALID)


@edit("fs-sidecar-format-ok")
def _(o, rng):
    p = os.path.join(o.path, "inventory.json." + o.alg)
    d = open(p).read().split()[0]
    rewrite(p, pick(o, rng, [d + "   inventory.json\n", d + "\tinventory.json\n", d + " \t inventory.json\n"]).encode())
    return both(VALID)


@edit("fs-sidecar-variants")
def _(o, rng):
    p = os.path.join(o.path, "inventory.json." + o.alg)
    d = open(p).read().split()[0]
    rewrite(p, pick(o, rng, [d + " inventory.json", d.upper() + " inventory.json\n", d + " inventory.json\r\n", d + " inventory.json\n\n"]).encode())
    return (None, None)


@edit("fs-sidecar-missing")
def _(o, rng):
    where = pick(o, rng, [o.path, os.path.join(o.path, o.head)])
    p = os.path.join(where, "inventory.json." + o.alg)
    if not os.path.exists(p):
        return None
    os.remove(p)
    return both(INVALID)


@edit("fs-sidecar-other-algorithm")
def _(o, rng):
    other = "sha256" if o.alg == "sha512" else "sha512"
    p = os.path.join(o.path, "inventory.json." + o.alg)
    os.remove(p)
    rewrite(os.path.join(o.path, "inventory.json." + other), (hashlib.new(other, o.data).hexdigest() + " inventory.json\n").encode())
    return both(INVALID)


@edit("fs-head-copy-differs")
def _(o, rng):
    hp = os.path.join(o.path, o.head, "inventory.json")
    if not os.path.exists(hp):
        return None
    data = open(hp, "rb").read() + b"\n"
    rewrite(hp, data)
    rewrite(hp + "." + o.alg, (hashlib.new(o.alg, data).hexdigest() + " inventory.json\n").encode())
    return both(INVALID)


@edit("fs-head-copy-removed")
def _(o, rng):
    hp = os.path.join(o.path, o.head, "inventory.json")
    if not os.path.exists(hp):
        return None
    os.remove(hp)
    os.remove(hp + "." + o.alg)
    return both(VALID)        # W010


@edit("fs-version-sidecar-without-inventory")
def _(o, rng):
    """a version directory that keeps its digest sidecar but has no inventory (3.3 E015 allows both files, W010)"""
    hp = os.path.join(o.path, o.head, "inventory.json")
    if not os.path.exists(hp):
        return None
    os.remove(hp)
    return (None, None)


@edit("fs-root-inventory-broken")
def _(o, rng):
    kind = pick(o, rng, ["truncate", "bom", "trailing", "empty", "comment", "single-quote", "nan"])
    d = o.data
    if kind == "truncate":
        d = d[: max(1, len(d) - rng.randint(1, 20))].rstrip(b"} \n")
    elif kind == "bom":
        d = b"\xef\xbb\xbf" + d
    elif kind == "trailing":
        d = d + pick(o, rng, [b"x", b"{}", b",", b"]"])
    elif kind == "empty":
        d = b""
    elif kind == "comment":
        d = b"// inventory\n" + d
    elif kind == "single-quote":
        d = d.replace(b'"id"', b"'id'", 1)
    else:
        d = d.rstrip()[:-1] + b', "x": NaN}'
    vallib.write_inventory(o.path, d, alg=o.alg, head=o.head)
    return both(INVALID)


@edit("inventory-not-object")
def _(o, rng):
    """the root inventory is well-formed JSON but not an object (string, number, array, true, null)"""
    d = pick(o, rng, [b'"inventory"', b"7", b"[]", b"true", b"null", b'[{"id": "x"}]', b"1.5e3", b'""'])
    vallib.write_inventory(o.path, d, alg=o.alg, head=o.head)
    return both(INVALID)


@edit("prior-inventory-not-object")
def _(o, rng):
    ds = _prior_dirs(o)
    if not ds:
        return None
    d = pick(o, rng, ds)
    p = os.path.join(d, "inventory.json")
    a = jget(jload(open(p, "rb").read()), "digestAlgorithm")
    out = pick(o, rng, [b'"inventory"', b"7", b"[]", b"true", b"null", b"{}"])
    rewrite(p, out)
    rewrite(p + "." + a, (hashlib.new(a, out).hexdigest() + " inventory.json\n").encode())
    return both(INVALID)


@edit("prior-inventory-edit")
def _(o, rng):
    ds = _prior_dirs(o)
    if not ds:
        return None
    d = rng.choice(ds)
    p = os.path.join(d, "inventory.json")
    t = jload(open(p, "rb").read())
    kind = pick(o, rng, ["id", "head", "cdir", "state", "type-later", "broken"])
    vn = os.path.basename(d)
    if kind == "id":
        jset(t, "id", jget(t, "id") + "-other")
    elif kind == "head":
        jset(t, "head", o.head)
    elif kind == "cdir":
        jset(t, "contentDirectory", "other" if jget(t, "contentDirectory", "content") != "other" else "content")
    elif kind == "state":
        st = jget(jget(jget(t, "versions"), vn), "state")
        if not st:
            return None
        st[0] = (st[0][0], st[0][1] + ["added-later.txt"])
    elif kind == "type-later":
        if jget(t, "type") == "https://ocfl.io/1.1/spec/#inventory" or jget(o.t, "type") == "https://ocfl.io/1.1/spec/#inventory":
            return None
        jset(t, "type", "https://ocfl.io/1.1/spec/#inventory")
    out = PLAIN.bytes(t) if kind != "broken" else b"{"
    a = jget(t, "digestAlgorithm")
    rewrite(p, out)
    rewrite(p + "." + a, (hashlib.new(a, out).hexdigest() + " inventory.json\n").encode())
    return both(INVALID)


# ---- cross-inventory rules on objects with three or more versions (non-adjacent and several inventories)

TYPE_URI = {"1.0": "https://ocfl.io/1.0/spec/#inventory", "1.1": "https://ocfl.io/1.1/spec/#inventory"}
URI_TYPE = {v: k for k, v in TYPE_URI.items()}


def vsorted(o):
    return sorted(o.vkeys(), key=lambda k: int(k[1:]))


def prior_versions(o):
    """names of the non-head versions that store an inventory, oldest first; None unless the object has
    three or more versions, all of them with an inventory"""
    vs = vsorted(o)
    if len(vs) < 3 or not all(os.path.isfile(os.path.join(o.path, v, "inventory.json")) for v in vs):
        return None
    return [v for v in vs if v != o.head]


def vinv_load(o, v):
    return jload(open(os.path.join(o.path, v, "inventory.json"), "rb").read())


def vinv_save(o, v, t):
    d = os.path.join(o.path, v)
    out = PLAIN.bytes(t)
    a = jget(t, "digestAlgorithm")
    a = a if a in ("sha512", "sha256") else "sha512"
    for n in os.listdir(d):
        if n.startswith("inventory.json"):
            os.remove(os.path.join(d, n))
    rewrite(os.path.join(d, "inventory.json"), out)
    rewrite(os.path.join(d, "inventory.json." + a), (hashlib.new(a, out).hexdigest() + " inventory.json\n").encode())


def spec_sequence(o):
    """inventory types v1 .. head, root as '1.0' / '1.1' (None for another string)"""
    seq = [URI_TYPE.get(jget(vinv_load(o, v), "type")) for v in vsorted(o)]
    return seq + [URI_TYPE.get(jget(o.t, "type"))]


def monotone(seq):
    return all(a is not None for a in seq) and all(a <= b_ for a, b_ in zip(seq, seq[1:]))


def subsets12(xs):
    """all subsets of size 1 and 2, singletons first"""
    return [[x] for x in xs] + [[x, y] for i, x in enumerate(xs) for y in xs[i + 1:]]


@edit("xinv-retype-one")
def _(o, rng):
    """ONE non-head version inventory retyped to the other specification version (3.7.1 E103: the sequence
    v1 .. head must never go down); valid exactly when the sequence stays non-decreasing"""
    pv = prior_versions(o)
    if not pv or not monotone(spec_sequence(o)):
        return None
    v = pick(o, rng, pv)
    t = vinv_load(o, v)
    cur = URI_TYPE.get(jget(t, "type"))
    jset(t, "type", TYPE_URI["1.1" if cur == "1.0" else "1.0"])
    vinv_save(o, v, t)
    return both(VALID if monotone(spec_sequence(o)) else INVALID)


@edit("xinv-retype-after-upgrade")
def _(o, rng):
    """the whole object brought to 1.1 (declaration and every inventory: must stay valid), then one or two
    non-head inventories, adjacent to the head or not, typed 1.0 again: e.g. 1.1, 1.0, 1.1 goes down and up"""
    pv = prior_versions(o)
    if not pv:
        return None
    for n in os.listdir(o.path):
        if n.startswith("0="):
            os.remove(os.path.join(o.path, n))
    rewrite(os.path.join(o.path, "0=ocfl_object_1.1"), b"ocfl_object_1.1\n")
    o.edit_all(lambda t: jset(t, "type", TYPE_URI["1.1"]))
    for v in pick(o, rng, [[]] + subsets12(pv)):
        t = vinv_load(o, v)
        jset(t, "type", TYPE_URI["1.0"])
        vinv_save(o, v, t)
    return both(VALID if monotone(spec_sequence(o)) else INVALID)


@edit("xinv-field")
def _(o, rng):
    """one clause of 3.7 / 3.5.1 broken in one or two non-head version inventories, the oldest first
    (not only in the one next to the head): id (E037/E110), contentDirectory (E019/E020), head (E040),
    the state of one of ITS earlier version blocks (E066)"""
    pv = prior_versions(o)
    if not pv:
        return None
    what = pick(o, rng, ["id", "cdir", "head", "state", "state-old-block"])
    targets = rng.choice(subsets12(pv))
    done = False
    for v in targets:
        t = vinv_load(o, v)
        if what == "id":
            jset(t, "id", jget(t, "id") + "-other")
        elif what == "cdir":
            jset(t, "contentDirectory", "other" if jget(t, "contentDirectory", "content") != "other" else "content")
        elif what == "head":
            others = [x for x in o.vkeys() if x != v]
            jset(t, "head", rng.choice(others))
        else:
            blocks = jget(t, "versions")
            names = sorted([k for k, _ in blocks], key=lambda k: int(k[1:]))
            bn = names[0] if what == "state-old-block" else v
            st = jget(jget(blocks, bn), "state")
            if not isinstance(st, O) or not st:
                continue
            st[0] = (st[0][0], st[0][1] + ["only-in-%s-inventory.txt" % v])
        vinv_save(o, v, t)
        done = True
    if not done:
        return None
    return both(INVALID)


@edit("xinv-metadata-differs")
def _(o, rng):
    """created / message / user of an earlier version block differ between inventories: W011 only (3.7)"""
    pv = prior_versions(o)
    if not pv:
        return None
    for v in pick(o, rng, subsets12(pv)):
        t = vinv_load(o, v)
        blocks = jget(t, "versions")
        bn = sorted([k for k, _ in blocks], key=lambda k: int(k[1:]))[0]
        jset(jget(blocks, bn), "message", "edited in the %s inventory" % v)
        jset(jget(blocks, bn), "created", "2001-02-03T04:05:06Z")
        vinv_save(o, v, t)
    return both(VALID)


def respell_padding(name, rng, k):
    """the same version number written with another zero padding"""
    n = int(name[1:])
    forms = ["v%d" % n, "v0%d" % n, "v%03d" % n, "v%04d" % n, "v%06d" % n]
    forms = [f for f in forms if f != name]
    return forms[k % len(forms)]


@edit("head-padding")
def _(o, rng):
    """head names the right NUMBER with another zero padding than the version names (3.5.1 E040: head is
    the version directory NAME; 3.3 E014), in the root inventory and the head version's copy"""
    new = respell_padding(o.head, rng, getattr(o, "k", 0))
    old = o.head
    jset(o.t, "head", new)
    data = PLAIN.bytes(o.t)
    vallib.write_inventory(o.path, data, alg=o.alg, head=old)
    return both(INVALID)


@edit("xinv-head-padding")
def _(o, rng):
    """the same in non-head version inventories (any object with two or more versions)"""
    vs = [v for v in vsorted(o) if v != o.head and os.path.isfile(os.path.join(o.path, v, "inventory.json"))]
    if not vs:
        return None
    v = pick(o, rng, vs)
    t = vinv_load(o, v)
    jset(t, "head", respell_padding(v, rng, rng.randrange(5)))
    vinv_save(o, v, t)
    return both(INVALID)


# ---- respellings and non-ASCII (must stay valid)

def _respell(esc, ws, shuffle, slash):
    def f(o, rng):
        sp = Spelling(rng, esc=esc, ws=ws, shuffle=shuffle, slash=slash)
        o.save(spelling=sp)
        return both(VALID)
    return f


EDITS["spell-pretty"] = _respell("plain", "pretty", False, False)
EDITS["spell-compact"] = _respell("plain", "compact", False, False)
EDITS["spell-spaces"] = _respell("plain", "spaces", False, False)
EDITS["spell-shuffle"] = _respell("plain", "compact", True, False)
EDITS["spell-shuffle-spaces"] = _respell("plain", "spaces", True, False)
EDITS["spell-u-all"] = _respell("u-all", "compact", False, False)
EDITS["spell-u-some"] = _respell("u-some", "compact", True, False)
EDITS["spell-slash"] = _respell("plain", "compact", False, True)
EDITS["spell-ascii"] = _respell("ascii", "pretty", True, False)


@edit("spell-every-inventory")
def _(o, rng):
    """every inventory of the object (prior versions too) respelled: escapes, order, white space"""
    sp = Spelling(rng, esc=pick(o, rng, ["u-all", "u-some", "ascii"]), ws=rng.choice(["compact", "spaces", "pretty"]),
                  shuffle=rng.random() < 0.5, slash=rng.random() < 0.5)
    o.edit_all(lambda t: None, spelling=sp)
    return both(VALID)


NEEDS_ESCAPE = ['a"b', "a\\b", "tab\there", "bell\u0007", 'q"\\\u001f/é']


@edit("id-needs-escape")
def _(o, rng):
    """an id that serde_json has to escape (quote, backslash, control character) in every inventory"""
    nid = "urn:x:" + pick(o, rng, NEEDS_ESCAPE)
    o.edit_all(lambda t: jset(t, "id", nid))
    return both(VALID)


@edit("lpath-needs-escape")
def _(o, rng):
    s = _some_state_slot(o, rng)
    if s is None:
        return None
    st, i, j = s
    new = pick(o, rng, [x.replace("/", "_") for x in NEEDS_ESCAPE])
    allp = [p for _, ps in st for p in ps]
    if any(p == new or p.startswith(new + "/") for p in allp):
        return None
    st[i][1][j] = new
    o.save()
    return both(VALID)


@edit("cdir-needs-escape")
def _(o, rng):
    """a content directory whose name needs a JSON escape: renamed on disk and in every inventory"""
    old = o.cdir
    new = pick(o, rng, ['c"d', "c\\d", "c\u0001d"])
    for v in o.vkeys():
        p = os.path.join(o.path, v, old)
        if os.path.isdir(p):
            os.rename(p, os.path.join(o.path, v, new))

    def f(t):
        jset(t, "contentDirectory", new)
        vk = [k for k, _ in jget(t, "versions")]
        for blk in [jget(t, "manifest")] + [b_ for _, b_ in (jget(t, "fixity") or [])]:
            for d, ps in blk:
                for i, x in enumerate(ps):
                    parts = x.split("/")
                    if len(parts) >= 3 and parts[0] in vk and parts[1] == old:
                        ps[i] = "/".join([parts[0], new] + parts[2:])
    o.edit_all(f)
    return both(VALID)


def labelled_dump(t, chosen, esc):
    """compact dump of an inventory tree; the string occurrence number [chosen] (in dump order) is
    written by esc(); returns (text, [labels in dump order])"""
    labels = []

    def s(x, label):
        labels.append(label)
        if len(labels) - 1 == chosen:
            return esc(x)
        return vallib.json.dumps(x, ensure_ascii=False)

    def val(v, label):
        if isinstance(v, str):
            return s(v, label)
        return PLAIN.dump(v)

    def block(blk, dl, pl):
        if not isinstance(blk, O):
            return PLAIN.dump(blk)
        return "{" + ",".join(s(d, dl) + ":" + ("[" + ",".join(val(x, pl) for x in ps) + "]" if isinstance(ps, list) else PLAIN.dump(ps))
                              for d, ps in blk) + "}"

    def user(u):
        if not isinstance(u, O):
            return PLAIN.dump(u)
        return "{" + ",".join(s(k, "fieldname") + ":" + val(v, k if k in ("name", "address") else "other") for k, v in u) + "}"

    def version(vb):
        if not isinstance(vb, O):
            return PLAIN.dump(vb)
        out = []
        for k, v in vb:
            if k == "state":
                out.append(s(k, "fieldname") + ":" + block(v, "sdigest", "lpath"))
            elif k == "user":
                out.append(s(k, "fieldname") + ":" + user(v))
            else:
                out.append(s(k, "fieldname") + ":" + val(v, k if k in ("created", "message") else "other"))
        return "{" + ",".join(out) + "}"

    out = []
    for k, v in t:
        if k == "manifest":
            out.append(s(k, "fieldname") + ":" + block(v, "mdigest", "cpath"))
        elif k == "versions" and isinstance(v, O):
            out.append(s(k, "fieldname") + ":{" + ",".join(s(vk, "versionkey") + ":" + version(vb) for vk, vb in v) + "}")
        elif k == "fixity" and isinstance(v, O):
            out.append(s(k, "fieldname") + ":{" + ",".join(s(a, "fixalg") + ":" + block(blk, "fdigest", "fpath") for a, blk in v) + "}")
        else:
            out.append(s(k, "fieldname") + ":" + val(v, k if k in ("id", "type", "digestAlgorithm", "head", "contentDirectory") else "other"))
    return "{" + ",".join(out) + "}", labels


ESC_POSITIONS = ["id", "type", "digestAlgorithm", "head", "contentDirectory", "created", "message", "name", "address",
                 "cpath", "lpath", "fieldname", "versionkey", "mdigest", "sdigest", "fixalg", "fdigest", "fpath"]


def _mk_escape(pos):
  def f(o, rng):
    """exactly one string occurrence of the inventory written with an escape (\\uXXXX of one
    character, or \\/ for a slash)"""
    _, labels = labelled_dump(o.t, -1, None)
    cands = [i for i, l in enumerate(labels) if l == pos]
    if not cands:
        return None
    chosen = pick(o, rng, cands)

    def esc(x):
        if not x:
            return '""'                       # empty string: nothing to escape
        i = rng.randrange(len(x))
        ch = x[i]
        if ch == "/" and rng.random() < 0.5:
            e = "\\/"
        elif ord(ch) > 0xFFFF:
            cp = ord(ch) - 0x10000
            e = "\\u%04x\\u%04x" % (0xD800 + (cp >> 10), 0xDC00 + (cp & 0x3FF))
        else:
            e = "\\u%04x" % ord(ch)
        q = lambda z: "".join(vallib.json.dumps(c, ensure_ascii=False)[1:-1] for c in z)
        return '"' + q(x[:i]) + e + q(x[i + 1:]) + '"'
    txt, _ = labelled_dump(o.t, chosen, esc)
    vallib.write_inventory(o.path, txt.encode("utf-8"), alg=o.alg, head=o.head)
    return both(VALID)
  return f


for _pos in ESC_POSITIONS:
    EDITS["escape-" + _pos] = _mk_escape(_pos)


@edit("nonascii-metadata")
def _(o, rng):
    form = pick(o, rng, ["NFC", "NFD"])
    nid = unicodedata.normalize(form, pick(o, rng, ["urn:example:über-é", "info:日本語/\U0001F600", "ark:/12345/åäö"]))
    nm = unicodedata.normalize(form, "Zoë Ångström")

    def f(t):
        jset(t, "id", nid)
        for _, vb in jget(t, "versions"):
            if isinstance(jget(vb, "user"), O):
                jset(jget(vb, "user"), "name", nm)
            jset(vb, "message", unicodedata.normalize(form, "café — ümläut"))
    o.edit_all(f)
    return both(VALID)


@edit("nonascii-paths")
def _(o, rng):
    """rename one content file and one logical path to non-ASCII names (on disk and in every inventory)"""
    m = o.manifest()
    cands = [(d, ps[0]) for d, ps in m if ps]
    if not cands:
        return None
    d, p = pick(o, rng, cands)
    form = pick(o, rng, ["NFC", "NFD"])
    newname = unicodedata.normalize(form, pick(o, rng, ["über.txt", "résumé final.pdf", "日本語.txt", "\U0001F600.bin"]))
    np = os.path.dirname(p) + "/" + newname
    if os.path.exists(os.path.join(o.path, np)):
        return None
    os.rename(os.path.join(o.path, p), os.path.join(o.path, np))

    def f(t):
        for dd, ps in jget(t, "manifest"):
            for i, x in enumerate(ps):
                if x == p:
                    ps[i] = np
        for _, blk in jget(t, "fixity") or []:
            for dd, ps in blk:
                for i, x in enumerate(ps):
                    if x == p:
                        ps[i] = np
        hb = jget(jget(t, "versions"), jget(t, "head"))
        st = jget(hb, "state")
        if jget(t, "head") == o.head and st and st[0][1]:
            allp = [q for _, qs in st for q in qs]
            lp = unicodedata.normalize(form, "déjà/vu-ñ.txt")
            if not any(q == lp or q.startswith(lp + "/") or lp.startswith(q + "/") or q == "déjà" for q in allp):
                st[0][1][0] = lp
    o.edit_all(f)
    return both(VALID)


# edits whose first choice ranges over a list of variants: make at least one object per variant
VARIANTS = {"created-valid": len(CREATED_VALID), "created-invalid": len(CREATED_INVALID), "lpath-bad": len(LPATH_BAD),
            "lpath-odd-valid": len(LPATH_ODD), "head-bad": 11, "alg-name": 8, "type-uri": 7, "cdir-bad": 7, "version-key-bad": 9,
            "user-bad": 12, "cpath-bad": 6, "fs-declaration-content": 8, "fs-sidecar-format-bad": 10, "fs-root-inventory-broken": 7,
            "fixity-block-bad": 6, "inventory-not-object": 8, "prior-inventory-edit": 6, "message-odd-valid": 8,
            "xinv-retype-after-upgrade": 8, "xinv-field": 10, "head-padding": 8}


# --------------------------------------------------------------------------- corpus

def fixture_bases(ctx):
    """(name, path, expected) of the official and custom fixtures"""
    out = []
    for kind in ("valid", "warn", "error"):
        d = os.path.join(vallib.FIX, "official-1.0", kind)
        for n in sorted(os.listdir(d)):
            out.append(("official/%s/%s" % (kind, n), os.path.join(d, n), INVALID if kind == "error" else VALID))
    cust = os.path.join(vallib.FIX, "custom", "repos")
    for repo in sorted(os.listdir(cust)):
        for r in hist.find_object_roots(os.path.join(cust, repo)):
            try:
                oid = jget(jload(open(os.path.join(r, "inventory.json"), "rb").read()), "id")
            except Exception:
                oid = None
            # tests/validate-tests.rs: valid repo - no errors; invalid repo - obj-2 has errors, obj-1 none
            exp = INVALID if (repo == "invalid" and oid == "urn:example:rocfl:obj-2") else VALID
            out.append(("custom/%s/%s" % (repo, oid), r, exp))
    return out


def history_objects(ctx, n_hist, length):
    """objects written by rocfl itself: run generated histories, return the object roots"""
    common.build_harness()
    out = []
    cfgs = hist.configurations(ctx.rng, n_hist)
    for i, cfg in enumerate(cfgs):
        r = hist.Runner(ctx, cfg, "hist%d" % i)
        try:
            ops = hist.gen_history(ctx.rng, cfg, length, n_objects=2)
            # make sure something is committed at the end
            for oid in sorted({op["id"] for op in ops}):
                ops.append({"op": "commit", "id": oid})
            for op in ops:
                r.step(op)
            for k, root in enumerate(r.object_roots()):
                dst = os.path.join(ctx.tmp, "written", "h%d-o%d" % (i, k))
                os.makedirs(os.path.dirname(dst), exist_ok=True)
                shutil.copytree(root, dst)
                out.append(("written/h%d-o%d[%s,%s,%s,%s,pad%s]" % (i, k, cfg["layout"], cfg["obj_spec"], cfg["alg"], cfg["cdir"], cfg["pad"]), dst, VALID))
        finally:
            r.close()
    return out


def regression_objects(ctx):
    """must-detect objects of defects found by this check (or its siblings) and repaired in /repo:
    b049716 - fixity_check kept one expected digest per algorithm (a HashMap): (a) a wrong sha512 fixity digest
    of a file listed in a prior version inventory was never compared with the file (E093), (b) a content file
    that does not match its manifest digest passed when a sha512 fixity entry carried its real digest (E092)"""
    out = []
    base = os.path.join(ctx.tmp, "regression")
    os.makedirs(base)
    off = os.path.join(vallib.FIX, "official-1.0", "valid")
    # (a)
    dst = os.path.join(base, "fixity-a")
    shutil.copytree(os.path.join(off, "updates_three_versions_one_file"), dst)
    o = Obj(dst)
    p = [ps[0] for _, ps in o.manifest() if ps and ps[0].startswith("v1/")][0]
    d = hashlib.sha512(open(os.path.join(dst, p), "rb").read()).hexdigest()
    jset(o.t, "fixity", O([("sha512", O([(d[:-1] + ("0" if d[-1] != "0" else "1"), [p])]))]))
    o.save()
    out.append(("regression/b049716-a wrong own-algorithm fixity digest, prior inventories", dst, (INVALID, VALID)))
    # (b)
    dst = os.path.join(base, "fixity-b")
    shutil.copytree(os.path.join(off, "minimal_one_version_one_file"), dst)
    o = Obj(dst)
    d, ps = o.manifest()[0]
    nd = d[:-1] + ("0" if d[-1] != "0" else "1")
    o.manifest()[0] = (nd, ps)
    jrename(jget(o.headblock(), "state"), d, nd)
    jset(o.t, "fixity", O([("sha512", O([(d, list(ps))]))]))
    o.save()
    out.append(("regression/b049716-b wrong manifest digest hidden by own-algorithm fixity entry", dst, (INVALID, VALID)))
    # 95fb10c - the empty string as a logical path passed (3.5.3.1 E051 / E052)
    for tag, paths in (("c", [""]), ("d", ["a_file.txt", ""])):
        dst = os.path.join(base, "empty-lpath-" + tag)
        shutil.copytree(os.path.join(off, "minimal_one_version_one_file"), dst)
        o = Obj(dst)
        st = jget(o.headblock(), "state")
        st[0] = (st[0][0], paths)
        o.save()
        out.append(("regression/95fb10c-%s empty logical path %r" % (tag, paths), dst, (INVALID, INVALID)))
    # b116ae5 - an empty id recorded no error (and panicked later)
    dst = os.path.join(base, "empty-id")
    shutil.copytree(os.path.join(off, "minimal_one_version_one_file"), dst)
    o = Obj(dst)
    jset(o.t, "id", "")
    o.save()
    out.append(("regression/b116ae5 empty id", dst, (INVALID, INVALID)))
    # 88a7bdc - head names the right number with another zero padding than the version names (E040)
    dst = os.path.join(base, "head-padding")
    shutil.copytree(os.path.join(vallib.FIX, "official-1.0", "warn", "W001_zero_padded_versions"), dst)
    o = Obj(dst)
    old = o.head
    jset(o.t, "head", "v%d" % int(old[1:]))
    vallib.write_inventory(dst, PLAIN.bytes(o.t), alg=o.alg, head=old)
    out.append(("regression/88a7bdc head v3 with version names v001..v003", dst, (INVALID, INVALID)))
    # shape of seeded change C07-1 (E103 bound that never drops): spec versions v1..v3, root = 1.1, 1.0, 1.1, 1.1
    dst = os.path.join(base, "e103-down-up")
    shutil.copytree(os.path.join(off, "updates_three_versions_one_file"), dst)
    os.remove(os.path.join(dst, "0=ocfl_object_1.0"))
    rewrite(os.path.join(dst, "0=ocfl_object_1.1"), b"ocfl_object_1.1\n")
    o = Obj(dst)
    o.edit_all(lambda t: jset(t, "type", TYPE_URI["1.1"]))
    t = vinv_load(o, "v2")
    jset(t, "type", TYPE_URI["1.0"])
    vinv_save(o, "v2", t)
    out.append(("shape/E103 spec versions 1.1, 1.0, 1.1 (v1, v2, v3 = root)", dst, (INVALID, INVALID)))
    # and the monotone neighbour, which must pass: 1.0, 1.0, 1.1
    dst = os.path.join(base, "e103-monotone")
    shutil.copytree(os.path.join(off, "updates_three_versions_one_file"), dst)
    os.remove(os.path.join(dst, "0=ocfl_object_1.0"))
    rewrite(os.path.join(dst, "0=ocfl_object_1.1"), b"ocfl_object_1.1\n")
    o = Obj(dst)
    jset(o.t, "type", TYPE_URI["1.1"])
    o.save()
    out.append(("shape/E103 spec versions 1.0, 1.0, 1.1 (v1, v2, v3 = root)", dst, (VALID, VALID)))
    return out


def p_job(args):
    root, = args
    return vallib.p_verdict(root, True), vallib.p_verdict(root, False)


def files_inline(root, limit=40000):
    """the object for a replay file: small files inline (text), the rest as size + sha256"""
    out = {}
    for d, dirs, fs in os.walk(root):
        if not dirs and not fs:
            out[os.path.relpath(d, root) + "/"] = None
        for f in fs:
            p = os.path.join(d, f)
            rel = os.path.relpath(p, root)
            data = open(p, "rb").read()
            if len(data) <= limit and (f.startswith("inventory.json") or f.startswith("0=") or len(data) <= 200):
                out[rel] = data.decode("utf-8", "backslashreplace")
            else:
                out[rel] = {"size": len(data), "sha256": hashlib.sha256(data).hexdigest()}
    return out


def run(ctx):
    proof = common.proof_stage(ctx)
    rocfl = common.build_rocfl_release()
    ok, log = common.coq_make(["theories/Corr/CheckValidate.vo"])
    if not ok:
        raise common.BuildError("Corr/CheckValidate.v does not build:\n" + log[-3000:])
    rng = ctx.rng
    quick = ctx.quick()

    # ---- corpus
    corpus = []        # dict(name, repo, rel, kind, source, exp=(fix, nofix))
    fixtures = fixture_bases(ctx)
    for name, path, exp in fixtures:
        corpus.append(dict(name=name, path=path, kind="fixture", source=name.split("/")[0], exp=(exp, exp) if "E092_" not in name and "E093_" not in name else (exp, None)))
    written = history_objects(ctx, 6 if quick else 60, 24 if quick else 45)
    for name, path, exp in written:
        corpus.append(dict(name=name, path=path, kind="written", source="written", exp=(exp, exp)))

    regress = regression_objects(ctx)
    for name, path, exp in regress:
        corpus.append(dict(name=name, path=path, kind="regression", source="regression", exp=exp))

    bases = [(n, p) for n, p, e in fixtures if e == VALID] + [(n, p) for n, p, e in written]
    per_edit = 4 if quick else 60
    mdir = os.path.join(ctx.tmp, "mut")
    os.makedirs(mdir)
    edit_counts = collections.Counter()
    k = 0
    for ename, f in EDITS.items():
        order = list(bases)
        rng.shuffle(order)
        made = 0
        # thorough: at least one object per variant of the edit's list; quick: a sample starting at a random variant
        want = per_edit if quick else max(per_edit, VARIANTS.get(ename, 0))
        offset = rng.randrange(1000) if quick else 0
        for bname, bpath in order:
            if made >= want:
                break
            k += 1
            dst = os.path.join(mdir, "m%05d" % k)
            link_tree(bpath, dst)
            try:
                o = Obj(dst)
                o.k = offset + made
                exp = f(o, rng)
            except (KeyError, IndexError, TypeError, AttributeError, ValueError, OSError) as ex:
                exp = None
            if exp is None:
                shutil.rmtree(dst, ignore_errors=True)
                continue
            made += 1
            kind = ename
            edit_counts[ename] += 1
            corpus.append(dict(name="%s <- %s" % (kind, bname), path=dst, kind=kind, source="edit", exp=exp))
    common.log("C07: corpus of %d objects (%d fixtures, %d written, %d edits)" % (len(corpus), len(fixtures), len(written), sum(edit_counts.values())))

    # ---- the three verdicts
    paths = [c["path"] for c in corpus]
    with concurrent.futures.ProcessPoolExecutor(max_workers=common.NPROC) as ex:
        p_fut = ex.map(p_job, [(p,) for p in paths], chunksize=8)
        R1 = vallib.r_verdicts(rocfl, [(os.path.dirname(p), os.path.basename(p), True) for p in paths])
        R2 = vallib.r_verdicts(rocfl, [(os.path.dirname(p), os.path.basename(p), False) for p in paths])
        G = vallib.g_verdicts("c07", paths)
        P = list(p_fut)

    matrix = collections.Counter()
    by_kind = collections.defaultdict(collections.Counter)
    for c, r1, r2, g, (p1, p2) in zip(corpus, R1, R2, G, P):
        for mode, r, gc, pc, exp in (("fixity", r1, g["fix"], p1, c["exp"][0]), ("nofixity", r2, g["nofix"], p2, c["exp"][1])):
            rv = None if r["kind"] in ("panic", "timeout", "error") else (r["kind"] == "invalid")
            gv, pv = bool(gc), bool(pc)
            cell = "R=%s G=%s P=%s" % ({None: r["kind"], True: "invalid", False: "valid"}[rv], "invalid" if gv else "valid", "invalid" if pv else "valid")
            matrix[mode + " " + cell] += 1
            by_kind[c["kind"].split(":")[0]][cell] += 1
            ctx.count((c["kind"], mode, cell, tuple(sorted(set(gc)))), nontrivial=True,
                      sample={"object": c["name"], "mode": mode, "rocfl": r.get("codes", r["kind"]), "gallina": gc, "python": pc})
            detail = lambda: {"object": c["name"], "mode": mode, "expected_by_construction": {True: "invalid", False: "valid", None: None}[exp],
                              "rocfl": r, "gallina_codes": gc, "python_codes": pc, "files": files_inline(c["path"])}
            if gv != pv:
                common.corr_break(ctx, "the two independent validators disagree (Model/Validate.v vs vplib/ocflv.py)", detail())
                continue
            if exp is not None and gv != exp:
                common.corr_break(ctx, "both independent validators contradict the verdict the generator constructed", detail())
                continue
            if rv is None or rv != gv:
                d = detail()
                d["expected"] = "rocfl validate must report %s: the independent validators agree (%s)" % (
                    "errors" if gv else "no error", "a MUST of the specification is broken" if gv else "the object is valid")
                ctx.violation("impl-violation", d)

    ctx.coverage["corpus"] = {"fixtures": len(fixtures), "written_by_rocfl": len(written), "regression": len(regress), "edits": sum(edit_counts.values()),
                              "objects": len(corpus), "verdict_pairs": 2 * len(corpus)}
    ctx.coverage["edit_kinds"] = dict(edit_counts)
    ctx.coverage["verdict_matrix"] = dict(matrix)
    ctx.coverage["matrix_by_kind"] = {k_: dict(v) for k_, v in by_kind.items()}
    ctx.coverage["traces_validated_against_impl"] = 2 * len(corpus)
    ctx.coverage["respelled_must_pass"] = {k_: dict(v) for k_, v in by_kind.items() if k_.startswith(("escape-", "spell-", "nonascii-"))}
    ctx.assumptions.append("object-level rules (directory structure, sidecars, cross-inventory consistency, fixity) of Model/Validate.v are tied to the specification by the fixture corpus and the second independent validator, not by a Coq theorem; digests enter the model as computed by Python hashlib")
    ctx.assumptions.append("rocfl's verdict is the exit status of the release CLI `rocfl validate -p` (2 = invalid) built from the current tree")
    return common.finish_with_proof(ctx, proof,
        rule="corpus = official + custom fixtures, objects committed by rocfl through generated histories, one spec-relevant edit each "
             "(inventory re-serialised with regenerated sidecar and head copy, or directory structure), respellings; each object validated "
             "with and without fixity by rocfl, the Gallina validator and ocflv.py; distinct = distinct (edit kind, mode, verdict triple, Gallina codes)")
