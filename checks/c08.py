"""C08 - staged changes and other objects never touch committed data.

proof:          Props/C08.v (frame over object ids, staging never changes the committed inventory,
                reads ignore staging, reset-all leaves no trace, purge removes exactly the object)
correspondence: per-step refinement of the histories (Corr/CheckStage.v)
search:         byte snapshots of the storage root (minus staging) and of every object's staged
                directory before/after EVERY step; full read API before/after each staging step;
                exact expected trees after reset-all and purge
"""
import os

from vplib import common, hist, histcheck, histrun

STAGING_OPS = ("new", "cp_ext", "mv_ext", "cp_int", "mv_int", "rm", "reset", "reset_all")


def subtree(snap, rel):
    return {k: v for k, v in snap.items() if hist.under(k, rel)}


def prune_expected(pre, rel):
    """pre snapshot minus the subtree at rel minus the ancestor directories this leaves empty"""
    out = {k: v for k, v in pre.items() if not hist.under(k, rel)}
    cur = os.path.dirname(rel)
    while cur not in ("", "."):
        if any(k != cur and hist.under(k, cur) for k in out):
            break
        out.pop(cur, None)
        cur = os.path.dirname(cur)
    return out


def hook(run, st):
    msgs = []
    op, o = st.op, st.op["op"]
    oid = op.get("id")
    # 1. staging operations never change a byte of the main repository
    if o in STAGING_OPS:
        d = hist.snap_diff(st.pre_main_snap, st.post_main_snap)
        if d:
            msgs.append("staging operation %s changed the main repository: %r" % (o, d[:3]))
        # 2. reads of committed data answer identically whether or not changes are staged
        prev = getattr(run, "_last_probe", None)
        if prev is not None and st.committed_probe is not None and prev != st.committed_probe:
            diff_objs = [k for k in set(prev) | set(st.committed_probe) if prev.get(k) != st.committed_probe.get(k)]
            msgs.append("read API answers changed across staging operation %s for %r" % (o, diff_objs[:3]))
    run._last_probe = st.committed_probe
    # 3. an operation on one object never alters the stored or staged form of any other object
    if oid is not None:
        for other in run.ids:
            if other == oid:
                continue
            rel = histrun.staged_rel(other)
            if subtree(st.pre_stg_snap, rel) != subtree(st.post_stg_snap, rel):
                msgs.append("%s on %s changed the staged form of %s" % (o, oid, other))
            if other in st.pre["main"]:
                orel = os.path.relpath(st.pre["main"][other][0], run.r.root)
                if subtree(st.pre_main_snap, orel) != subtree(st.post_main_snap, orel):
                    msgs.append("%s on %s changed the stored form of %s" % (o, oid, other))
    # 4. reset-all leaves no trace of the staged version
    if o == "reset_all" and st.rc == "ok":
        rel = histrun.staged_rel(oid)
        exp = prune_expected(st.pre_stg_snap, rel) if any(hist.under(k, rel) for k in st.pre_stg_snap) else st.pre_stg_snap
        got = {k: v for k, v in st.post_stg_snap.items() if not hist.under(k, "extensions/rocfl-locks")}
        exp = {k: v for k, v in exp.items() if not hist.under(k, "extensions/rocfl-locks")}
        if got != exp:
            msgs.append("reset-all: staging tree differs from the tree without the object's staged version: %r" % (hist.snap_diff(exp, got)[:4],))
    # 5. purge removes exactly the named object and its staged changes, and the directories this leaves empty;
    #    a purge / reset-all that is refused, or names an object that does not exist, changes nothing
    if o in ("purge", "reset_all") and (st.rc != "ok" or (oid not in st.pre["main"] and st.pre["staged"].get(oid) is None)):
        if st.post_main_snap != st.pre_main_snap:
            msgs.append("%s of %r (%s; no such object) changed the main repository: %r" % (o, oid, st.rc, hist.snap_diff(st.pre_main_snap, st.post_main_snap)[:4]))
        a = {k: v for k, v in st.pre_stg_snap.items() if not hist.under(k, "extensions/rocfl-locks")}
        b = {k: v for k, v in st.post_stg_snap.items() if not hist.under(k, "extensions/rocfl-locks")}
        if a != b:
            msgs.append("%s of %r (%s; no such object) changed the staging area: %r" % (o, oid, st.rc, hist.snap_diff(a, b)[:4]))
    if o == "purge" and st.rc == "ok":
        exp_main = st.pre_main_snap
        if oid in st.pre["main"]:
            orel = os.path.relpath(st.pre["main"][oid][0], run.r.root)
            exp_main = prune_expected(st.pre_main_snap, orel)
        if st.post_main_snap != exp_main:
            msgs.append("purge: main repository differs from (tree minus the object minus emptied directories): %r" % (hist.snap_diff(exp_main, st.post_main_snap)[:4],))
        rel = histrun.staged_rel(oid)
        exp = prune_expected(st.pre_stg_snap, rel) if any(hist.under(k, rel) for k in st.pre_stg_snap) else st.pre_stg_snap
        got = {k: v for k, v in st.post_stg_snap.items() if not hist.under(k, "extensions/rocfl-locks")}
        exp = {k: v for k, v in exp.items() if not hist.under(k, "extensions/rocfl-locks")}
        if got != exp:
            msgs.append("purge: staging tree differs from the tree without the object's staged version: %r" % (hist.snap_diff(exp, got)[:4],))
    if st.rc == "panic":
        msgs.append("operation panicked")
    st.findings["C08"] = msgs


def run(ctx):
    proof = common.proof_stage(ctx)
    n, length = (14, 45) if ctx.quick() else (150, 60)
    scripted = []
    for lay in ("0002", "0006", "0007", "0004"):
        for ext in (False, True):
            cfg = {"layout": lay, "repo_spec": "1.1", "obj_spec": "1.1", "alg": "sha512", "cdir": "content", "pad": 0,
                   "ext_staging": ext, "fresh_handle": False}
            scripted.append((cfg, hist.purge_scenario(cfg)))
    for lay in ("0004", "0002"):
        cfg = {"layout": lay, "repo_spec": "1.1", "obj_spec": "1.1", "alg": "sha512", "cdir": "content", "pad": 0,
               "ext_staging": True, "fresh_handle": True}
        scripted.append((cfg, hist.mv_guard_scenario(cfg)))
    # new objects committed at roots inside / equal to another object's root, beside the storage root, with dot
    # segments: the other object's committed data must not change whatever the answer is
    scripted += hist.hostile_root_scenarios()
    return histcheck.run_history_check(
        ctx, proof, hook, n, length, scripted=scripted,
        rule="8 scripted histories (purge / reset-all of every never-existing id related to committed objects under layouts 0002/0006/0007/0004) + adaptive random histories over 3 objects alive at a time, default and external staging, 8 layout variants; snapshots and the full read API (listing, every file, log, diffs, validate) compared around every step; distinct = distinct (operation, arguments, result class)")
