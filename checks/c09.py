"""C09 - the staged view equals the last version plus the staged operations.

proof:          Props/C09.v (staged view = cp/mv/rm/reset specification, readability, no file/dir conflict ...)
correspondence: per-step refinement (Corr/CheckStage.v) incl. the destination rules of external and internal cp/mv
search:         after every staging step: the staged listing equals the staged inventory, every staged path
                is readable and returns the ingested bytes, staged files exist; staged objects stay committable
"""
from vplib import absinv, common, histcheck, histeval


def reset_others_applied(run, st):
    """a reset of literal paths that reports a failure (one of them cannot be restored: its name is a directory
    now, or a part of it is a file) still restores every other named path of the previous version (fix 9f7da71)"""
    op = st.op
    if op["op"] != "reset" or st.rc == "ok" or st.rc == "panic" or op.get("recursive"):
        return []
    oid = op["id"]
    pre, post = st.pre["staged"].get(oid), st.post["staged"].get(oid)
    main = st.pre["main"].get(oid)
    if not pre or not post or not main or any(ch in p for p in op["paths"] for ch in "*?[]{}"):
        return []
    prev = absinv.head_state_map(main[1])
    now = absinv.head_state_map(post)
    msgs = []
    for p in op["paths"]:
        p = p.strip("/")
        if p not in prev:
            continue
        blocked = any(q.startswith(p + "/") for q in now) or any(p.startswith(q + "/") for q in now)
        if not blocked and now.get(p) != prev[p]:
            msgs.append("reset reported a failure and did not restore %r although nothing blocks it (staged: %r, previous version: %r)"
                        % (p, now.get(p), prev[p]))
    return msgs


def hook(run, st):
    msgs = histeval.c09_staged_oracle(run, st)
    msgs += reset_others_applied(run, st)
    if st.rc == "panic":
        msgs.append("operation panicked: %r" % (st.res.get("panic"),))
    if getattr(st, "final", False) and st.rc != "ok":
        e = st.res.get("err", {})
        if "No staged changes" not in e.get("msg", ""):
            msgs.append("staged object is not committable at the end of the history: %s" % (e or st.res,))
    st.findings["C09"] = msgs


def run(ctx):
    proof = common.proof_stage(ctx)
    n, length = (16, 45) if ctx.quick() else (200, 60)
    ctx.assumptions.append("globset syntax beyond literal / * / ? is not generated; hash-order dependent steps are accepted when some order reproduces the observation (counted as outcome 2)")
    return histcheck.run_history_check(
        ctx, proof, hook, n, length, final_commit=True,
        rule="adaptive random histories biased to staging operations (external/internal cp/mv of files, directories, globs; rm; reset) over existing and new paths; distinct = distinct (operation, arguments, result class)")
