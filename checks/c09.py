"""C09 - the staged view equals the last version plus the staged operations.

proof:          Props/C09.v (staged view = cp/mv/rm/reset specification, readability, no file/dir conflict ...)
correspondence: per-step refinement (Corr/CheckStage.v) incl. the destination rules of external and internal cp/mv
search:         after every staging step: the staged listing equals the staged inventory, every staged path
                is readable and returns the ingested bytes, staged files exist; staged objects stay committable
"""
from vplib import common, histcheck, histeval


def hook(run, st):
    msgs = histeval.c09_staged_oracle(run, st)
    if st.rc == "panic":
        msgs.append("operation panicked: %r" % (st.res.get("panic"),))
    if getattr(st, "final", False) and st.rc != "ok":
        e = st.res.get("err", {})
        if "No staged changes" not in e.get("msg", ""):
            msgs.append("staged object is not committable at the end of the history: %s" % (e or st.res,))
    st.findings["C09"] = msgs


def run(ctx):
    proof = common.proof_stage(ctx)
    n, length = (16, 45) if ctx.quick() else (200, 60)
    ctx.assumptions.append("globset syntax beyond literal / * / ? is not generated; hash-order dependent steps are accepted when some order reproduces the observation (counted as outcome 2)")
    return histcheck.run_history_check(
        ctx, proof, hook, n, length, final_commit=True,
        rule="adaptive random histories biased to staging operations (external/internal cp/mv of files, directories, globs; rm; reset) over existing and new paths; distinct = distinct (operation, arguments, result class)")
