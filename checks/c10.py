"""C10 - whatever rocfl accepts and writes to an inventory it can read back unchanged.

Stage 1 (proof): Props/C10.v (serde_json's string escaping, an RFC 8259 decoder, the
  borrowed/owned distinction, rocfl's reader position by position, the accepted inputs).
Stage 2 (correspondence): generated strings are placed in every user-controlled string
  position (object id, logical path through the destination and through the source file
  name, content directory, user name, address, message) through the real create_object /
  copy_files_external / commit.  The inventory.json files written under the staging root
  and the storage root are re-read with Python's json module and tokenised; Coq compares
  the raw token with serde_escape, the accepted/rejected and readable/unreadable outcome
  with the model, and decode_string with serde_json's own reader (vh lpath) and Python's
  on arbitrary tokens.
  A second part respells one string of a committed inventory the way other software may
  (backslash-u escapes, escaped slash) at every string position and compares get_object /
  validate with the model's current readers (main_read_pos, val_read_pos).
Stage 3 (direct search): model-free oracle - an accepted operation after which open / list /
  cat / reset <path> / commit / get_object fails, a string read back that differs from the
  string given, a string a conforming parser does not read back, or rocfl validate rejecting
  what rocfl wrote is a violation.  No known-finding class is left for C10 (all five were
  repaired in /repo): every such failure is reported.
"""
import concurrent.futures
import json
import os
import subprocess
import unicodedata

from vplib import common, hist
from vplib.common import coq_str, coq_bool, coq_opt

POSITIONS = ["id", "lpath_dst", "lpath_src", "cdir", "name", "address", "message"]

# Every former known-finding class of C10 was repaired in /repo; their inputs are still generated and MUST pass:
#   cdir-empty, cdir-collides-with-inventory (d88c1da, repo.rs:581-590): blank, inventory.json, inventory.json.<anything>
#     and the neighbouring names as content directory;
#   id-trimmed (031a721, repo.rs:551-557): ids with outer white space work in every later command under the string given;
#   json-escape-borrowed (bb69bb9, serde.rs:412,454): file names with quotes, backslashes, control characters go through
#     cp, ls -S, cat -S, reset <path>, commit, get_object, cat;
#   validator-json-escape (2f36fc5, validate/serde.rs): rocfl validate reports no error for ids, content directories,
#     addresses, content and logical paths that need a JSON escape.
# The only residual difference between the main reader and a conforming decoder is an escaped spelling of head / a version
# key, which rocfl never writes (Json.escaped_version_name_token, a hypothesis of the foreign-spelling theorems, not a
# known class); it is exercised by the foreign-spelling part.
PAYLOAD = b"hello C10"


def glob_escape(path):
    """the glob that matches exactly this logical path (reset takes globs; backslash_escape is on, inventory.rs:748-752)"""
    return "".join("\\" + ch if ch in "\\*?[]{}" else ch for ch in path)


# --------------------------------------------------------------------------- generators

def gen_strings(ctx):
    """labelled strings (valid Unicode, no lone surrogates): the hostile pool + random compositions"""
    rng = ctx.rng
    pool = []

    def add(label, s):
        pool.append((label, s))

    for c in range(0x00, 0x20):
        add("ctl", "a%sb" % chr(c))
    for c in (0x00, 0x08, 0x09, 0x0A, 0x0C, 0x0D, 0x1F, 0x01):
        add("ctl-bare", chr(c))
        add("ctl-end", "x" + chr(c))
    add("del", "a\x7fb")
    add("del-bare", "\x7f")
    for q in ['"', "\\", 'a"b.txt', "a\\b.txt", '""', "\\\\", '\\"', '"\\', "\\u0041", "\\n", "a\\", '"a', "a'b", "a`b"]:
        add("quote-bs", q)
    for s in ["a\U0001F600b", "\U0001F600", "\U0010FFFF", "\U0001D4B3.txt", "\U00010000", "\u00e9", "e\u0301",
              unicodedata.normalize("NFC", "\u00c5str\u00f6m"), unicodedata.normalize("NFD", "\u00c5str\u00f6m"),
              "\ufeffx", "\u200bx", "\u65e5\u672c\u8a9e.txt", "\u07ff\u0800\uffff", "\u0080", "\u00df"]:
        add("unicode", s)
    for s in [" a", "a ", " a ", "  ", " ", "\ta", "a\t", "a\n", "\na", "\r\na\r\n", "\x0ba\x0c", "\u00a0a", "a\u00a0", "\u2003a", "a\u3000",
              "\u0085a", "a\u2028", "\u2029a", "\u1680a\u1680", "\u202fa", "\u205fa", "a\u200a", "\u2000a", "\u00a0", "\u3000\u3000",
              " a\"b ", "\u200ba", "a\u180e", "\u2060a"]:
        add("space", s)
    # blank after trimming (refused as an object id, repo.rs:553) next to strings that only look blank
    # (U+200B, U+FEFF, U+2060, U+180E and 0x1C-0x1F are not White_Space: accepted)
    for s in ["\t", "\n", "\r\n", "\x0b", "\x0c", " \t\n ", "\u0085", "\u1680", "\u2000\u200a", "\u2028", "\u2029", "\u202f\u205f",
              " \u00a0\u3000\t", "\u200b", "\ufeff", "\u2060", "\u180e", "\x1c", "\x1d", "\x1e", " \u200b ", "\u00a0\u200b",
              "  urn:example:x  ", "\u3000ab\u3000", "\nab", "ab\r\n", "\u00a0 ab \u00a0", "a b", " a  b "]:
        add("blank-id", s)
    for s in ["%", "a%20b", "%2F", "%00", "100%", "a%b%c"]:
        add("percent", s)
    for s in ["", ".", "..", "...", "/", "//", "a/b", "a//b", "/a", "a/", "a/./b", "a/../b", "./a", "a/.", "a/b/", "/a/b/", ".a", "a.",
              "..a", "a/..", "a/b/c/d/e"]:
        add("path", s)
    for s in ["inventory.json", "inventory.json.sha512", "inventory.json.sha256", "inventory.json.md5", "content", "v1", "v2",
              "extensions", "extensions/0005-mutable-head", "0=ocfl_object_1.1", "logs", "CON", "null", "true", "0", "-"]:
        add("reserved", s)
    # the guard of create_object (repo.rs:581-590) and its neighbours: refused are "", inventory.json and every
    # name beginning with "inventory.json."; everything else here is an ordinary directory name
    for s in ["inventory.json.", "inventory.json.x", "inventory.json.sha512x", "inventory.json.SHA512", "inventory.json.blake2b-512",
              "inventory.json. ", "inventory.json.\u00e9", "inventory.json.a\"b", "inventory.json..", "inventory.jso", "inventory.jsonx",
              "inventory.json ", " inventory.json", "Inventory.json", "INVENTORY.JSON", "inventory_json", "inventory.json\n",
              "xinventory.json", "inventory", ".inventory.json", "inventory.json\u200b", "sha512", "inventory.json.sha512.bak"]:
        add("cdir-guard", s)
    for s in ["x" * 255, "x" * 256, "\u00e9" * 127 + "x", "\u00e9" * 128, "x" * 254 + '"', "y" * 300, "x" * 5000, "\x01" * 5000,
              '"' * 2500, "\u00e9" * 2500, "a b" * 1700, "\\" * 5000, "\U0001F600" * 1250, ("x" * 200 + "/") * 4 + "f", ("x" * 250 + "/") * 20 + "f"]:
        add("long", s)
    for s in ["plain.txt", "file1", "Some File.TXT", "a-b_c.d", "mailto:me@example.org", "https://example.org/x?y=1&z=2",
              "urn:uuid:123e4567-e89b-12d3-a456-426614174000", "Peter Winckles", "initial commit", "A", "z"]:
        add("ascii", s)

    alphabet = (list("abcXYZ019 ._-%/") * 2 + ['"', "\\", "\n", "\t", "\x00", "\x01", "\x1f", "\x7f", "\u00e9", "e\u0301", "\U0001F600",
                                                  " ", "\u00a0", "\u2028", ".", "/", '"', "\\"])
    n_rand = 210 if ctx.quick() else 6000
    for _ in range(n_rand):
        k = rng.choice([1, 2, 2, 3, 4, 6, 9, 14])
        add("random", "".join(rng.choice(alphabet) for _ in range(k)))
    # all two-character combinations of the special set (thorough) / a sample (quick)
    special = ['"', "\\", "\n", "\x00", "\x1f", " ", "/", ".", "\x7f", "\U0001F600", "a"]
    pairs = [a + c for a in special for c in special]
    if ctx.quick():
        pairs = rng.sample(pairs, 25)
    for p in pairs:
        add("pair", p)
    seen, out = set(), []
    for lab, s in pool:
        if s not in seen:
            seen.add(s)
            out.append((lab, s))
    return out


def valid_file_name(s):
    b_ = s.encode("utf-8")
    return s not in ("", ".", "..") and "/" not in s and "\x00" not in s and len(b_) <= 255


def gen_cases(ctx, strings):
    rng = ctx.rng
    cases = []
    for lab, s in strings:
        for pos in POSITIONS:
            if pos == "lpath_src" and not valid_file_name(s):
                continue
            if pos == "lpath_dst" and len(s.encode("utf-8")) > 3000 and all(len(x.encode("utf-8")) <= 255 for x in s.split("/")):
                # every name fits but the whole path exceeds PATH_MAX: a limit of the scratch location, not of rocfl
                continue
            cases.append({"pos": pos, "s": s, "label": lab})
    # exhaustive single-byte strings in the logical path position
    for c in range(0x01, 0x80):
        s = chr(c)
        cases.append({"pos": "lpath_dst", "s": s, "label": "byte"})
        if valid_file_name(s):
            cases.append({"pos": "lpath_src", "s": s, "label": "byte"})
    # address without a name (CommitMeta::with_user)
    cases.append({"pos": "address", "s": "mailto:x@example.org", "label": "no-name", "no_name": True})
    cases.append({"pos": "address", "s": 'a"b', "label": "no-name", "no_name": True})
    for i, c in enumerate(cases):
        c["idx"] = i
        c["alg"] = rng.choice(["sha512", "sha512", "sha256"])
        c["pad"] = rng.choice([0, 0, 0, 3])
        c["fresh"] = rng.random() < 0.25
        c["pretty"] = rng.random() < 0.3
        c["repo_spec"] = rng.choice(["1.1", "1.1", "1.0"])
    return cases


# --------------------------------------------------------------------------- raw JSON tokens

def raw_string_tokens(data):
    """all string tokens (with their quotes) of a JSON text, in document order; model-free scanner"""
    out, i, n = [], 0, len(data)
    while i < n:
        if data[i] == 0x22:
            j = i + 1
            while j < n and data[j] != 0x22:
                j += 2 if data[j] == 0x5C else 1
            out.append(data[i:j + 1])
            i = j + 1
        else:
            i += 1
    return out


def find_token(tokens, s):
    """the raw token a conforming parser decodes to s (None when there is none)"""
    for t in tokens:
        try:
            if json.loads(t) == s:
                return t
        except ValueError:
            pass
    return None


def load_inventory(root):
    p = os.path.join(root, "inventory.json")
    try:
        data = open(p, "rb").read()
    except OSError:
        return None, None, []
    try:
        inv = json.loads(data)
    except ValueError:
        inv = None
    return data, inv, raw_string_tokens(data)


def head_state_paths(inv):
    try:
        st = inv["versions"][inv["head"]]["state"]
        return sorted(p for ps in st.values() for p in ps)
    except (KeyError, TypeError):
        return None


def manifest_paths(inv):
    try:
        return sorted(p for ps in inv["manifest"].values() for p in ps)
    except (KeyError, TypeError):
        return None


# --------------------------------------------------------------------------- running one case

def ok(r):
    return "ok" in r


def run_case(ctx, sess, case):
    """drive the real library; returns the observation dict of the case"""
    pos, s, idx = case["pos"], case["s"], case["idx"]
    cfg = {"layout": "0004", "repo_spec": case["repo_spec"], "obj_spec": case["repo_spec"], "alg": case["alg"],
           "cdir": "content", "pad": case["pad"], "fresh_handle": case["fresh"]}
    h = "H%d" % idx
    r = hist.Runner(ctx, cfg, "c%d" % idx, session=sess, handle=h)
    o = {"steps": []}
    try:
        oid = s if pos == "id" else "urn:example:obj-%d" % idx
        cdir = s if pos == "cdir" else "content"
        dst, srcname = "d/f.txt", "src.txt"
        if pos == "lpath_dst":
            dst = "d/" + s
        elif pos == "lpath_src":
            dst, srcname = "d/", s
        name = s if pos == "name" else "Some One"
        addr = s if pos == "address" else "mailto:someone@example.org"
        msg = s if pos == "message" else "a message"
        if case.get("no_name"):
            name = None
        o.update(oid=oid, cdir=cdir, dst=dst, srcname=srcname, name=name, addr=addr, msg=msg)

        def step(op):
            cmd, res = r.step(op)
            o["steps"].append((op["op"], hist.res_class(res)))
            return res

        def call(cmd, **kw):
            res = sess.call(cmd, h=h, **kw)
            o["steps"].append((cmd, hist.res_class(res)))
            return res

        res = step({"op": "new", "id": oid, "cdir": cdir})
        o["new_ok"] = ok(res)
        if not o["new_ok"]:
            o["nothing_staged"] = not hist.find_object_roots(r.staging_root)
            return o
        roots = hist.find_object_roots(r.staging_root)
        o["staged0"] = load_inventory(roots[0]) if len(roots) == 1 else (None, None, [])
        res = step({"op": "cp_ext", "id": oid, "files": [[srcname, PAYLOAD]], "dst": dst})
        o["cp_ok"] = ok(res)
        roots = hist.find_object_roots(r.staging_root)
        o["staged1"] = load_inventory(roots[0]) if len(roots) == 1 else (None, None, [])
        res = call("get_staged_object", id=oid)
        o["gso"] = res
        res = call("list_staged")
        o["list_staged_ok"] = ok(res) and all(ok(e) for e in res["ok"])
        exp = expected_lpath(dst, srcname)
        o["exp"] = exp
        if o["cp_ok"]:
            # cat -S, reset <path> (the glob matching exactly this path), ls -S again, cp again
            o["cat_staged"] = call("cat_staged", id=oid, path=exp)
            if pos in ("lpath_dst", "lpath_src"):
                o["reset_path"] = step({"op": "reset", "id": oid, "paths": [glob_escape(exp)], "recursive": False})
                o["gso_after_reset"] = call("get_staged_object", id=oid)
                o["cp2"] = step({"op": "cp_ext", "id": oid, "files": [[srcname, PAYLOAD]], "dst": dst})
                o["gso2"] = call("get_staged_object", id=oid)
        res = step({"op": "commit", "id": oid, "name": name, "address": addr, "message": msg, "pretty": case["pretty"]})
        o["commit_ok"] = ok(res)
        o["commit_res"] = hist.res_class(res)
        if not o["commit_ok"]:
            # recovery: reset of the path, then reset_all
            o["gso_after_failed_commit"] = ok(call("get_staged_object", id=oid))
            o["reset_path_ok"] = ok(step({"op": "reset", "id": oid, "paths": ["*"], "recursive": True}))
            o["reset_all_ok"] = ok(step({"op": "reset_all", "id": oid}))
            o["gone_after_reset_all"] = hist.res_class(call("get_staged_object", id=oid)) == "err:NotFound"
            return o
        roots = r.object_roots()
        o["committed"] = load_inventory(roots[0]) if len(roots) == 1 else (None, None, [])
        o["get_object"] = call("get_object", id=oid, version=None)
        o["versions"] = call("versions", id=oid)
        res = call("list_objects")
        o["list_ok"] = ok(res) and all(ok(e) for e in res["ok"]) and len(res["ok"]) == 1
        if pos == "id":
            # a listing filtered by the glob that spells exactly this id, and one by `*` (both go through the
            # id pre-filter on the raw inventory text): the object is listed under the same string
            for gname, g in (("exact", glob_escape(oid)), ("star", "*")):
                res = call("list_objects", glob=g)
                o["list_glob_" + gname] = ok(res) and len(res["ok"]) == 1 and ok(res["ok"][0]) \
                    and res["ok"][0]["ok"].get("id") == oid
        o["validate"] = call("validate_object", id=oid)
        if o["cp_ok"]:
            o["cat"] = call("cat", id=oid, version=None, path=exp)
        return o
    finally:
        sess.call("drop", h=h)
        r.sc.cleanup()


def run_cases(ctx, cases):
    nthreads = min(12, common.NPROC)
    chunks = [cases[i::nthreads] for i in range(nthreads)]

    def work(chunk):
        sess = hist.Session()
        out = []
        try:
            for c in chunk:
                out.append((c["idx"], run_case(ctx, sess, c)))
        finally:
            sess.close()
        return out

    obs = {}
    with concurrent.futures.ThreadPoolExecutor(max_workers=nthreads) as ex:
        for part in ex.map(work, chunks):
            for i, o in part:
                obs[i] = o
    return obs


# --------------------------------------------------------------------------- per case: Coq terms and oracle

def vname(pad):
    return "v" + "1".rjust(pad, "0") if pad else "v1"


def expected_lpath(dst, srcname):
    """model-free statement of where cp puts one file: the destination itself, or destination/name
    when the destination is spelled as a directory; leading and trailing slashes do not count"""
    if dst.endswith("/"):
        return (dst + srcname).strip("/")
    return dst.strip("/")


def val_clean(o):
    v = o.get("validate")
    return bool(v) and ok(v) and not v["ok"]["errors"]


def analyse(case, o):
    """returns (one Coq term `(checks, known flags, token checks)`, oracle messages [(msg, [slugs])], summary key)"""
    pos, s = case["pos"], case["s"]
    pad, alg = case["pad"], case["alg"]
    msgs, toks = [], []
    lits = {}

    def coq_str(x):
        """long literals are bound once per case (parsing a 5 kB literal costs more than evaluating the check)"""
        raw = x.encode("utf-8") if isinstance(x, str) else bytes(x)
        if len(raw) < 48:
            return common.coq_str(raw)
        if raw not in lits:
            lits[raw] = "x%d" % len(lits)
        return lits[raw]

    def pack(chk, kn):
        body = "(%s, %s, ([%s] : list bool))" % (chk, kn, "; ".join(toks))
        if not lits:
            return body
        # a beta-redex, not let-in: coqc needs gigabytes for a chain of lets bound to long list literals
        return "(fun (%s : bytes) => %s) %s" % (" ".join(lits.values()), body, " ".join(common.coq_str(v) for v in lits))
    vn = vname(pad)
    gso = o.get("gso") or {}
    staged_ok = ok(gso) and o.get("list_staged_ok", False)
    commit_ok = o.get("commit_ok", False)
    go = o.get("get_object") or {}
    vers = o.get("versions") or {}
    later_reads_ok = commit_ok and ok(go) and ok(vers) and o.get("list_ok", False)
    vclean = val_clean(o)

    def want_token(inv_t, text, what):
        data, inv, tokens = inv_t
        t = find_token(tokens, text)
        if t is None:
            msgs.append(("%s: no string token of the written inventory.json decodes to the intended string" % what, []))
        else:
            toks.append("check_token %s %s" % (coq_str(text), coq_str(t)))

    def parsed(inv_t, what):
        if inv_t[1] is None:
            msgs.append(("%s inventory.json is not readable by a conforming JSON parser" % what, []))
            return None
        return inv_t[1]

    if not o["new_ok"] and not o.get("nothing_staged", True):
        msgs.append(("create_object refused the input but left a staged object behind", []))

    def bytes_ok(res):
        return bool(res) and ok(res) and res["ok"].get("hex") == PAYLOAD.hex()

    if o.get("cp_ok"):
        # every accepted cp: the staged file can be read, the path can be reset and staged again, the committed file can be read
        exp_p = o["exp"]
        if not bytes_ok(o.get("cat_staged")):
            msgs.append(("cp accepted, cat -S of the staged path fails or returns other bytes", []))
        if "reset_path" in o:
            g = o.get("gso_after_reset") or {}
            if not ok(o["reset_path"]) or not ok(g) or exp_p in g["ok"]["state"]:
                msgs.append(("cp accepted, reset <path> fails or leaves the path staged", []))
            g2 = o.get("gso2") or {}
            if not ok(o.get("cp2") or {}) or not ok(g2) or list(g2["ok"]["state"].keys()) != [exp_p]:
                msgs.append(("cp of the same file after reset <path> fails", []))
        if o.get("commit_ok") and not bytes_ok(o.get("cat")):
            msgs.append(("committed, cat of the logical path fails or returns other bytes", []))

    if pos == "id":
        for gname in ("exact", "star"):
            if o.get("commit_ok") and o.get("list_glob_" + gname) is False:
                msgs.append(("committed, a listing filtered by the glob %s does not return the object under its id"
                             % ("spelling exactly this id" if gname == "exact" else "`*`"), []))
        stored = None
        if o["new_ok"]:
            inv = parsed(o["staged0"], "staged")
            stored = inv.get("id") if inv else None
            if stored is not None:
                want_token(o["staged0"], stored, "id")
            if stored != s:
                msgs.append(("object id written to the inventory differs from the id given", []))
            all_ok = o["cp_ok"] and staged_ok and later_reads_ok
            if not all_ok:
                msgs.append(("create_object accepted the id, a later command with the same id fails", []))
            else:
                if go["ok"]["id"] != s:
                    msgs.append(("get_object returns a different id", []))
                want_token(o["committed"], s, "committed id")
                if not vclean:
                    msgs.append(("rocfl validate rejects the inventory rocfl wrote", []))
            later = all_ok and go["ok"]["id"] == s
        else:
            later = False
        chk = "check_id %s %s %s %s %s" % (coq_str(s), coq_bool(o["new_ok"]), coq_opt(stored, coq_str),
                                          coq_bool(later), coq_bool(vclean))
        kn = "(@nil bool)"
        key = (pos, o["new_ok"], later, vclean)
        return pack(chk, kn), msgs, key

    if pos == "cdir":
        lp = "d/f.txt"
        cp_ok = o.get("cp_ok", False)
        if o["new_ok"]:
            inv = parsed(o["staged0"], "staged")
            if inv is not None:
                if inv.get("contentDirectory") != s:
                    msgs.append(("contentDirectory written differs from the name given", []))
                else:
                    want_token(o["staged0"], s, "contentDirectory")
            exp_cp = "%s/%s/%s" % (vn, s, lp)
            if cp_ok:
                inv1 = parsed(o["staged1"], "staged")
                if inv1 is not None:
                    if manifest_paths(inv1) != [exp_cp]:
                        msgs.append(("manifest of the staged inventory does not hold the expected content path", []))
                    else:
                        want_token(o["staged1"], exp_cp, "content path")
            if not staged_ok:
                msgs.append(("create_object accepted the content directory, the staged object cannot be opened/listed", []))
            if not commit_ok:
                msgs.append(("create_object accepted the content directory, commit fails", []))
            elif not later_reads_ok:
                msgs.append(("committed object cannot be opened/listed", []))
            else:
                if cp_ok:
                    st = go["ok"]["state"]
                    if list(st.keys()) != [lp] or st[lp]["content_path"] != exp_cp:
                        msgs.append(("get_object returns a different state/content path", []))
                    want_token(o["committed"], exp_cp, "committed content path")
                    if not vclean:
                        msgs.append(("rocfl validate rejects the inventory rocfl wrote", []))
            if not commit_ok and not (o.get("reset_all_ok") and o.get("gone_after_reset_all")):
                msgs.append(("reset_all does not recover the object", []))
        chk = "check_cdir %s %s %s %d %s %s %s %s %s" % (coq_str(s), coq_str(alg), coq_str(lp), pad, coq_bool(o["new_ok"]),
                                                      coq_bool(cp_ok), coq_bool(staged_ok), coq_bool(commit_ok), coq_bool(vclean))
        kn = "(@nil bool)"
        key = (pos, o["new_ok"], cp_ok, staged_ok, commit_ok, vclean)
        return pack(chk, kn), msgs, key

    if pos in ("lpath_dst", "lpath_src"):
        dst, srcname = o["dst"], o["srcname"]
        cp_ok = o.get("cp_ok", False)
        stored = None
        if not o["new_ok"]:
            msgs.append(("create_object of a benign object failed", []))
        else:
            inv1 = parsed(o["staged1"], "staged")
            paths = head_state_paths(inv1) if inv1 else None
            if paths:
                stored = paths[0] if len(paths) == 1 else "\x00several"
            if cp_ok:
                exp = expected_lpath(dst, srcname)
                exp_cp = "%s/content/%s" % (vn, exp)
                if paths != [exp]:
                    msgs.append(("logical path written differs from the path given", []))
                else:
                    want_token(o["staged1"], exp, "logical path")
                    if manifest_paths(inv1) == [exp_cp]:
                        want_token(o["staged1"], exp_cp, "content path")
                    else:
                        msgs.append(("manifest of the staged inventory does not hold the expected content path", []))
                if not staged_ok:
                    msgs.append(("cp accepted the path, the staged object cannot be opened/listed", []))
                if not commit_ok:
                    msgs.append(("cp accepted the path, commit fails", []))
                elif not later_reads_ok:
                    msgs.append(("committed object cannot be opened/listed", []))
                else:
                    st = go["ok"]["state"]
                    if list(st.keys()) != [exp] or st[exp]["content_path"] != exp_cp:
                        msgs.append(("get_object returns a different logical/content path", []))
                    want_token(o["committed"], exp, "committed logical path")
                    if not vclean:
                        msgs.append(("rocfl validate rejects the inventory rocfl wrote", []))
            else:
                if paths:
                    msgs.append(("cp failed but a logical path was staged", []))
                if not staged_ok or not commit_ok:
                    msgs.append(("a rejected cp leaves an object that cannot be opened/committed", []))
            if not commit_ok and not (o.get("reset_all_ok") and o.get("gone_after_reset_all")):
                msgs.append(("reset_all does not recover the object", []))
        chk = "check_lpath %s %s %s %d %s %s %s %s %s" % (coq_str(dst), coq_str(srcname), coq_str("content"), pad, coq_bool(cp_ok),
                                                       coq_opt(stored, coq_str), coq_bool(staged_ok), coq_bool(commit_ok), coq_bool(vclean))
        kn = "(@nil bool)"
        key = (pos, cp_ok, staged_ok, commit_ok, vclean)
        return pack(chk, kn), msgs, key

    # commit metadata
    name, addr, msg = o["name"], o["addr"], o["msg"]
    read_ok = False
    if not (o["new_ok"] and o.get("cp_ok") and staged_ok):
        msgs.append(("benign create/cp failed", []))
    elif commit_ok:
        if not later_reads_ok:
            msgs.append(("commit accepted the metadata, the object cannot be opened/listed afterwards", []))
        else:
            d = vers["ok"][-1]
            read_ok = d["name"] == name and d["address"] == addr and d["message"] == msg
            d2 = go["ok"]["details"]
            read_ok = read_ok and d2["name"] == name and d2["address"] == addr and d2["message"] == msg
            if not read_ok:
                msgs.append(("user name / address / message read back differ from the strings given", []))
            inv = parsed(o["committed"], "committed")
            if inv is not None:
                v = inv["versions"][inv["head"]]
                if (v.get("user") or {}).get("name") != name or (v.get("user") or {}).get("address") != addr or v.get("message") != msg:
                    msgs.append(("a conforming parser reads different metadata from the committed inventory", []))
                else:
                    want_token(o["committed"], s, "commit metadata")
            if not vclean:
                msgs.append(("rocfl validate rejects the inventory rocfl wrote", []))
    oc = lambda x: coq_opt(x, coq_str)
    chk = "check_meta %s %s %s %s %s %s" % (oc(name), oc(addr), oc(msg), coq_bool(commit_ok), coq_bool(read_ok), coq_bool(vclean))
    kn = "(@nil bool)"
    key = (pos, commit_ok, read_ok, vclean)
    return pack(chk, kn), msgs, key


# no known-finding class is left for any position (the second component of a case's Coq value stays empty)
KNOWN_FLAGS = {p: [] for p in POSITIONS}


def parse_triple(v):
    """printed value `([b; ..], [b; ..], [b; ..])` -> three lists of bool (None, None, None when malformed)"""
    import re
    groups = re.findall(r"\[([^\]]*)\]", v)
    if len(groups) != 3:
        return None, None, None
    return tuple([x.strip() == "true" for x in g.split(";") if x.strip()] for g in groups)


# --------------------------------------------------------------------------- inventories as other software spells them

def respell(text, how):
    """another legal JSON spelling of the same string"""
    def u(ch):
        cp = ord(ch)
        if cp > 0xFFFF:
            cp -= 0x10000
            return "\\u%04x\\u%04x" % (0xD800 + (cp >> 10), 0xDC00 + (cp & 0x3FF))
        return "\\u%04x" % cp
    if how == "u-first":
        body = u(text[0]) + json.dumps(text[1:])[1:-1]
    elif how == "u-last":
        body = json.dumps(text[:-1])[1:-1] + u(text[-1]).upper().replace("\\U", "\\u")
    elif how == "u-all":
        body = "".join(u(ch) for ch in text)
    elif how == "slash":
        body = json.dumps(text)[1:-1].replace("/", "\\/")
    else:
        raise ValueError(how)
    return ('"' + body + '"').encode("ascii")


def run_foreign(ctx):
    """one committed benign object; for every string position of its inventory and several respellings the root and
    version inventory (+ sidecars) are rewritten with that one token respelled, then read through a fresh handle.
    returns [(coq position, string, token, main_ok, val_ok, steps)]"""
    import hashlib
    oid, lp, name, addr, msg = "urn:example:foreign", "d/f.txt", "Some One", "mailto:someone@example.org", "a message"
    cfg = {"layout": "0004", "repo_spec": "1.1", "obj_spec": "1.1", "alg": "sha512", "cdir": "content", "pad": 0, "fresh_handle": False}
    sess = hist.Session()
    r = hist.Runner(ctx, cfg, "foreign", session=sess, handle="F")
    out = []
    try:
        for op in ({"op": "new", "id": oid}, {"op": "cp_ext", "id": oid, "files": [["src.txt", PAYLOAD]], "dst": lp},
                   {"op": "commit", "id": oid, "name": name, "address": addr, "message": msg, "pretty": False}):
            cmd, res = r.step(op)
            if not ok(res):
                raise common.BuildError("foreign-spelling part: benign %s failed: %r" % (op["op"], res))
        roots = r.object_roots()
        if len(roots) != 1:
            raise common.BuildError("foreign-spelling part: object root not found")
        root = roots[0]
        data = open(os.path.join(root, "inventory.json"), "rb").read()
        inv = json.loads(data)
        digest = list(inv["manifest"].keys())[0]
        created = inv["versions"]["v1"]["created"]
        # (Coq position, context before the token, the string)
        spots = [("PId", '"id":', oid), ("PType", '"type":', inv["type"]), ("PDigestAlg", '"digestAlgorithm":', "sha512"),
                 ("PHead", '"head":', "v1"), ("PContentDir", '"contentDirectory":', "content"),
                 ("PManifestDigest", '"manifest":{', digest), ("PContentPath", '"manifest":{"%s":[' % digest, "v1/content/" + lp),
                 ("PVersionKey", '"versions":{', "v1"), ("PCreated", '"created":', created), ("PMessage", '"message":', msg),
                 ("PUserName", '"name":', name), ("PUserAddress", '"address":', addr),
                 ("PStateDigest", '"state":{', digest), ("PLogicalPath", '"state":{"%s":[' % digest, lp)]
        files = [os.path.join(root, "inventory.json"), os.path.join(root, "v1", "inventory.json")]
        for cpos, before, text in spots:
            hows = ["u-first", "u-last", "u-all"] + (["slash"] if "/" in text else [])
            for how in hows:
                tok = respell(text, how)
                old = before.encode() + json.dumps(text).encode()
                if data.count(old) != 1 or json.loads(tok) != text:
                    raise common.BuildError("foreign-spelling part: cannot place %s in the inventory rocfl wrote" % cpos)
                new = data.replace(old, before.encode() + tok)
                if json.loads(new) != inv:
                    raise common.BuildError("foreign-spelling part: respelled inventory is not the same JSON value")
                side = ("%s  inventory.json\n" % hashlib.sha512(new).hexdigest()).encode()
                for f in files:
                    open(f, "wb").write(new)
                    open(f + ".sha512", "wb").write(side)
                r.reopen()
                steps = []

                def call(cmd, **kw):
                    res = sess.call(cmd, h="F", **kw)
                    steps.append((cmd, hist.res_class(res)))
                    return res
                go = call("get_object", id=oid, version=None)
                vs = call("versions", id=oid)
                ls = call("list_objects")
                ct = call("cat", id=oid, version=None, path=lp)
                va = call("validate_object", id=oid)
                main_ok = (ok(go) and ok(vs) and ok(ls) and all(ok(e) for e in ls["ok"]) and len(ls["ok"]) == 1 and ok(ct)
                           and go["ok"]["id"] == oid and list(go["ok"]["state"].keys()) == [lp]
                           and go["ok"]["state"][lp]["content_path"] == "v1/content/" + lp
                           and vs["ok"][-1]["name"] == name and vs["ok"][-1]["address"] == addr and vs["ok"][-1]["message"] == msg)
                val_ok = ok(va) and not va["ok"]["errors"]
                out.append((cpos, text, tok, main_ok, val_ok, steps, how))
        return out
    finally:
        sess.close()
        r.sc.cleanup()


# --------------------------------------------------------------------------- decoder correspondence

def gen_tokens(ctx):
    """raw JSON string tokens (bytes, valid UTF-8 unless flagged) with every escape kind, legal and illegal"""
    rng = ctx.rng
    frags = [b"a", b"Z", b" ", b"/", b".", b"\x7f", "\u00e9".encode(), "\U0001F600".encode(), "\u2028".encode(),
             b'\\"', b"\\\\", b"\\/", b"\\b", b"\\f", b"\\n", b"\\r", b"\\t",
             b"\\u0041", b"\\u00e9", b"\\u00E9", b"\\u0000", b"\\u001f", b"\\u007f", b"\\u0080", b"\\u07ff", b"\\u0800", b"\\uffff",
             b"\\ud7ff", b"\\ue000", b"\\ud83d\\ude00", b"\\uD83D\\uDE00", b"\\ud800\\udc00", b"\\udbff\\udfff", b"\\u002f", b"\\u005c", b"\\u0022"]
    bad = [b"\\ud83d", b"\\ude00", b"\\ud83d\\u0041", b"\\ud83dx", b"\\ud83d\\n", b"\\ude00\\ud83d", b"\\u12", b"\\u12g4", b"\\uzzzz",
           b"\\x41", b"\\a", b"\\'", b"\\U0041", b"\\ ", b"\\", b"\x01", b"\n", b"\t", b"\x1f", b'"', b"\\u", b"\\ud83d\\ud83d"]
    toks = []
    for f in frags + bad:
        toks.append(b'"' + f + b'"')
        toks.append(b'"x' + f + b'y"')
    toks += [b'""', b'"', b'"abc', b'abc"', b'"a"b"', b'"a\\"', b'"\\\\"', b'"a\\\\\\""', b"'a'"]
    n = 150 if ctx.quick() else 4000
    for _ in range(n):
        k = rng.choice([1, 2, 3, 5, 8])
        parts = [rng.choice(frags) for _ in range(k)]
        if rng.random() < 0.3:
            parts.insert(rng.randrange(len(parts) + 1), rng.choice(bad))
        toks.append(b'"' + b"".join(parts) + b'"')
    # invalid UTF-8 (only comparable with Python: the harness reads lines as UTF-8 text)
    inval = [b'"\xc0\xaf"', b'"\xed\xa0\x80"', b'"\xf4\x90\x80\x80"', b'"\xe2\x82"', b'"\x80"', b'"a\xffb"', b'"\xc3"', b'"\xf0\x9f\x98"',
             b'"\xe0\x9f\xbf"', b'"\xf0\x8f\xbf\xbf"', b'"\xc1\xbf"', b'"\xf5\x80\x80\x80"', b'"\xed\x9f\xbf"', b'"\xee\x80\x80"', b'"\xf4\x8f\xbf\xbf"']
    seen, out = set(), []
    for t in toks:
        if t not in seen:
            seen.add(t)
            out.append((t, True))
    for t in inval:
        out.append((t, False))
    return out


def python_decode(tok):
    """Python's json on one token: ('some', str) | ('none',) | ('skip',) when Python is knowingly more lenient"""
    try:
        v = json.loads(tok)
    except (ValueError, UnicodeDecodeError):
        return ("none",)
    if not isinstance(v, str):
        return ("none",)
    if any(0xD800 <= ord(ch) <= 0xDFFF for ch in v):
        return ("skip",)          # Python keeps lone surrogates, RFC 8259 leaves them open, serde_json refuses
    return ("some", v)


def run_vh_lpath(vh, tokens):
    """serde_json's reader + LogicalPath::try_from on raw tokens; a refused JSON line kills the batch
    process (expect), so the batch is restarted behind it.  returns list of None | ('ok', str) | ('err',)"""
    res = [None] * len(tokens)
    i = 0
    while i < len(tokens):
        inp = b"".join(b'{"s":' + t + b"}\n" for t in tokens[i:])
        p = subprocess.run([vh, "lpath"], input=inp, stdout=subprocess.PIPE, stderr=subprocess.DEVNULL, timeout=600)
        lines = [l for l in p.stdout.decode("utf-8").split("\n") if l.strip(" \r\n")]
        for k, l in enumerate(lines):
            v = json.loads(l)
            res[i + k] = ("ok", v["ok"]) if "ok" in v else ("err",)
        i += len(lines)
        if i < len(tokens):
            if p.returncode == 0:
                raise common.BuildError("vh lpath stopped early without failing")
            res[i] = ("refused",)
            i += 1
    return res


# --------------------------------------------------------------------------- main

def run(ctx):
    import time
    tm, t_last = {}, [time.time()]

    def lap(name):
        now = time.time()
        tm[name] = round(now - t_last[0], 1)
        t_last[0] = now

    proof = common.proof_stage(ctx)
    lap("proof_stage")
    vh = common.build_harness()
    okb, log = common.coq_make(["theories/Corr/CheckJson.vo"])
    if not okb:
        raise common.BuildError("Corr/CheckJson.v does not build:\n" + log[-3000:])
    known_ids = {k["id"] for k in ctx.known}
    imports = ["Base.Bytes", "Model.VersionNum", "Model.Json", "Corr.CheckJson"]

    # ---- decoder correspondence on arbitrary tokens
    tokens = gen_tokens(ctx)
    utf8_toks = [t for t, u in tokens if u and b"\n" not in t and b"\r" not in t]
    vh_res = dict(zip(utf8_toks, run_vh_lpath(vh, utf8_toks)))
    dterms, dmeta = [], []
    for t, is_utf8 in tokens:
        py = python_decode(t)
        if py[0] != "skip":
            dterms.append("check_decode %s %s" % (coq_str(t), coq_opt(py[1] if py[0] == "some" else None, coq_str)))
            dmeta.append(("python", t, py))
        if t in vh_res:
            r = vh_res[t]
            obs = "None" if r[0] == "refused" else "(Some %s)" % coq_opt(r[1] if r[0] == "ok" else None, coq_str)
            dterms.append("check_lpath_token %s %s" % (coq_str(t), obs))
            dmeta.append(("serde_json", t, r))
    lap("build+tokens_real")
    dres = common.coq_eval("c10d", imports, dterms)
    lap("tokens_coq")
    dstats = {"tokens": len(tokens), "python_cmp": 0, "serde_cmp": 0, "accepted": 0, "refused": 0}
    for (who, t, r), v in zip(dmeta, dres):
        dstats["python_cmp" if who == "python" else "serde_cmp"] += 1
        acc = r[0] in ("some", "ok", "err")
        dstats["accepted" if acc else "refused"] += 1
        ctx.count(("decode", who, t), nontrivial=True,
                  sample={"decoder": who, "token": t.decode("utf-8", "replace"), "observed": list(r), "model_agrees": v})
        if v != "true":
            common.corr_break(ctx, "Corr.CheckJson decode_string vs %s reader" % who,
                              {"input": {"token_hex": t.hex()}, "observed": list(r)})

    # ---- strings through the real library
    strings = gen_strings(ctx)
    cases = gen_cases(ctx, strings)
    obs = run_cases(ctx, cases)
    lap("cases_real")

    terms, metas = [], []
    for c in cases:
        term, msgs, key = analyse(c, obs[c["idx"]])
        terms.append(term)
        metas.append((msgs, key))
    lap("cases_analyse")
    res = common.coq_eval("c10", imports, terms, batch=150)
    lap("cases_coq")

    stats = {"cases": len(cases), "strings": len(strings), "by_position": {}, "by_label": {},
             "accepted": 0, "rejected": 0, "unreadable_after_accept": 0, "token_checks": 0,
             "needs_escape": 0, "non_ascii": 0, "over_255_bytes": 0,
             # the repaired classes (d88c1da): blank / inventory.json / inventory.json.* content directories, by outcome
             "cdir_blank_or_inventory_name": {"refused": 0, "accepted": 0}, "cdir_other": {"refused": 0, "accepted": 0}}
    for c, value, (msgs, key) in zip(cases, res, metas):
        o = obs[c["idx"]]
        pos, s = c["pos"], c["s"]
        checks, flags, tokres = parse_triple(value)
        ntok = len(tokres or [])
        stats["by_position"][pos] = stats["by_position"].get(pos, 0) + 1
        stats["by_label"][c["label"]] = stats["by_label"].get(c["label"], 0) + 1
        stats["token_checks"] += ntok
        accepted = key[1]
        stats["accepted" if accepted else "rejected"] += 1
        if any(ch in s for ch in '"\\') or any(ord(ch) < 0x20 for ch in s):
            stats["needs_escape"] += 1
        if any(ord(ch) > 0x7f for ch in s):
            stats["non_ascii"] += 1
        if len(s.encode("utf-8")) > 255:
            stats["over_255_bytes"] += 1
        if pos == "cdir":
            grp = "cdir_blank_or_inventory_name" if (s == "" or s == "inventory.json" or s.startswith("inventory.json.")) else "cdir_other"
            stats[grp]["accepted" if o.get("new_ok") else "refused"] += 1
        short = s if len(s) <= 40 else s[:40] + "...(%d chars)" % len(s)
        ctx.count((pos, s), nontrivial=True,
                  sample={"position": pos, "string": short, "steps": o["steps"], "model_checks": checks, "known_flags": flags})
        inp = {"position": pos, "string": s if len(s) <= 600 else None, "string_utf8_hex": s.encode("utf-8").hex() if len(s) <= 6000 else None,
               "alg": c["alg"], "pad": c["pad"], "fresh_handle": c["fresh"], "pretty": c["pretty"], "repo_spec": c["repo_spec"],
               "no_name": c.get("no_name", False)}
        active = set()
        if flags is not None:
            active = {slug for slug, f in zip(KNOWN_FLAGS[pos], flags) if f}
        violated = False
        for m, slugs in msgs:
            hit = [k for k in slugs if k in active and k in known_ids]
            if hit:
                for k in hit[:1]:
                    ctx.known_hit(k)
                stats["unreadable_after_accept"] += 1
                continue
            violated = True
            ctx.violation("impl-violation", {"input": inp, "observed": {"steps": o["steps"]}, "expected": m})
        if violated:
            continue
        if checks is None or not all(checks):
            # also reached when a known class predicts a failure that no longer happens (code changed): the model must follow
            common.corr_break(ctx, "Corr.CheckJson %s case (Model/Json.v vs repo.rs / serde.rs / validate)" % pos,
                              {"input": inp, "observed": {"steps": o["steps"], "key": list(key)}, "model_value": value})
        elif not all(tokres):
            common.corr_break(ctx, "Corr.CheckJson check_token (serde_escape vs the token in inventory.json)",
                              {"input": inp, "observed": {"steps": o["steps"]}, "model_value": value})

    # ---- the inventory rocfl wrote, respelled the way other software may spell it
    fcases = run_foreign(ctx)
    fterms = ["(check_foreign %s %s %s %s %s, foreign_class %s %s, (@nil bool))"
              % (cp_, coq_str(t_), coq_str(k_), coq_bool(m_), coq_bool(v_), cp_, coq_str(k_)) for cp_, t_, k_, m_, v_, _, _ in fcases]
    fres = common.coq_eval("c10f", imports, fterms)
    lap("foreign")
    fstats = {"cases": len(fcases), "main_reader_ok": 0, "validator_ok": 0, "escaped_head_or_version_key_refused_by_main_reader": 0,
              "by_position": {}}
    for (cp_, t_, k_, m_, v_, steps, how), value in zip(fcases, fres):
        checks, cls, _ = parse_triple(value)
        fstats["main_reader_ok"] += int(m_)
        fstats["validator_ok"] += int(v_)
        fstats["by_position"][cp_] = fstats["by_position"].get(cp_, 0) + 1
        ctx.count(("foreign", cp_, k_), nontrivial=True,
                  sample={"position": cp_, "string": t_, "token": k_.decode("ascii"), "steps": steps, "model_checks": checks, "residual_class": cls})
        if cls and cls[0] and not m_:
            # an escaped spelling of head / a version key: rocfl never writes it, the main reader refuses it (types.rs:43)
            fstats["escaped_head_or_version_key_refused_by_main_reader"] += 1
        if checks is None or not all(checks):
            common.corr_break(ctx, "Corr.CheckJson check_foreign (Model/Json.v main_read_pos / val_read_pos vs serde.rs / validate/serde.rs)",
                              {"input": {"position": cp_, "string": t_, "token": k_.decode("ascii"), "respelling": how},
                               "observed": {"steps": steps, "main_ok": m_, "val_ok": v_}, "model_value": value})
    ctx.coverage["foreign_spelling"] = fstats

    ctx.coverage["traces_validated_against_impl"] = len(cases) + len(dterms) + len(fcases)
    ctx.coverage["distribution"] = stats
    ctx.coverage["decoder_correspondence"] = dstats
    ctx.coverage["timing_s"] = tm
    ctx.assumptions.append("strings reach the library as Rust &str (valid UTF-8); invalid UTF-8 is only exercised on the decoder model against Python")
    ctx.assumptions.append("file-system limits (no NUL, 255 bytes per name) are modelled as fs_name_ok; total path lengths are kept below PATH_MAX by the generator")
    ctx.assumptions.append("clap's argument decoding and chrono's timestamp grammar are outside the model")
    ctx.assumptions.append("residual, outside C10's statement: the main reader refuses an escaped JSON spelling of head / a version key "
                           "(VersionNum, try_from &str, types.rs:43); rocfl never writes one (theorem C10_rocfl_never_writes_escaped_version_name)")
    return common.finish_with_proof(
        ctx, proof,
        rule="hostile string pool (each control character, quote, backslash, DEL, non-BMP, NFC/NFD, Unicode white space, percent, "
             "reserved names, 255/256-byte and 5 kB strings) + random compositions + all single bytes 0x01-0x7F, each placed in object id, "
             "logical path (destination and source file name), content directory, user name, address, message; plus raw JSON tokens with "
             "every escape kind for the decoder; plus the committed inventory of one object with one token respelled (first / last / "
             "every character as a backslash-u escape, escaped slashes) at each of the 14 string positions; "
             "distinct = distinct (position, string), (decoder, token) or (foreign, position, token)")
