"""C11 - objects are stored exactly where the declared layout extension prescribes.

Stage 1 (proof): Props/C11.v.
Stage 2 (correspondence, function level): StorageLayout::new (Ok / Err / panic) and
  map_object_id (path / panic) of the real library against the Gallina model Layout.v,
  compared inside Coq (Corr/CheckLayout.v) on a grid of configurations x an id pool.
Stage 3 (direct search): the same observations against LayoutSpec.v, the independent
  transcription of the five extension documents (also evaluated in Coq; it shares only
  data types with the code model).
Stage 4 (system level): after new + cp + commit under each layout the directory the
  object occupies equals the model path; ids an extension cannot map are refused with
  nothing written; init with a forbidden configuration fails and writes nothing; a
  repository whose config.json is forbidden opens with no layout assumed.

Unicode case mapping (str::to_lowercase/to_uppercase, char::to_lowercase) is external to
rocfl: the harness returns what the Rust standard library computes and both the model
and the oracle take it as input.  The theorems assume four facts about it
(Layout.unicode_ok, part of inputs_ok); they are evaluated on every generated pair and a
pair that fails them is reported (exit 1), never skipped.  Digests come from hashlib.

No known finding of C11 is left (seven classes repaired in /repo): every disagreement
between the code and the documents is a VIOLATION.
"""
import hashlib
import json
import os
import subprocess

from vplib import common, hist
from vplib.common import coq_str, coq_list

EXTS = {
    "0002": ("E0002", "0002-flat-direct-storage-layout"),
    "0003": ("E0003", "0003-hash-and-id-n-tuple-storage-layout"),
    "0004": ("E0004", "0004-hashed-n-tuple-storage-layout"),
    "0006": ("E0006", "0006-flat-omit-prefix-storage-layout"),
    "0007": ("E0007", "0007-n-tuple-omit-prefix-storage-layout"),
}
ALGS = {
    "md5": lambda d: hashlib.md5(d).hexdigest(),
    "sha1": lambda d: hashlib.sha1(d).hexdigest(),
    "sha256": lambda d: hashlib.sha256(d).hexdigest(),
    "sha512": lambda d: hashlib.sha512(d).hexdigest(),
    "sha512/256": lambda d: hashlib.new("sha512_256", d).hexdigest(),
    "blake2b-512": lambda d: hashlib.blake2b(d, digest_size=64).hexdigest(),
    "blake2b-160": lambda d: hashlib.blake2b(d, digest_size=20).hexdigest(),
    "blake2b-256": lambda d: hashlib.blake2b(d, digest_size=32).hexdigest(),
    "blake2b-384": lambda d: hashlib.blake2b(d, digest_size=48).hexdigest(),
}
HEXLEN = {"md5": 32, "sha1": 40, "sha256": 64, "sha512": 128, "sha512/256": 64,
          "blake2b-512": 128, "blake2b-160": 40, "blake2b-256": 64, "blake2b-384": 96}
FIELDS = ["extensionName", "digestAlgorithm", "tupleSize", "numberOfTuples", "shortObjectRoot",
          "delimiter", "zeroPadding", "reverseObjectRoot"]
# struct field order of each extension (positional form)
KNOWN_KEYS = {
    "0002": ["extensionName"],
    "0003": ["extensionName", "digestAlgorithm", "tupleSize", "numberOfTuples"],
    "0004": ["extensionName", "digestAlgorithm", "tupleSize", "numberOfTuples", "shortObjectRoot"],
    "0006": ["extensionName", "delimiter"],
    "0007": ["extensionName", "delimiter", "tupleSize", "numberOfTuples", "zeroPadding", "reverseObjectRoot"],
}
# Formerly known classes, all repaired in /repo: numbers above 32 (d1aca14), shortObjectRoot with a
# fully used digest (a91c61b), 0003 without tuples (e1de1bb), 0007 control characters (970818d), the
# case-folding byte index of 0006 (91d5aeb), 0007 without delimiter / config.json (dec6d3f), array
# configurations (8478633).  Their inputs are generated as before and MUST PASS.
WF_NEW = 16      # bit 4 of new_mask: the strings of the configuration are well-formed
CASE_OK = 8      # bit 3 of path_mask: Layout.case_info_ok (the assumed facts about Unicode case mapping)


class Invalid(str):
    """a config.json text that is not a JSON object/array (RawInvalid)"""


# --------------------------------------------------------------------------- generators

KELVIN = "K"       # lower-cases to 'k' (3 bytes -> 1)
IDOT = "İ"         # lower-cases to 'i' + U+0307 (2 bytes -> 3, two scalars)
SHARP_S = "ẞ"      # capital sharp s: lower-cases to U+00DF (3 bytes -> 2)
SIGMA = "Σ"        # final-sigma rule of str::to_lowercase

BASE_IDS = [
    "object-01", "info:example/test-123", "..hor/rib:le-$id", "..Hor/rib:lè-$id",
    "۵ݨݯژښڙڜڛڝڠڱݰݣݫۯ۞ۆݰ",
    "a", "", "abc123", "namespace:12887296", "urn:uuid:6e8bc430-9c3a-11d9-9669-0800200c9a66",
    "https://institution.edu/3448793", "https://institution.EDU/3448793", "https://institution.edu/abc/edu/f8.05v",
    "https://example.com/", "info:fedora/object-01", "https://example.org/info:/12345/x54xz321/s3/f8.05v",
    "%", "%%41", "a%zz", "%e2%82", "a b", "~`!@#$%^&*()=+[]{}|;'\",<>?", "-_", "a-b_c.d", "A-Z_a-z.0-9",
    "../x", "a/../b", "/", "//", ".", "..", "a/b", "\\", "a\\b",
    "a\u0001b", "\u0000", "a\tb", "a\nb", "x\u007f", "a:b\u001f", "\u007f", " ", " a ",
    KELVIN + "edu/x", IDOT + "edu/xyz", IDOT + "edu/", "xedu/" + IDOT, "a" + SHARP_S + "b", "a" + SIGMA + "/x",
    "Α" + SIGMA, "ǅ", "ﬁ", "ŉx", "KEDU/é", "\U0001f600", "a\U0001f600:b", "é:É",
    "1", "12", "123", "1234", "12345678", "123456789", "1234567890",
]


# ends of the range 0x20..0x7F of extension 0007 (regression inputs of fix 970818d)
CTRL_IDS = ["\u001f", "a:\u001f", "a: \u007f", "\u0000:a", "a:b\u0001c", "ns:12\u000034", "\u0080", " \u007f"]


def long_ids():
    out = ["a" * 99, "a" * 100, "a" * 101, "abcdefghij" * 26, "abcdefghij" * 10 + "a",
           ":" * 33, ":" * 33 + "a", ":" * 33 + "ab", ":" * 34, "a" + ":" * 33, "ab" + ":" * 33,
           "é" * 16, "é" * 17, "a" + "é" * 17, "x" * 255, "x" * 300, "%" * 40, "A%" * 30,
           "urn:" + "0123456789" * 30, "€" * 100, ("ab:" * 100)[:300], "Z" * 1024]
    return out


def delim_ids(d, rng):
    """ids built around a delimiter: repeated, at either end, case variants, partial, overlapping"""
    if not isinstance(d, str) or d == "":
        return []
    up, lo, sw = d.upper(), d.lower(), d.swapcase()
    out = [d, "x" + d, d + "x", "x" + d + "y", "x" + d + "y" + d, "x" + d + "y" + d + "z", d + d, d * 3 + "q",
           up + "x", "x" + lo + "y", "x" + sw + "y", "x" + up, "pre" + d + "mid" + up + "post", "pre" + up + "mid" + d + "post",
           d[:-1], "x" + d[1:], "x" + d[:-1] + "y", d[0] + d, d + d[-1], d + d[0] + "t",
           "x" + d + d, d + "x" + d, " " + d + " ", d + "/", d + "..", "a" + d + "../b",
           "K" + d + "x", KELVIN + d + "x", IDOT + d + "xyz", IDOT + d, "x" + d + IDOT, SHARP_S + d + "q", "a" + SIGMA + d + "x",
           d + KELVIN, "é" + d + "É", "x" + d + "\u0001", "\u0001" + d + "x",
           "x" + d + "0", "x" + d + "00012", "x" + d + "12345678901234567890"]
    for _ in range(4):
        parts = [rng.choice(["x", "Y", "0", d, up, lo, d[:1], d[-1:], "/", ".", "-"]) for _ in range(rng.randint(1, 7))]
        out.append("".join(parts))
    return out


def width_ids(w, rng):
    """ids whose length is around the tuple width w (0007 padding boundary)"""
    base = ("1234567890abcdefghijklmnopqrstuvwxyz" * 30)
    out = []
    for n in (w - 1, w, w + 1, 1, 2 * w, w // 2):
        if 0 < n <= 1100:
            out.append(base[:n])
            out.append("ns:" + base[:n])
    return out


ALPHABET = list("abcXYZ019-_.:/%~ $") + ["é", "É", KELVIN, IDOT, SIGMA, "σ", "€", "\U0001f600", "\u0001", "\u007f"]


def random_ids(rng, n, extra=()):
    out = []
    alpha = ALPHABET + list(extra)
    for _ in range(n):
        k = rng.choice([1, 2, 3, 5, 8, 13, 30, 60, 120])
        ascii_only = rng.random() < 0.5
        pool = [c for c in alpha if (not ascii_only or all(ord(ch) < 128 for ch in c))]
        out.append("".join(rng.choice(pool) for _ in range(rng.randint(1, k))))
    return out


def uniq(xs):
    seen, out = set(), []
    for x in xs:
        if x not in seen:
            seen.add(x)
            out.append(x)
    return out


DELIMS = [":", "/", "edu/", "EDU/", "Edu/", "info:", "::", "aa", "aA", "-", " ", ".", "a", "\\", "\"",
          "é", "É", "ß", KELVIN, IDOT, SIGMA + "/", "σ", "ǅ", "\u0001", "€", "x" + KELVIN, "ab:cd"]


def gen_cases(ctx):
    """list of (ext key, config value, ids).  config value: None | dict | list | Invalid"""
    rng, quick = ctx.rng, ctx.quick()
    cases = []
    nrand = 6 if quick else 60
    longs = long_ids()

    def name(k):
        return EXTS[k][1]

    invalid_texts = [Invalid(t) for t in ["", "{", "null", "3", "\"x\"", "true", "{} x", "{\"tupleSize\":3,}", "﻿{}"]]

    # ---- 0002
    ids2 = uniq(BASE_IDS + longs + random_ids(rng, nrand * 3))
    for cfgv in [None, {}, {"extensionName": name("0002")}, {"extensionName": name("0002"), "tupleSize": "junk", "delimiter": 5}]:
        cases.append(("0002", cfgv, ids2))
    for cfgv in [{"extensionName": name("0004")}, {"extensionName": "bogus"}, {"extensionName": ""}, {"extensionName": 3},
                 {"extensionName": None}, {"extensionName": name("0002").upper()}, [name("0002")], [], [name("0002"), 1],
                 [name("0003")]] + invalid_texts:
        cases.append(("0002", cfgv, ["a"]))

    # ---- 0003 / 0004: new() over the whole (tupleSize, numberOfTuples) square, ids on a selection
    for k in ("0003", "0004"):
        algs = list(ALGS)
        for alg in (["sha256", "md5"] if quick else algs):
            for ts in range(0, 34):
                for nt in range(0, 34):
                    c = {"extensionName": name(k), "digestAlgorithm": alg, "tupleSize": ts, "numberOfTuples": nt}
                    if k == "0004" and (ts * nt) % 2 == 1:
                        c["shortObjectRoot"] = True
                    cases.append((k, c, []))
        for alg in algs:
            L = HEXLEN[alg]
            for ts, nt in [(1, L), (L, 1), (1, L + 1), (L + 1, 1), (2, L // 2), (2, L // 2 + 1), (L // 4, 4), (4, L // 4), (8, L // 8), (L // 8, 8)]:
                for short in ([None] if k == "0003" else [None, True, False]):
                    c = {"extensionName": name(k), "digestAlgorithm": alg, "tupleSize": ts, "numberOfTuples": nt}
                    if short is not None:
                        c["shortObjectRoot"] = short
                    cases.append((k, c, ["object-01", "", "é"]))
            # one character less / more than the whole digest, with and without shortObjectRoot
            # (regression inputs of fix a91c61b: only the exact product is forbidden, only with shortObjectRoot)
            for ts, nt in [(a_, b_) for a_ in range(1, 33) for b_ in range(1, 33) if a_ * b_ in (L - 1, L, L + 1)]:
                for short in ([None] if k == "0003" else [True, False]):
                    c = {"extensionName": name(k), "digestAlgorithm": alg, "tupleSize": ts, "numberOfTuples": nt}
                    if short is not None:
                        c["shortObjectRoot"] = short
                    cases.append((k, c, ["object-01"] if (ts, nt) in ((1, L - 1), (L - 1, 1), (7, 9), (3, 13), (5, 19), (2, L // 2), (L // 2, 2), (4, L // 4)) else []))
        # numbers above the documented bound 32 (regression inputs of fix d1aca14; with huge factors the
        # usize product used to overflow)
        for ts, nt in [(33, 1), (1, 33), (33, 33), (64, 1), (1, 64), (64, 64), (33, 0), (0, 33), (32, 33), (33, 32), (128, 1), (1, 128),
                       (2 ** 64 - 1, 2 ** 64 - 1), (2 ** 64 - 1, 0), (0, 2 ** 64 - 1), (2 ** 64 - 1, 2), (2, 2 ** 64 - 1),
                       (2 ** 63, 2 ** 63), (2 ** 32, 2 ** 32 + 1), (2 ** 16, 2 ** 48), (32, 32), (32, 1), (1, 32), (32, 2), (32, 4)]:
            for alg in (None, "sha512", "md5"):
                for short in ([None] if k == "0003" else [None, True]):
                    c = {"extensionName": name(k), "tupleSize": ts, "numberOfTuples": nt}
                    if alg is not None:
                        c["digestAlgorithm"] = alg
                    if short is not None:
                        c["shortObjectRoot"] = short
                    cases.append((k, c, ["object-01"]))
        sel = [(None, None, None), ("sha256", 3, 3), ("md5", 2, 15), ("md5", 2, 16), ("sha256", 0, 0), ("md5", 0, 0), ("sha512", 1, 1), ("sha1", 5, 8),
               ("sha512/256", 32, 2), ("blake2b-512", 32, 4), ("blake2b-160", 1, 32), ("blake2b-256", 7, 9), ("blake2b-384", 3, 32),
               ("sha256", 33, 1), ("sha256", 1, 33), ("sha256", 64, 1), ("md5", 1, 1), ("sha1", 40, 1), ("sha512", 2, 2)]
        if not quick:
            sel += [(rng.choice(algs), rng.randint(1, 8), rng.randint(1, 4)) for _ in range(40)]
        for alg, ts, nt in sel:
            shorts = [None] if k == "0003" else [None, True]
            for short in shorts:
                c = {"extensionName": name(k)}
                if alg is not None:
                    c.update({"digestAlgorithm": alg, "tupleSize": ts, "numberOfTuples": nt})
                if short is not None:
                    c["shortObjectRoot"] = short
                if k == "0003":
                    ids = uniq(BASE_IDS + longs + random_ids(rng, nrand * 2))
                else:
                    ids = uniq(BASE_IDS[:24] + longs[:4] + random_ids(rng, nrand))
                cases.append((k, c, ids))
        cases.append((k, None, uniq(BASE_IDS[:10] + longs[:6])))
        cases.append((k, {}, ["object-01", "..hor/rib:le-$id"]))
        cases.append((k, {"tupleSize": 2}, ["object-01"]))
        cases.append((k, {"numberOfTuples": 0}, ["object-01"]))
        cases.append((k, {"tupleSize": 0}, ["object-01"]))
        junk = ["3", 3.0, -1, None, True, [], {}, 2 ** 32, 2 ** 63, 2 ** 64 - 1, 2 ** 64, 10 ** 30, 1e3, 0.5]
        for j in junk:
            cases.append((k, {"extensionName": name(k), "tupleSize": j, "numberOfTuples": 1}, ["a"]))
            cases.append((k, {"extensionName": name(k), "tupleSize": 1, "numberOfTuples": j}, ["a"]))
        cases.append((k, {"extensionName": name(k), "tupleSize": 2 ** 32, "numberOfTuples": 2 ** 32}, ["a"]))
        cases.append((k, {"extensionName": name(k), "tupleSize": 2 ** 63, "numberOfTuples": 2}, ["a"]))
        for a in ["", "SHA256", "sha-256", "md6", "sha224", 5, None, True, "sha512/256 ", "blake2b"]:
            cases.append((k, {"extensionName": name(k), "digestAlgorithm": a}, ["a"]))
        for nm in [name("0002"), name("0003" if k == "0004" else "0004"), "bogus", "", 7, None]:
            cases.append((k, {"extensionName": nm}, ["a"]))
            cases.append((k, {"extensionName": nm, "tupleSize": 3, "numberOfTuples": 0}, ["a"]))
        if k == "0004":
            for s in ["true", 1, None, 0, "false", []]:
                cases.append((k, {"extensionName": name(k), "shortObjectRoot": s}, ["a"]))
            cases.append((k, {"tupleSize": 0, "numberOfTuples": 0, "shortObjectRoot": True}, ["object-01", "x"]))
        else:
            cases.append((k, {"extensionName": name(k), "shortObjectRoot": 7, "delimiter": 7}, ["object-01"]))
        seqs = [[name(k), "md5", 2, 2], [name(k), "md5", 2, 2, True], [name(k), "md5", 2, 2, True, 1], [name(k)], [],
                ["md5", name(k), 2, 2], [name(k), "md5", "2", 2], [name(k), "sha256", 33, 1], [name(k), "md5", 3, 0]]
        for sq in seqs:
            cases.append((k, sq, ["object-01"]))
        for t in invalid_texts:
            cases.append((k, t, ["a"]))

    # ---- 0006
    delims6 = DELIMS if not quick else DELIMS
    for d in delims6:
        c = {"extensionName": name("0006"), "delimiter": d}
        extra = [ch for ch in d]
        ids = uniq(delim_ids(d, rng) + BASE_IDS + (longs[:8] if d in (":", "edu/") else longs[:3]) + random_ids(rng, nrand * 2, extra))
        cases.append(("0006", c, ids))
    for cfgv in [None, {}, {"extensionName": name("0006")}, {"delimiter": ":"}, {"extensionName": name("0006"), "delimiter": ""},
                 {"extensionName": name("0006"), "delimiter": 5}, {"extensionName": name("0006"), "delimiter": None},
                 {"extensionName": name("0006"), "delimiter": [":"]}, {"extensionName": name("0007"), "delimiter": ":"},
                 {"extensionName": "bogus", "delimiter": ":"}, {"extensionName": "bogus", "delimiter": ""},
                 {"extensionName": name("0006"), "delimiter": ":", "tupleSize": "x"},
                 [name("0006"), ":"], [name("0006")], [name("0006"), ":", 3], [":", name("0006")], [name("0006"), ""]] + invalid_texts:
        cases.append(("0006", cfgv, ["a:b", "a:"]))

    # ---- 0007
    delims7 = [":", "edu/", "EDU/", "/", "aa", "-", "::", "é", KELVIN, IDOT, "0", "a"]
    shapes = [(3, 3), (4, 2), (1, 1), (32, 32), (2, 5), (32, 1), (1, 32), (5, 2)]
    combos = []
    for i, d in enumerate(delims7):
        for j, (ts, nt) in enumerate(shapes if not quick else shapes[:5] if d in (":", "edu/") else shapes[i % 4::4]):
            for pad in ("left", "right"):
                for rev in (False, True):
                    if quick and d not in (":", "edu/") and (pad == "right") != rev:
                        continue
                    combos.append((d, ts, nt, pad, rev))
    if quick:
        combos = combos[:]
    for d, ts, nt, pad, rev in combos:
        c = {"extensionName": name("0007"), "delimiter": d, "tupleSize": ts, "numberOfTuples": nt,
             "zeroPadding": pad, "reverseObjectRoot": rev}
        ids = uniq(delim_ids(d, rng)[:24 if quick else 99] + width_ids(ts * nt, rng) + BASE_IDS[:16 if quick else 99] + BASE_IDS[-7:]
                   + (BASE_IDS[34:52:3] if quick else []) + CTRL_IDS + random_ids(rng, nrand, list(d)))
        if quick and (ts, nt) == (32, 32):
            ids = ids[:25]
        cases.append(("0007", c, ids))
    cases.append(("0007", {"extensionName": name("0007"), "delimiter": ":"}, uniq(BASE_IDS + CTRL_IDS + longs[:6] + delim_ids(":", rng))))
    for ts in list(range(0, 35)) + [2 ** 32, 2 ** 64 - 1, 2 ** 64]:
        for nt in ([1, 3, 32] if quick else [0, 1, 3, 32, 33]):
            cases.append(("0007", {"extensionName": name("0007"), "delimiter": ":", "tupleSize": ts, "numberOfTuples": nt}, []))
            cases.append(("0007", {"extensionName": name("0007"), "delimiter": ":", "tupleSize": nt, "numberOfTuples": ts}, []))
    for cfgv in [None, {}, {"extensionName": name("0007")}, {"delimiter": ":"}, {"extensionName": name("0007"), "tupleSize": 2},
                 {"extensionName": name("0007"), "delimiter": ""}, {"extensionName": name("0007"), "delimiter": "", "tupleSize": 0},
                 {"extensionName": name("0007"), "delimiter": 5}, {"extensionName": name("0006"), "delimiter": ":"},
                 {"extensionName": name("0007"), "delimiter": ":", "zeroPadding": "LEFT"},
                 {"extensionName": name("0007"), "delimiter": ":", "zeroPadding": ""},
                 {"extensionName": name("0007"), "delimiter": ":", "zeroPadding": 1},
                 {"extensionName": name("0007"), "delimiter": ":", "zeroPadding": None},
                 {"extensionName": name("0007"), "delimiter": ":", "reverseObjectRoot": "true"},
                 {"extensionName": name("0007"), "delimiter": ":", "reverseObjectRoot": 1},
                 {"extensionName": name("0007"), "delimiter": ":", "tupleSize": "3"},
                 {"extensionName": name("0007"), "delimiter": ":", "tupleSize": 3.0},
                 {"extensionName": name("0007"), "delimiter": ":", "numberOfTuples": -1},
                 {"extensionName": name("0007"), "delimiter": ":", "digestAlgorithm": "md6", "shortObjectRoot": 3},
                 [name("0007"), ":", 2, 2, "right", True], [name("0007"), ":", 2, 2], [name("0007")], [name("0007"), ":", 2, 2, "right", True, 0],
                 [name("0007"), ":", 0, 2], [name("0007"), "", 2, 2]] + invalid_texts:
        cases.append(("0007", cfgv, ["a:b", "a:", "ab"]))
    return cases


# --------------------------------------------------------------------------- Coq terms

def is_ascii(s):
    return all(ord(c) < 128 for c in s)


def ustr_term(s, info):
    """Coq term of type ustr for string s with the harness' case information"""
    chars = info["chars"]
    if "".join(c for c, _ in chars) != s:
        raise common.BuildError("harness case info does not spell the string %r" % (s,))
    if is_ascii(s) and all(lo == c.lower() for c, lo in chars) and info["lower"] == s.lower() and info["upper"] == s.upper():
        return "(au %s)" % coq_str(s)
    return "(mku [%s] %s %s)" % ("; ".join("(%s, %s)" % (coq_str(c), coq_str(lo)) for c, lo in chars),
                                 coq_str(info["lower"]), coq_str(info["upper"]))


def config_strings(cfgv):
    vals = cfgv.values() if isinstance(cfgv, dict) else cfgv if isinstance(cfgv, list) else []
    return [v for v in vals if isinstance(v, str)]


def jv_term(v, infos):
    if isinstance(v, bool):
        return "(JBool %s)" % ("true" if v else "false")
    if isinstance(v, int):
        return "(JNum %d)" % v if v >= 0 else "JOther"
    if isinstance(v, str):
        return "(JStr %s)" % ustr_term(v, infos[v])
    return "JOther"


def raw_term(k, cfgv, infos):
    if cfgv is None:
        return "RawNone"
    if isinstance(cfgv, Invalid):
        return "RawInvalid"
    if isinstance(cfgv, list):
        return "(RawSeq %s)" % coq_list([jv_term(v, infos) for v in cfgv])
    known = KNOWN_KEYS[k]
    fs = []
    for f in FIELDS:
        if f in cfgv and f in known:
            fs.append(jv_term(cfgv[f], infos))
        else:
            fs.append("JAbsent")
    return "(RawObj (mkRaw %s))" % " ".join(fs)


def config_text(cfgv):
    if cfgv is None:
        return None
    if isinstance(cfgv, Invalid):
        return str(cfgv)
    return json.dumps(cfgv)


def alg_of(k, cfgv):
    """digest algorithm the accepted configuration uses (Python's own reading of the JSON)"""
    a = None
    if isinstance(cfgv, dict):
        a = cfgv.get("digestAlgorithm")
    elif isinstance(cfgv, list) and k in ("0003", "0004") and len(cfgv) > 1:
        a = cfgv[1]
    return a if isinstance(a, str) and a in ALGS else "sha256"


def obs_term(o):
    if "ok" in o:
        return "(Ok %s)" % coq_str(o["ok"])
    return "Panic"


def run_harness(vh, lines):
    inp = "\n".join(json.dumps(l) for l in lines) + "\n"
    p = subprocess.run([vh, "layout"], input=inp, capture_output=True, text=True, timeout=1800)
    outs = [json.loads(l) for l in p.stdout.splitlines() if l.strip()]
    if len(outs) != len(lines):
        raise common.BuildError("harness layout produced %d results for %d lines: %s" % (len(outs), len(lines), p.stderr[-500:]))
    return outs


def layout_terms(cases, outs):
    """one check_layout term per case; returns (terms, per-case digests)"""
    terms, digs = [], []
    for (k, cfgv, ids), o in zip(cases, outs):
        strs = config_strings(cfgv)
        infos = dict(zip(strs, o["case"]["strs"]))
        raw = raw_term(k, cfgv, infos)
        cls = {"ok": 0, "err": 1, "panic": 2}[o["new"]]
        items, dg = [], []
        if o["new"] == "ok":
            alg = alg_of(k, cfgv)
            for s, info, po in zip(ids, o["case"]["ids"], o["paths"]):
                d = ALGS[alg](s.encode("utf-8"))
                dg.append(d)
                items.append("(%s, %s, %s)" % (ustr_term(s, info), coq_str(d), obs_term(po)))
        terms.append("check_layout true %s %s %d %s" % (EXTS[k][0], raw, cls, coq_list(items)))
        digs.append(dg)
    return terms, digs


def parse_masks(v):
    v = v.strip()
    if not (v.startswith("[") and v.endswith("]")):
        raise common.BuildError("unexpected Coq value: %s" % v[:200])
    body = v[1:-1].strip()
    return [int(x) for x in body.split(";")] if body else []


IMPORTS = ["Base.Bytes", "Model.Layout", "Model.LayoutSpec", "Corr.CheckLayout"]


_SHOWN = [0]


def show_paths(k, cfgv, infos, s, info, digest):
    """(model, documents) outcome of one pair, decoded, for a replay file (first few only)"""
    _SHOWN[0] += 1
    if _SHOWN[0] > 5:
        return "n/a (diagnostics are computed for the first 5 failing inputs only)"
    try:
        t = "show_paths true %s %s %s %s" % (EXTS[k][0], raw_term(k, cfgv, infos), ustr_term(s, info), coq_str(digest))
        return common.coq_eval("c11show", IMPORTS, [t])[0]
    except Exception as e:  # diagnostics only
        return "n/a (%s)" % e


def id_category(s):
    cats = []
    if s == "":
        cats.append("empty")
    if not is_ascii(s):
        cats.append("non-ascii")
    if any(ord(c) < 32 for c in s):
        cats.append("control")
    if len(s.encode("utf-8")) >= 255:
        cats.append("long")
    if "/" in s or ".." in s:
        cats.append("slash-dots")
    if any(not (c.isascii() and (c.isalnum() or c in "-_")) for c in s):
        cats.append("needs-percent")
    if s != s.lower() and s != s.upper():
        cats.append("mixed-case")
    if len(s.lower().encode("utf-8")) != len(s.encode("utf-8")):
        cats.append("case-changes-length")
    return cats or ["plain"]


def casefold_regression(k, cfgv, s, info):
    """pairs of the repaired class c11-casefold-index (fix 91d5aeb): layout 0006, a delimiter with case, an id
    in which char::to_lowercase changes a UTF-8 length or str::to_lowercase is not the per-character mapping"""
    if k != "0006" or not isinstance(cfgv, dict) or not isinstance(cfgv.get("delimiter"), str):
        return False
    d = cfgv["delimiter"]
    if d.lower() == d.upper():
        return False
    return (any(len(c.encode("utf-8")) != len(lo.encode("utf-8")) for c, lo in info["chars"])
            or info["lower"] != "".join(lo for _, lo in info["chars"]))


def regression_classes(k, cfgv):
    """which formerly known configuration class (now must-pass) a generated configuration belongs to"""
    out = []
    if isinstance(cfgv, list):
        out.append("array")                                        # fix 8478633
    if k == "0007" and (cfgv is None or (isinstance(cfgv, dict) and "delimiter" not in cfgv)):
        out.append("0007_defaults")                                # fix dec6d3f
    if k in ("0003", "0004") and isinstance(cfgv, dict):
        ts, nt = cfgv.get("tupleSize", 3), cfgv.get("numberOfTuples", 3)
        if all(isinstance(v, int) and not isinstance(v, bool) for v in (ts, nt)):
            if ts > 32 or nt > 32:
                out.append("bounds")
            a = cfgv.get("digestAlgorithm", "sha256")
            if k == "0004" and cfgv.get("shortObjectRoot") is True and a in HEXLEN and ts * nt == HEXLEN[a] and ts <= 32 and nt <= 32:
                out.append("short_root")
    return out


# --------------------------------------------------------------------------- function level

def function_level(ctx, vh, stats):
    cases = gen_cases(ctx)
    lines = [{"ext": EXTS[k][1], "config": config_text(cfgv), "ids": ids, "case": True, "strs": config_strings(cfgv)}
             for k, cfgv, ids in cases]
    outs = run_harness(vh, lines)
    terms, digs = layout_terms(cases, outs)
    # configurations without ids are tiny terms: many per coqc run; terms with ids: few per run
    small = [i for i, c in enumerate(cases) if not c[2] or outs[i]["new"] != "ok"]
    big = [i for i, c in enumerate(cases) if not (not c[2] or outs[i]["new"] != "ok")]
    res = [None] * len(cases)
    for idx, batch in ((small, 400), (big, 6)):
        for i, v in zip(idx, common.coq_eval("c11", IMPORTS, [terms[i] for i in idx], batch=batch)):
            res[i] = v
    npairs = 0
    for (k, cfgv, ids), o, dg, r in zip(cases, outs, digs, res):
        masks = parse_masks(r)
        text = config_text(cfgv)
        strs = config_strings(cfgv)
        infos = dict(zip(strs, o["case"]["strs"]))
        m = masks[0]
        stats["new_" + o["new"]] += 1
        stats["ext_" + k + "_configs"] += 1
        for cls in regression_classes(k, cfgv):
            stats["regress_" + cls + "_configs_" + o["new"]] += 1
        ctx.count(("new", k, text, o["new"]), nontrivial=True,
                  sample={"ext": k, "config": text, "new": o["new"], "mask": m})
        det = bool(m & 4)
        oracle_ok = bool(m & 2) and bool(m & 8)
        model_ok = bool(m & 1)
        inp = {"level": "StorageLayout::new", "ext": EXTS[k][1], "config": text}
        if not m & WF_NEW:
            common.corr_break(ctx, "Corr.CheckLayout: driver inputs not well-formed (strings of the configuration)", {"input": inp, "mask": m})
            continue
        if det and not oracle_ok:
            ctx.violation("impl-violation", {"input": inp, "observed": {"new": o["new"], "msg": o.get("msg")},
                          "expected": "the extension documents %s this configuration (LayoutSpec.parse); accepted parameters must equal the documented ones" %
                                      ("forbid" if o["new"] == "ok" else "allow")})
            continue
        if not model_ok:
            common.corr_break(ctx, "Corr.CheckLayout new_mask (model Layout.new vs layout.rs StorageLayout::new)",
                              {"input": inp, "observed": {"new": o["new"], "msg": o.get("msg")}, "mask": m})
            continue
        if o["new"] != "ok":
            continue
        if len(masks) != 1 + len(ids):
            common.corr_break(ctx, "Corr.CheckLayout: the model rejects a configuration the code accepted", {"input": inp, "mask": m})
            continue
        for s, info, po, d, pm in zip(ids, o["case"]["ids"], o["paths"], dg, masks[1:]):
            npairs += 1
            stats["ext_" + k + "_pairs"] += 1
            stats["path_" + ("ok" if "ok" in po else "panic")] += 1
            for c in id_category(s):
                stats["id_" + c] += 1
            if k == "0003" and isinstance(cfgv, dict) and cfgv.get("tupleSize") == 0:
                stats["regress_0003_zero_tuples_pairs"] += 1
            if k == "0007" and any(ord(ch) < 32 for ch in s):
                stats["regress_0007_control_pairs_" + ("ok" if "ok" in po else "panic")] += 1
            if casefold_regression(k, cfgv, s, info):
                stats["regress_casefold_pairs_" + ("ok" if "ok" in po else "panic")] += 1
            if "0007_defaults" in regression_classes(k, cfgv):
                stats["regress_0007_defaults_pairs"] += 1
            ctx.count(("map", k, text, s, "ok" in po), nontrivial=True,
                      sample={"ext": k, "config": text, "id": s, "observed": po, "mask": pm})
            inp = {"level": "map_object_id", "ext": EXTS[k][1], "config": text, "id": s, "digest": d}
            if not pm & 2:
                # decided by the direct oracle first: a real disagreement is a violation whatever the side conditions say
                ctx.violation("impl-violation", {"input": inp, "observed": po,
                              "expected": "the object root path the extension document prescribes (LayoutSpec.map); (model, documents) = %s"
                                          % show_paths(k, cfgv, infos, s, info, d)})
                continue
            if not pm & 4:
                what = ("the case information returned by the Rust standard library does not obey Layout.unicode_ok (an assumption of C11_map_is_spec)"
                        if not pm & CASE_OK else "driver inputs not well-formed (UTF-8 characters / digest)")
                common.corr_break(ctx, "Corr.CheckLayout: " + what, {"input": inp, "mask": pm, "case_info": info})
                continue
            if not pm & 1:
                common.corr_break(ctx, "Corr.CheckLayout path_mask (model Layout.map vs layout.rs map_object_id)",
                                  {"input": inp, "observed": po, "mask": pm, "model_and_documents": show_paths(k, cfgv, infos, s, info, d)})
    stats["pairs"] = npairs
    stats["configs"] = len(cases)


# --------------------------------------------------------------------------- system level

def n(k):
    return EXTS[k][1]


SYS_LAYOUTS = [   # (extension, configuration, ids that are also valid relative paths on this file system)
    ("0002", None, ["object-01", "..hor_rib:l\u00e9-$id", "UPPER lower 123"]),
    ("0003", None, ["object-01", "info:example/test-123", "..Hor/rib:l\u00e8-$id", "abcdefghij" * 26, "\u00e9" * 40]),
    ("0003", {"extensionName": n("0003"), "digestAlgorithm": "sha512", "tupleSize": 1, "numberOfTuples": 4},
     ["object-01", "a/b", "\u0001", ":" * 34]),
    # 0003 without tuples: the object sits in its encapsulation directory under the storage root (fix e1de1bb)
    ("0003", {"extensionName": n("0003"), "digestAlgorithm": "md5", "tupleSize": 0, "numberOfTuples": 0},
     ["object-01", "info:example/test-123", "..Hor/rib:l\u00e8-$id", "abcdefghij" * 10 + "a", "a" * 100, "\u0001"]),
    ("0004", None, ["object-01", "info:example/test-123", "\u06f5\u0768\u076f"]),
    ("0004", {"extensionName": n("0004"), "digestAlgorithm": "md5", "tupleSize": 2, "numberOfTuples": 2, "shortObjectRoot": True},
     ["object-01", "../x", "x  y"]),
    ("0004", {"extensionName": n("0004"), "digestAlgorithm": "blake2b-160", "tupleSize": 0, "numberOfTuples": 0}, ["object-01", "x y"]),
    ("0006", {"extensionName": n("0006"), "delimiter": ":"}, ["urn:obj:001", "plain-id", "x:y:Z", "a:\u00e9"], ["urn:", "x:y:"]),
    ("0006", {"extensionName": n("0006"), "delimiter": "Edu/"},
     ["https://institution.edu/3448793", "https://institution.EDU/q", "https://institution.edu/abc/edu/f8.05v", "no-delimiter"], ["https://institution.EDU/", "edu/"]),
    ("0007", {"extensionName": n("0007"), "delimiter": ":", "tupleSize": 3, "numberOfTuples": 2, "zeroPadding": "left", "reverseObjectRoot": False},
     ["urn:obj:001", "ns:12", "abc123", "ns:1234567890", "ns: \u007f"],
     ["urn:", "urn:\u00e9", "\u00fcber", "urn:a\u0001b", "\u001f", "ns:12\t"]),     # control characters: fix 970818d
    ("0007", {"extensionName": n("0007"), "delimiter": "edu/", "tupleSize": 4, "numberOfTuples": 2, "zeroPadding": "right", "reverseObjectRoot": True},
     ["https://institution.EDU/3448793", "https://institution.edu/abc/edu/f8.05v", "abc123", "namespace:12887296"], ["x.Edu/", "edu/\u00e9"]),
    # fix dec6d3f: 0007 without config.json and without delimiter = the documented defaults (":", 3 x 3, left, not reversed)
    ("0007", None, ["ns:12", "urn:uuid:12345", "abc123", "plain"], ["urn:", "urn:\u00e9"]),
    ("0007", {"extensionName": n("0007"), "tupleSize": 2}, ["ns:12", "urn:uuid:12345"], ["x:"]),
    # fix 91d5aeb: ids in which lower-casing changes a UTF-8 length or depends on the position in a word
    ("0006", {"extensionName": n("0006"), "delimiter": "edu/"},
     [KELVIN + "edu/kx", IDOT + "edu/xyz", "x" + KELVIN + "EDU/" + IDOT, KELVIN + "no-delimiter"], [IDOT + "edu/", KELVIN + "Edu/"]),
    ("0006", {"extensionName": n("0006"), "delimiter": SIGMA + "/"}, ["a" + SIGMA + "/sx", "a\u03c3/lower", "a\u03c2/final"], ["a" + SIGMA + "/"]),
    ("0006", {"extensionName": n("0006"), "delimiter": "\u00df"}, ["a" + SHARP_S + "b", "a\u00dfc"], ["a" + SHARP_S]),
]
FORBIDDEN = [
    ("0004", {"extensionName": n("0004"), "tupleSize": 3, "numberOfTuples": 0}),
    ("0004", {"extensionName": n("0004"), "digestAlgorithm": "md5", "tupleSize": 6, "numberOfTuples": 6}),
    ("0004", {"extensionName": n("0003")}),
    ("0003", {"extensionName": n("0003"), "tupleSize": 0, "numberOfTuples": 2}),
    ("0003", {"extensionName": n("0003"), "digestAlgorithm": "md6"}),
    ("0006", {"extensionName": n("0006"), "delimiter": ""}),
    ("0006", None),
    ("0007", {"extensionName": n("0007"), "delimiter": ":", "tupleSize": 0, "numberOfTuples": 3}),
    ("0007", {"extensionName": n("0007"), "delimiter": ":", "tupleSize": 33, "numberOfTuples": 3}),
    ("0007", {"extensionName": n("0007"), "delimiter": "", "tupleSize": 3, "numberOfTuples": 3}),
    ("0002", {"extensionName": n("0004")}),
    # fix d1aca14: numbers above 32
    ("0004", {"extensionName": n("0004"), "tupleSize": 33, "numberOfTuples": 1}),
    ("0003", {"extensionName": n("0003"), "digestAlgorithm": "sha512", "tupleSize": 1, "numberOfTuples": 64}),
    ("0004", {"extensionName": n("0004"), "tupleSize": 2 ** 32, "numberOfTuples": 2 ** 32}),
    ("0003", {"extensionName": n("0003"), "tupleSize": 2 ** 64 - 1, "numberOfTuples": 2 ** 64 - 1}),
    # fix a91c61b: shortObjectRoot with the whole digest in the tuples
    ("0004", {"extensionName": n("0004"), "digestAlgorithm": "md5", "tupleSize": 2, "numberOfTuples": 16, "shortObjectRoot": True}),
    ("0004", {"extensionName": n("0004"), "tupleSize": 4, "numberOfTuples": 16, "shortObjectRoot": True}),
    # fix 8478633: a configuration that is a JSON array
    ("0004", [n("0004"), "md5", 2, 2]),
    ("0002", [n("0002")]),
    ("0006", [n("0006"), ":"]),
    ("0007", [n("0007"), ":", 2, 2, "right", True]),
    ("0003", [n("0003")]),
]


def system_level(ctx, vh, stats):
    s = hist.Session(vh)
    terms, meta = [], []
    try:
        for li, entry in enumerate(SYS_LAYOUTS):
            k, cfgv, sys_ids = entry[:3]
            unmappable = entry[3] if len(entry) > 3 else []
            sc = hist.Scratch(ctx, "sys%d" % li)
            layout = {"ext": EXTS[k][1], "config": config_text(cfgv)}
            r = s.call("init", h="A", root=sc.root, staging=None, spec="1.1", layout=layout)
            if "ok" not in r:
                ctx.violation("impl-violation", {"input": {"level": "init", "layout": layout}, "observed": r,
                                                 "expected": "a configuration the documents allow is accepted at init"})
                continue
            ids = list(sys_ids)
            for i, oid in enumerate(ids):
                src = sc.source_file("f%d.txt" % i, b"content of %d\n" % i)
                for cmd in (dict(cmd="new", h="A", id=oid, spec="1.1", alg="sha512", cdir="content", pad=0),
                            dict(cmd="cp_ext", h="A", id=oid, src=[src], dst="f.txt", recursive=False),
                            dict(cmd="commit", h="A", id=oid, name="u", address="mailto:u@example.org", message="m",
                                 created="2021-03-01T10:00:00Z", pretty=False)):
                    r = s.call(cmd)
                    if "ok" not in r:
                        ctx.violation("impl-violation", {"input": {"level": "system", "layout": layout, "cmd": cmd}, "observed": r,
                                                         "expected": "a mappable id can be created and committed"})
                        break
            # where did the objects go?  (model-free scan for 0=ocfl_object_* files)
            where = {}
            for root in hist.find_object_roots(sc.root):
                inv = hist.read_inventory(root)
                if inv is not None:
                    where.setdefault(inv.get("id"), []).append(os.path.relpath(root, sc.root))
            before = hist.snapshot(sc.root)
            # ids the extension cannot map: refused, nothing written
            for oid in unmappable:
                r1 = s.call(dict(cmd="new", h="A", id=oid, spec="1.1", alg="sha512", cdir="content", pad=0))
                src = sc.source_file("u.txt", b"u")
                r2 = s.call(dict(cmd="cp_ext", h="A", id=oid, src=[src], dst="f.txt", recursive=False))
                r3 = s.call(dict(cmd="commit", h="A", id=oid, name="u", address="mailto:u@example.org", message="m",
                                 created="2021-03-01T10:00:00Z", pretty=False))
                after = hist.snapshot(sc.root)
                stats["sys_unmappable"] += 1
                ctx.count(("sys-unmappable", k, oid), nontrivial=True)
                if "ok" in r3 or hist.snap_diff(before, after):
                    ctx.violation("impl-violation", {"input": {"level": "system", "layout": layout, "id": oid},
                                  "observed": {"new": r1, "cp": r2, "commit": r3, "changed": hist.snap_diff(before, after)[:10]},
                                  "expected": "an id the extension cannot map is refused and nothing is written"})
            # case information of the ids and the model/oracle comparison of the directories
            o = run_harness(vh, [{"ext": EXTS[k][1], "config": config_text(cfgv), "ids": ids, "case": True,
                                  "strs": config_strings(cfgv)}])[0]
            infos = dict(zip(config_strings(cfgv), o["case"]["strs"]))
            alg = alg_of(k, cfgv)
            items = []
            for oid, info in zip(ids, o["case"]["ids"]):
                dirs = where.get(oid, [])
                obs = {"ok": dirs[0]} if len(dirs) == 1 else {"panic": "object found at %r" % (dirs,)}
                items.append("(%s, %s, %s)" % (ustr_term(oid, info), coq_str(ALGS[alg](oid.encode("utf-8"))), obs_term(obs)))
                meta.append((k, layout, oid, dirs, o["paths"][len(items) - 1]))
            terms.append("check_layout true %s %s 0 %s" % (EXTS[k][0], raw_term(k, cfgv, infos), coq_list(items)))
            s.call("drop", h="A")

        # init with a forbidden configuration fails and writes nothing
        for fi, (k, cfgv) in enumerate(FORBIDDEN):
            sc = hist.Scratch(ctx, "forb%d" % fi)
            layout = {"ext": EXTS[k][1], "config": config_text(cfgv)}
            r = s.call("init", h="F", root=sc.root, staging=None, spec="1.1", layout=layout)
            stats["sys_forbidden_init"] += 1
            ctx.count(("sys-forbidden", k, layout["config"]), nontrivial=True)
            written = hist.snapshot(sc.root)
            if "ok" in r or written:
                ctx.violation("impl-violation", {"input": {"level": "init", "layout": layout}, "observed": {"result": r, "written": sorted(written)[:10]},
                                                 "expected": "init with a configuration the documents forbid fails and writes nothing"})
                s.call("drop", h="F")

        # a repository whose layout configuration is forbidden or unreadable: opened with no layout assumed (an object
        # committed under the original non-default configuration is still found - by scanning -, and a commit without
        # an explicit object root is refused and writes nothing)
        good = {"extensionName": EXTS["0004"][1], "digestAlgorithm": "sha256", "tupleSize": 2, "numberOfTuples": 2, "shortObjectRoot": False}
        broken = [("tupleSize 3, numberOfTuples 0", json.dumps({"extensionName": EXTS["0004"][1], "tupleSize": 3, "numberOfTuples": 0}).encode()),
                  ("empty file", b""), ("white space only", b" \n"), ("truncated JSON", b'{"extensionName": "0004-hashed'),
                  ("JSON null", b"null"), ("JSON array", json.dumps([EXTS["0004"][1], "sha256", 2, 2, False]).encode()),
                  ("another extension's name", json.dumps(dict(good, extensionName=EXTS["0003"][1])).encode())]
        for bi, (what, data) in enumerate(broken):
            sc = hist.Scratch(ctx, "reopen%d" % bi)
            layout = {"ext": EXTS["0004"][1], "config": json.dumps(good)}
            s.call("init", h="R", root=sc.root, staging=None, spec="1.1", layout=layout)
            src0 = sc.source_file("first.txt", b"first")
            for cmd in (dict(cmd="new", h="R", id="foobar", spec="1.1", alg="sha512", cdir="content", pad=0),
                        dict(cmd="cp_ext", h="R", id="foobar", src=[src0], dst="f.txt", recursive=False),
                        dict(cmd="commit", h="R", id="foobar", name="u", address="mailto:u@example.org", message="m",
                             created="2021-03-01T10:00:00Z", pretty=False)):
                s.call(cmd)
            s.call("drop", h="R")
            had = hist.find_object_roots(sc.root)
            cfgfile = os.path.join(sc.root, "extensions", EXTS["0004"][1], "config.json")
            with open(cfgfile, "wb") as f:
                f.write(data)
            r = s.call("open", h="R", root=sc.root, staging=None)
            g = s.call("get_object", h="R", id="foobar", version=None)
            r1 = s.call(dict(cmd="new", h="R", id="o1", spec="1.1", alg="sha512", cdir="content", pad=0))
            src = sc.source_file("r.txt", b"r")
            s.call(dict(cmd="cp_ext", h="R", id="o1", src=[src], dst="f.txt", recursive=False))
            r3 = s.call(dict(cmd="commit", h="R", id="o1", name="u", address="mailto:u@example.org", message="m",
                             created="2021-03-01T10:00:00Z", pretty=False))
            stats["sys_reopen_forbidden"] += 1
            ctx.count(("sys-reopen", what), nontrivial=True)
            now = hist.find_object_roots(sc.root)
            if "ok" in r3 or sorted(now) != sorted(had) or len(had) != 1 or "ok" not in g:
                ctx.violation("impl-violation", {"input": {"level": "open", "config.json": what},
                              "observed": {"open": r, "get_object of the object committed before": hist.res_class(g), "new": r1,
                                           "commit": r3, "objects before": had, "objects after": now},
                              "expected": "with an unusable config.json no layout is assumed: the existing object is still found, a commit without an explicit object root is refused and writes nothing"})
            s.call("drop", h="R")
    finally:
        s.close()

    res = common.coq_eval("c11sys", IMPORTS, terms, batch=4)
    mi = 0
    for r in res:
        masks = parse_masks(r)
        for pm in masks[1:]:
            k, layout, oid, dirs, fpath = meta[mi]
            mi += 1
            stats["sys_objects"] += 1
            ctx.count(("sys", k, layout["config"], oid), nontrivial=True,
                      sample={"layout": layout, "id": oid, "directory": dirs, "mask": pm})
            inp = {"level": "system", "layout": layout, "id": oid}
            if len(dirs) != 1 or "ok" not in fpath or fpath["ok"] != dirs[0]:
                ctx.violation("impl-violation", {"input": inp, "observed": {"directories": dirs, "map_object_id": fpath},
                              "expected": "the object occupies exactly the directory map_object_id returns"})
            elif not pm & 2:
                ctx.violation("impl-violation", {"input": inp, "observed": dirs,
                              "expected": "the directory the extension document prescribes (LayoutSpec.map)"})
            elif not pm & 4:
                common.corr_break(ctx, "Corr.CheckLayout at system level: inputs_ok fails (UTF-8 / digest / Layout.unicode_ok)", {"input": inp, "mask": pm})
            elif not pm & 1:
                common.corr_break(ctx, "Corr.CheckLayout path_mask at system level", {"input": inp, "observed": dirs, "mask": pm})
    if mi != len(meta):
        common.corr_break(ctx, "system level: the model rejects a configuration init accepted", {"evaluated": mi, "objects": len(meta)})


# --------------------------------------------------------------------------- entry

def run(ctx):
    proof = common.proof_stage(ctx)
    vh = common.build_harness()
    ok, log = common.coq_make(["theories/Corr/CheckLayout.vo"])
    if not ok:
        raise common.BuildError("Corr/CheckLayout.v does not build:\n" + log[-3000:])
    import collections
    stats = collections.Counter()
    function_level(ctx, vh, stats)
    system_level(ctx, vh, stats)
    ctx.coverage["traces_validated_against_impl"] = stats["pairs"] + stats["configs"] + stats["sys_objects"]
    ctx.coverage["distribution"] = dict(sorted(stats.items()))
    ctx.assumptions.append("Unicode case mapping (str::to_lowercase, str::to_uppercase, char::to_lowercase) is taken from the Rust standard library through the harness; it is an input of model and oracle, not modelled; the four facts about it that C11_map_is_spec assumes for 0006/0007 (Layout.unicode_ok: lower-case forms are not empty; a delimiter without case consists of characters that are their own lower-case forms and that no lower-case form of another character begins with; ASCII strings lower-case as ASCII; str::to_lowercase is the per-character mapping except for non-ASCII sigma forms) are evaluated on every generated pair and a failing pair is reported")
    ctx.assumptions.append("the documents only say that the delimiter of 0006/0007 is case-insensitive; LayoutSpec.v reads: a stretch of the id is the delimiter when both have the same lower-case form (per-character lower-casing); the character-by-character reading gives the same result unless a lower-case form has two characters (U+0130), C11_case_readings_agree")
    ctx.assumptions.append("hex digests of ids come from Python hashlib (md5, sha1, sha256, sha512, sha512/256, blake2b-160/256/384/512); the model takes the digest as an argument and checks its length/alphabet")
    ctx.assumptions.append("config.json is compared from its parsed JSON value (object keys the struct knows, positional array form, or 'not a JSON object'); duplicate keys are not generated")
    ctx.assumptions.append("correspondence uses the debug build (a usize overflow would be a panic); since the bound 32 is tested before tupleSize*numberOfTuples is computed the product cannot overflow, and C11_config_release_is_debug proves that the model's release arithmetic (new false) gives the same results")
    return common.finish_with_proof(ctx, proof,
        rule="5 extensions x configuration grid (all 34x34 tupleSize/numberOfTuples pairs for new(); algorithms, shortObjectRoot, 27 delimiters, padding side, reversal, ill-typed, missing-parameter, missing-file and array configs) x id pool (spec examples, percent-needing, 99/100/101-char encodings, 300-byte, shorter than the tuple width, delimiter repeated/at either end/case variants, length-changing case mappings, control chars, '/', '..', random); distinct = distinct (extension, config text, id, outcome class); plus system-level object directories")
