"""C12 - writes stay inside the repository and never land in another object's root.

Stage 1 (proof): Props/C12.v over Model/Footprint.v (path algebra `normalize`, the path computations of rocfl,
  the guard validate_object_root, the per-operation footprint `allowed`, the generating model `gen`).
Stage 2 (correspondence, real CLI under strace, ONE traced process per operation, evaluated inside Coq by
  Corr/CheckFootprint.v): for every traced operation of generated histories - new/cp/mv (external and
  internal)/rm/reset/commit/upgrade/purge on 2-3 benign objects plus hostile ids, destinations,
  content-directory names and --object-root values; layouts 0002, 0003, 0004, 0006, 0007 and none; default
  and external staging root - `check_allowed cfg pre op observed` (every mutating call, failed ones included),
  `check_covers` (generating model vs. trace of the successful fault-free runs), `check_guard` (accept /
  refuse of a new object root), `check_main_root`, `check_paths` (staged root, lock file), `check_hashed`;
  the same for a sample of operations with EIO/ENOSPC/EACCES, SIGKILL and SIGINT injected at sampled calls.
Stage 3 (direct search, model-free): every mutating call's resolved path lies under the storage root or the
  staging root (or is the mkdir of an ancestor of a root, or removes a named source of an external mv); a
  sentinel tree next to and above the two roots is byte-identical before and after; a refused commit of a new
  object changes nothing in the main repository; every object that was valid (rocfl validate AND the
  independent validator vplib/ocflv.py) before a commit / upgrade / purge / mv is valid afterwards unless that
  operation purged it.
"""
import os

from vplib import common, footlib
from vplib import strace as st


def run(ctx):
    proof = common.proof_stage(ctx)
    common.build_rocfl_release()
    common.build_harness()
    ok, log = common.coq_make(["theories/Corr/CheckFootprint.vo"])
    if not ok:
        raise common.BuildError("Corr/CheckFootprint.v does not build:\n" + log[-3000:])
    env = st.rocfl_env(os.path.join(ctx.tmp, "home"))
    quick = ctx.quick()
    plans, out, stats = footlib.run_all(ctx, env, n_worlds=12 if quick else 72, n_random=10 if quick else 30,
                                        with_validity=True, fault_budget=2 if quick else 8)
    footlib.evaluate(ctx, "C12", out, stats)
    ctx.coverage["worlds"] = ["%s/%s" % (l, "ext-missing-parent" if m else ("ext" if e else "default")) for l, e, m in plans]
    ctx.level = "proof"
    ctx.assumptions += [
        "the staging root is the default one (<storage root>/extensions/rocfl-staging) or a user-chosen directory (-s) that is unrelated to the storage root and disjoint from every object root (hypothesis cfg_ok / stg_separate of the theorems); `-s <dir inside an object or equal to the storage root>` is outside the statement",
        "create_dir_all of a staging (or storage) root that does not exist yet also creates its missing ancestor directories: the zone of the theorems and of the oracle admits exactly these mkdir calls outside the two roots",
        "paths are resolved lexically (no symbolic links planted inside the roots by a third party); strace sees every mutating system call (rocfl uses no mmap / io_uring writes)",
        "the storage-root relative root of an id under a layout is taken from the real StorageLayout::map_object_id (harness); its agreement with Model/Layout.v is C11's correspondence; C12_hashed_layouts_safe is stated over Model/Layout.v",
        "the named sources of an external mv: the refusal of sources inside the repository (fix 128b230) decides on fs::canonicalize of the source; the model takes the canonical paths as a second input (o_csrcs, computed by the driver with realpath) and C12_ops_stay_out_of_other_objects assumes o_csrcs = o_srcs (no symbolic link in a named source); sources that reach the repository through symbolic links or `..` spellings are covered by the correspondence and the model-free oracle only",
        "S3 is out of scope",
    ]
    return common.finish_with_proof(
        ctx, proof,
        rule="histories = init; a benign object with two versions; hostile ids (.., ../x, a/b after a, absolute, ., x/../y, prefixes, 300 bytes, quotes, "
             "extensions/..., ':' variants for 0006/0007) each with new [hostile content dir] / cp [hostile destination] / commit [hostile --object-root without layout] "
             "/ purge or reset; purge and reset of never-created ids that map onto other things; then random operations on 3 objects; one traced CLI process per "
             "operation; layouts rotate over 0002 0003 0004 0006 0007 none, default and external staging; sampled operations re-run with a fault / kill / SIGINT at "
             "sampled system calls; distinct = (history, step, injection); non-trivial = the operation made at least one mutating call")
