"""C13 - operations on one object are mutually exclusive and the lock is always released.

Stage 1 (proof): Props/C13.v over Model/Lock.v (interleaving semantics of acquire ; body ; release).
Stage 2 (correspondence, real CLI under strace, evaluated inside Coq by Corr/CheckLock.v):
  coverage half  - every mutating command (new, cp external/internal, mv external/internal, rm,
                   reset <path>, commit, upgrade), successful, failing and fault-injected (EIO, SIGINT,
                   SIGKILL at sampled system calls): the traced calls, abstracted to the events of the
                   model (KAcq/KMut/KRel/KFail), are accepted by the STRICT automaton (lock-table automaton
                   AND one bracket per command: Acq ; Mut* ; Rel and then nothing - exactly one creation and
                   one removal of the lock file, no mutating call below the object's roots before the
                   creation or after the removal, no second acquire) that C13_traces_strictly_bracketed /
                   C13_one_bracket_per_operation prove for every trace of the model; the locks directory
                   is empty after every run that returned.
  exclusion half - two real processes: A is held (strace delay injection) at a sampled system call,
                   B runs to completion meanwhile.  Same object and A inside its body: B is refused with
                   the lock error and the byte snapshot of both roots is unchanged; other object, or A
                   not yet at its acquire: B succeeds; the final tree equals the serial execution of the
                   operations that acquired the lock, in acquire order (reference run in a second
                   scratch repository, inventories compared without their `created` stamps).  The
                   model instance of Corr/CheckLock.v is run under the same schedule and must predict
                   the observed results.  Hold points of A: before its acquire, sampled calls inside, the
                   removal of the lock file held on ENTRY (lock still there) and on EXIT (lock gone, A has
                   not moved on), and every mutating call that follows a lock removal, if the tree under
                   test has one (entry and exit); B in {commit, cp, reset <path>, upgrade}: B must be
                   refused whenever A has begun and is not finished (holds the lock or still makes
                   mutating calls on the object afterwards).  Plus N-way races of whole commands on one object.
  library level  - B through the library harness (error kind LockAcquire) while a CLI process holds the
                   lock; the panic exit path (a debug-build overflow panic inside the body).
Stage 3 (direct search): the model-free oracle on the same runs (index of the lock create < every
  object-touching call < index of the lock unlink; the command's calls on its lock file and object spell
  create, mutations, unlink and nothing else - one bracket; locks directory empty; refused B made no
  mutating call; B refused while A is in the middle of its operation; final state in the set of serial
  results).
"""
import concurrent.futures
import hashlib
import itertools
import json
import os
import shutil
import subprocess
import threading
import time

from vplib import common, hist
from vplib import strace as st

ID_A = "obj-a"
ID_B = "urn:x/ü 1"          # non-ASCII id with a slash and a space: the lock name is sha256 of its UTF-8 bytes
ID_UP = "obj-up"               # OCFL 1.0 object in a 1.1 repository (for upgrade)
ID_ST = "obj-staged"           # staged, never committed
ID_NEW = "obj-new"             # does not exist in the template
ID_S10 = "obj-staged-10"       # OCFL 1.0 object, staged, never committed (upgrade of a never-committed object)


def _prefix_pair():
    """two ids whose sha256 digests share the first n-tuple: their object roots (staging and main, layout
    0004) live below the same first-level directory, which commit removes when it becomes empty"""
    seen = {}
    for n in range(100000):
        i = "p-%d" % n
        h = hashlib.sha256(i.encode()).hexdigest()[:3]
        if h in seen:
            return seen[h], i
        seen[h] = i
    raise RuntimeError("no prefix collision")


ID_P1, ID_P2 = _prefix_pair()    # P1: staged, never committed; P2: does not exist
IDS = [ID_A, ID_B, ID_UP, ID_ST, ID_NEW, ID_P1, ID_P2, ID_S10]
KEY = {i: n + 1 for n, i in enumerate(IDS)}
META = ["-n", "C13", "-a", "mailto:c13@example.org"]


# --------------------------------------------------------------------------- scratch repositories

class Tpl:
    """a template repository (storage root, optional external staging root, source files) that is copied
    for every case; all paths inside are relative to the copy's directory"""

    def __init__(self, ctx, name, ext_staging):
        self.ctx, self.name, self.ext = ctx, name, ext_staging
        self.dir = os.path.join(ctx.tmp, "tpl-" + name)
        self.n = 0
        self.mu = threading.Lock()

    def W(self, tag):
        with self.mu:
            self.n += 1
            n = self.n
        return os.path.join(self.ctx.tmp, "w-%s-%s-%d" % (self.name, tag, n))

    def copy(self, tag):
        w = self.W(tag)
        shutil.copytree(self.dir, w, symlinks=True)
        return w


def root_of(w):
    return os.path.join(w, "root")


def stg_of(w, ext):
    return os.path.join(w, "stg") if ext else None


def cmd(w, ext, *args):
    return st.rocfl_cmd(root_of(w), stg_of(w, ext), *args)


def src(w, name):
    return os.path.join(w, "src", name)


def build_template(ctx, env, name, ext):
    t = Tpl(ctx, name, ext)
    w = t.dir
    os.makedirs(os.path.join(w, "src", "d", "e"))
    files = {"a.txt": b"alpha\n", "b.txt": b"beta\n", "c.txt": b"gamma\n", "n1.txt": b"new one\n",
             "n2.txt": b"new two\n", "m.txt": b"to be moved\n", "d/x.txt": b"x\n", "d/e/y.txt": b"y\n",
             "r0.txt": b"race 0\n", "r1.txt": b"race 1\n", "r2.txt": b"race 2\n", "r3.txt": b"race 3\n"}
    for k, v in files.items():
        with open(src(w, k), "wb") as f:
            f.write(v)

    def run(*args):
        rc, out, err = st.run_plain(cmd(w, ext, *args), env=env, cwd=w)
        if rc != 0:
            raise common.BuildError("template %s: rocfl %s failed: %s" % (name, " ".join(args), err[-500:]))
    run("init")
    for oid, spec in ((ID_A, None), (ID_B, None), (ID_UP, "1.0")):
        run(*(["new"] + (["-v", spec] if spec else []) + [oid]))
        run("cp", oid, src(w, "a.txt"), src(w, "b.txt"), "--", "/")
        run("cp", "-r", oid, src(w, "d"), "--", "d/")
        run("commit", oid, "-m", "v1", "-c", "2021-01-01T00:00:00Z", *META)
    for oid in (ID_A, ID_B):
        run("cp", oid, src(w, "c.txt"), "--", "c.txt")          # staged new file
        run("rm", oid, "b.txt")                                 # staged removal
    for oid in (ID_ST, ID_P1):
        run("new", oid)
        run("cp", oid, src(w, "a.txt"), "--", "a.txt")
    run("new", "-v", "1.0", ID_S10)
    run("cp", ID_S10, src(w, "a.txt"), "--", "a.txt")
    if os.listdir(st.locks_dir(root_of(w), stg_of(w, ext))):
        raise common.BuildError("template %s: lock left behind while building" % name)
    return t


def obj_roots(w, ext, oid):
    return [st.staged_object_root(root_of(w), stg_of(w, ext), oid), os.path.join(root_of(w), st.hashed_ntuple(oid))]


def norm_snapshot(w, ext):
    """byte snapshot of both roots; inventories are compared as parsed JSON without the `created` stamps
    (staged versions are stamped Local::now()), sidecars only by presence"""
    out = {}
    parts = [("root", root_of(w))] + ([("stg", stg_of(w, ext))] if ext else [])
    for label, base in parts:
        for rel, e in hist.snapshot(base).items():
            key = label + "/" + rel
            bn = os.path.basename(rel)
            if bn == "inventory.json" and e[0] == "f":
                try:
                    inv = json.load(open(os.path.join(base, rel), encoding="utf-8"))
                    for v in (inv.get("versions") or {}).values():
                        if isinstance(v, dict):
                            v.pop("created", None)
                            for paths in (v.get("state") or {}).values():      # written in HashSet order
                                if isinstance(paths, list):
                                    paths.sort()
                    for sect in ("manifest", "fixity"):
                        blk = inv.get(sect) or {}
                        for paths in (blk.values() if sect == "manifest" else [p for a in blk.values() if isinstance(a, dict) for p in a.values()]):
                            if isinstance(paths, list):
                                paths.sort()
                    out[key] = ("inv", json.dumps(inv, sort_keys=True))
                except (ValueError, OSError):
                    out[key] = e[:4]
            elif bn.startswith("inventory.json.") and e[0] == "f":
                out[key] = ("sidecar",)
            else:
                out[key] = e[:4]
    return out


def raw_snapshot(w, ext):
    out = {}
    for label, base in [("root", root_of(w))] + ([("stg", stg_of(w, ext))] if ext else []):
        for rel, e in hist.snapshot(base).items():
            out[label + "/" + rel] = e[:4]
    return out


def snap_delta(a, b, limit=8):
    return [(k, a.get(k), b.get(k)) for k in sorted(set(a) | set(b)) if a.get(k) != b.get(k)][:limit]


# --------------------------------------------------------------------------- commands

def op_args(w, name, oid):
    """argument list of a named mutating operation on object `oid` in work directory w"""
    t = {
        "cp": ["cp", oid, src(w, "n1.txt"), "--", "n1.txt"],
        "cp2": ["cp", oid, src(w, "n2.txt"), "--", "same.txt"],
        "cpr": ["cp", "-r", oid, src(w, "d"), "--", "tree/"],
        "cpi": ["cp", "-i", oid, "a.txt", "--", "a-copy.txt"],
        "cpi_staged": ["cp", "-i", oid, "c.txt", "--", "c-copy.txt"],
        "mv": ["mv", oid, src(w, "m.txt"), "--", "m.txt"],
        "mvi": ["mv", "-i", oid, "c.txt", "--", "c-moved.txt"],
        "mvi_old": ["mv", "-i", oid, "a.txt", "--", "a-moved.txt"],
        "rm": ["rm", oid, "a.txt"],
        "rm_staged": ["rm", oid, "c.txt"],
        "rmr": ["rm", "-r", oid, "d"],
        "reset": ["reset", oid, "c.txt"],
        "reset_rm": ["reset", oid, "b.txt"],
        "commit": ["commit", oid, "-m", "second", "-c", "2022-02-02T00:00:00Z"] + META,
        "commit_pretty": ["commit", "-p", oid, "-m", "pretty", "-c", "2022-02-02T00:00:00Z"] + META,
        "new": ["new", oid],
        "new256": ["new", "-d", "sha256", "-z", "3", oid],
        "upgrade": ["upgrade", "-v", "1.1", "-m", "up", "-c", "2022-03-03T00:00:00Z", oid] + META,
        # failing ones (after the lock was taken unless noted)
        "f_cp_missing": ["cp", oid, src(w, "does-not-exist"), "--", "x.txt"],
        "f_cpi_missing": ["cp", "-i", oid, "nope.txt", "--", "y.txt"],
        "f_mvi_missing": ["mv", "-i", oid, "nope.txt", "--", "y.txt"],
        "f_rm_nomatch": ["rm", oid, "nope.txt"],
        "f_reset_nomatch": ["reset", oid, "nope.txt"],
        "f_cp_conflict": ["cp", oid, src(w, "n1.txt"), "--", "a.txt/under-a-file"],
        "f_cp_dir_norec": ["cp", oid, src(w, "d"), "--", "dd"],
        "f_upgrade_down": ["upgrade", "-v", "1.0", oid],
        "f_badargs": ["cp", oid],                                # clap usage error: nothing is touched
        "f_commit_badtime": ["commit", oid, "-c", "yesterday"],
    }
    for i in range(4):
        t["race%d" % i] = ["cp", oid, src(w, "r%d.txt" % i), "--", "same.txt"]
    return t[name]


COVERAGE = [   # (operation, object id)
    ("new", ID_NEW), ("new256", ID_NEW), ("cp", ID_A), ("cp2", ID_B), ("cpr", ID_A), ("cpi", ID_A), ("cpi_staged", ID_A),
    ("mv", ID_A), ("mvi", ID_A), ("mvi_old", ID_B), ("rm", ID_A), ("rm_staged", ID_B), ("rmr", ID_A),
    ("reset", ID_A), ("reset_rm", ID_B), ("commit", ID_A), ("commit_pretty", ID_B), ("commit", ID_ST),
    ("upgrade", ID_UP), ("upgrade", ID_S10), ("cp", ID_ST), ("cp", ID_UP), ("new", ID_P2), ("commit", ID_P1),
    # objects without a staged version: the operation creates it (inside the lock)
    ("rm", ID_UP), ("cpi", ID_UP), ("mvi_old", ID_UP), ("rmr", ID_UP), ("reset_rm", ID_UP),
    # failing
    ("new", ID_A), ("f_cp_missing", ID_A), ("f_cpi_missing", ID_A), ("f_mvi_missing", ID_B), ("f_rm_nomatch", ID_A),
    ("f_reset_nomatch", ID_A), ("f_cp_conflict", ID_A), ("f_cp_dir_norec", ID_A), ("f_upgrade_down", ID_A),
    ("upgrade", ID_A), ("commit", ID_UP), ("commit", ID_NEW), ("cp", ID_NEW), ("rm", ID_NEW), ("reset", ID_NEW),
    ("f_badargs", ID_A), ("f_commit_badtime", ID_A),
]
FAULT_OPS = [("commit", ID_A), ("commit", ID_ST), ("cp", ID_A), ("cpr", ID_B), ("mvi", ID_A), ("rm_staged", ID_A),
             ("reset", ID_B), ("upgrade", ID_UP), ("new", ID_NEW), ("cpi_staged", ID_A), ("mv", ID_B), ("upgrade", ID_S10)]


# --------------------------------------------------------------------------- trace -> events

def lock_names(w, ext):
    return {st.lock_path(root_of(w), stg_of(w, ext), i): i for i in IDS}


def events_of(tr, w, ext, tid=0, extra_keys=None, delay_us=0, mode="enter", info=None):
    """abstract the traced calls to model events: list of (tid, kind, key, ts); and notes.
    ts = time at which the call took effect (entry stamp, plus the injected delay for a call delayed on entry).
    info (dict, optional): info["split"] = number of events that took effect before the command was held by
    the delay injection (mode "enter": the delayed call itself comes after the hold; "exit": before it)"""
    locks = lock_names(w, ext)
    ldir = st.locks_dir(root_of(w), stg_of(w, ext))
    roots = {i: obj_roots(w, ext, i) for i in IDS}
    keys = dict(KEY)
    if extra_keys:
        keys.update(extra_keys)
    evs, notes = [], []
    held_seen = False
    for c in tr.calls:
        if held_seen == "exit":                 # the call delayed on exit has been abstracted: the hold is here
            held_seen = True
            if info is not None:
                info.setdefault("split", len(evs))
        if c.injected and not held_seen:
            held_seen = True if mode == "enter" else "exit"
            if mode == "enter" and info is not None:
                info.setdefault("split", len(evs))
        op = st.abstract_op(c)
        if op is None:
            continue
        if c.injected and delay_us and mode == "enter" and c.ts is not None:
            c.ts += delay_us / 1e6
        paths = [x for x in op[1:] if isinstance(x, str) and x.startswith("/")]
        if op[0] == "symlink":
            paths = [op[2]]
        lk = [p for p in paths if os.path.dirname(p) == ldir and p.endswith(".lock")]
        if lk:
            p = lk[0]
            oid = locks.get(p)
            if oid is None:
                oid = "?" + os.path.basename(p)
                keys.setdefault(oid, 100 + len(keys))
            k = keys[oid]
            if op[0] == "createnew":
                if c.ok:
                    evs.append((tid, "KAcq", k, c.ts))
                elif c.injected:
                    notes.append("acquire failed by injection")
                else:
                    evs.append((tid, "KFail", k, c.ts))
            elif op[0] == "unlink":
                if c.ok:
                    evs.append((tid, "KRel", k, c.ts))
                else:
                    notes.append("lock unlink failed %s" % c.errno)
            else:
                notes.append("lock file touched by %s" % op[0])
                if c.ok:
                    evs.append((tid, "KMut", k, c.ts))
            continue
        if not c.ok:
            continue
        hit = [i for i in IDS if any(st.common_under(p, r) for p in paths for r in roots[i])]
        for i in hit:
            evs.append((tid, "KMut", keys[i], c.ts))
    if info is not None:
        info.setdefault("split", len(evs))
    return evs, notes


def strict_oracle(evs, key, returned):
    """model-free statement 'one bracket per command' on the abstracted calls of ONE command on the object
    with lock key `key`: they spell  A M* R  (A = effective O_EXCL creation of the lock file, M = effective
    mutating call below a root of the object, R = effective removal of the lock file) and nothing else, or the
    single refused creation F, or nothing at all; a killed command: a prefix of that.  Returns None or a message."""
    word = "".join({"KAcq": "A", "KMut": "M", "KRel": "R", "KFail": "F"}[e[1]] for e in evs if e[2] == key)
    na, nr = word.count("A"), word.count("R")
    if na > 1:
        return ("the command created the lock file of its object %d times: it released the lock in the middle of the "
                "operation and took it again (call pattern %s; A = lock created, M = mutating call on the object, "
                "R = lock removed)" % (na, squeeze(word)))
    if nr > 1:
        return "the command removed the lock file of its object %d times (call pattern %s)" % (nr, squeeze(word))
    if "R" in word and word.index("R") < len(word) - 1:
        return ("the command went on after it had released the lock of its object: %d further call(s) on the object or its "
                "lock file follow the removal of the lock file (call pattern %s)" % (len(word) - 1 - word.index("R"), squeeze(word)))
    if "M" in word and ("A" not in word or word.index("M") < word.index("A")):
        return "a mutating call on the object precedes the creation of its lock file (call pattern %s)" % squeeze(word)
    if "F" in word and word != "F":
        return "the command went on after the creation of its lock file was refused (call pattern %s)" % squeeze(word)
    if returned and "A" in word and "R" not in word:
        return "the command returned without removing the lock file it created (call pattern %s)" % squeeze(word)
    return None


def squeeze(word):
    out = []
    for ch, grp in itertools.groupby(word):
        n = len(list(grp))
        out.append(ch if n == 1 else "%s{%d}" % (ch, n))
    return " ".join(out) or "<empty>"


def coq_events(evs):
    return "[" + "; ".join("E %d %s %d" % (t, k, key) for t, k, key, _ in evs) + "]"


def bracket_oracle(tr, w, ext, returned):
    """model-free statement on one trace; returns None or a message"""
    ops = tr.ops
    for i in IDS:
        lock = st.lock_path(root_of(w), stg_of(w, ext), i)
        if not st.lock_bracket_ok(ops, lock, obj_roots(w, ext, i)) and returned:
            return "a mutating call below a root of object %r is not between the creation and the removal of its lock file" % i
        if not returned:
            # killed: every object-touching call so far must come after the lock creation
            roots = obj_roots(w, ext, i)
            idx = [n for n, o in enumerate(ops) if any(isinstance(x, str) and any(st.common_under(x, r) for r in roots) for x in o[1:])]
            if idx and (("createnew", lock) not in ops or ops.index(("createnew", lock)) > min(idx)):
                return "object %r was touched before its lock file was created" % i
    return None


def locks_left(w, ext):
    d = st.locks_dir(root_of(w), stg_of(w, ext))
    return sorted(os.listdir(d)) if os.path.isdir(d) else []


def res_code(rc, stderr, w, ext, oid):
    """0 ok, 3 refused with the lock error (the message names the lock file), 1 any other failure"""
    if rc == 0:
        return 0
    if os.path.basename(st.lock_path(root_of(w), stg_of(w, ext), oid)) in stderr:
        return 3
    return 1


# --------------------------------------------------------------------------- coverage half

def run_coverage_case(tpl, env, opname, oid, inject=None, w=None):
    w = w or tpl.copy("cov")
    argv = cmd(w, tpl.ext, *op_args(w, opname, oid))
    tr = st.trace(argv, env=env, cwd=w, inject=inject, timeout=90)
    evs, notes = events_of(tr, w, tpl.ext)
    returned = not tr.killed
    r = {"tpl": tpl.name, "op": opname, "id": oid, "inject": inject, "rc": tr.rc, "killed": tr.killed,
         "events": evs, "notes": notes, "left": locks_left(w, tpl.ext), "returned": returned,
         "oracle": bracket_oracle(tr, w, tpl.ext, returned), "nmut": sum(1 for e in evs if e[1] == "KMut"),
         "parse_errors": tr.parse_errors[:2], "stderr": tr.stderr[-300:], "points": tr.points,
         "ops": st.fmt_ops(tr.ops, strip=w)[:60], "injected": [repr(c) for c in tr.injected_calls()][:2],
         "lock_point": None, "unlink_point": None, "unlink_points": [], "post_points": [], "timed_out": tr.timed_out}
    r["strict"] = strict_oracle(evs, KEY[oid], returned)
    lock = st.lock_path(root_of(w), stg_of(w, tpl.ext), oid)
    for c in tr.calls:
        if c.pid != tr.main_pid or c.k is None:
            continue
        if r["unlink_point"] is not None:
            r["post_points"].append(c.point)          # mutating calls that follow the (first) removal of the lock file
        if c.path == lock:
            if c.name in ("openat", "open") and r["lock_point"] is None:
                r["lock_point"] = c.point
            if c.name in ("unlink", "unlinkat"):
                r["unlink_points"].append(c.point)
                if r["unlink_point"] is None:
                    r["unlink_point"] = c.point
    shutil.rmtree(w, ignore_errors=True)
    return r


def sample_points(ctx, rec, n):
    """injection points of a recording run: the one before the lock, the first after it, the last before the
    unlink, the unlink itself (kill/stop only) and random ones in between"""
    pts = [tuple(p) for p in rec["points"]]
    if rec["lock_point"] is None or tuple(rec["lock_point"]) not in pts:
        return [], None, None
    li = pts.index(tuple(rec["lock_point"]))
    ui = pts.index(tuple(rec["unlink_point"])) if rec["unlink_point"] and tuple(rec["unlink_point"]) in pts else len(pts)
    inside = pts[li + 1:ui]
    if ctx.quick() and len(inside) > n:
        keep = {0, len(inside) - 1}
        while len(keep) < n:
            keep.add(ctx.rng.randrange(len(inside)))
        inside = [inside[i] for i in sorted(keep)]
    before = pts[li - 1] if li > 0 else None
    return inside, before, (pts[ui] if ui < len(pts) else None)


# --------------------------------------------------------------------------- exclusion half

def serial_reference(tpl, env, seq, cache):
    """run the operations of seq = [(opname, id), ...] one after the other in a fresh copy;
    returns (result codes, normalised snapshot)"""
    key = (tpl.name, tuple(seq))
    if key not in cache:
        w = tpl.copy("ref")
        codes = []
        for opname, oid in seq:
            rc, out, err = st.run_plain(cmd(w, tpl.ext, *op_args(w, opname, oid)), env=env, cwd=w)
            codes.append(res_code(rc, err, w, tpl.ext, oid))
        cache[key] = (codes, norm_snapshot(w, tpl.ext), locks_left(w, tpl.ext))
        shutil.rmtree(w, ignore_errors=True)
    return cache[key]


def run_exclusion_case(tpl, env, a, b, point, phase, kmut_before, namut, trace_b, lib_b=False, delay_us=1500000, mode="enter"):
    """A = (opname, id) held at `point` (mode "enter": before the call takes effect, "exit": after it);
    B = (opname, id) runs meanwhile.  Returns an observation dict."""
    w = tpl.copy("ex")
    ext = tpl.ext
    argv_a = cmd(w, ext, *op_args(w, a[0], a[1]))
    argv_b = cmd(w, ext, *op_args(w, b[0], b[1]))
    obs = {"tpl": tpl.name, "a": a, "b": b, "point": list(point), "phase": phase, "k": kmut_before, "na": namut,
           "achieved": False, "delay_us": delay_us, "lib_b": lib_b, "mode": mode}
    ra = st.start(argv_a, env=env, cwd=w, inject={"when": point, ("delay_us" if mode == "enter" else "delay_exit_us"): delay_us}, timeout=120)
    held = ra.wait_held(stable=0.12, timeout=40)
    t_s1 = time.time()
    s1 = raw_snapshot(w, ext)
    lock_a = st.lock_path(root_of(w), stg_of(w, ext), a[1])
    obs["lock_a_present_before_b"] = os.path.exists(lock_a)
    tb0 = time.time()
    trb = None
    if lib_b:
        s = hist.Session()
        r0 = s.call("open", h="B", root=root_of(w), staging=stg_of(w, ext))
        rb = s.call("cp_ext", h="B", id=b[1], src=[src(w, "n2.txt")], dst="lib.txt", recursive=False)
        s.close()
        obs["b_lib"] = hist.res_class(rb) if "ok" in r0 else "open:" + hist.res_class(r0)
        obs["b_code"] = 0 if "ok" in rb else (3 if obs["b_lib"] == "err:LockAcquire" else 1)
        obs["b_rc"], obs["b_err"] = None, json.dumps(rb)[:300]
    elif trace_b:
        trb = st.trace(argv_b, env=env, cwd=w, timeout=60)
        obs["b_rc"], obs["b_err"] = trb.rc, trb.stderr[-300:]
        obs["b_code"] = res_code(trb.rc, trb.stderr, w, ext, b[1])
    else:
        rc, out, err = st.run_plain(argv_b, env=env, cwd=w, timeout=60)
        obs["b_rc"], obs["b_err"] = rc, err[-300:]
        obs["b_code"] = res_code(rc, err, w, ext, b[1])
    tb1 = time.time()
    s2 = raw_snapshot(w, ext)
    t_s2 = time.time()
    obs["locks_during"] = locks_left(w, ext)
    ta = ra.wait()
    win = ta.held_window(delay_us)
    obs["a_rc"], obs["a_err"] = ta.rc, ta.stderr[-300:]
    obs["a_code"] = res_code(ta.rc, ta.stderr, w, ext, a[1]) if not ta.killed else 4
    obs["achieved"] = bool(held and win and win[0] <= t_s1 and t_s2 <= win[1] and not ta.timed_out)
    obs["window"] = [win, t_s1, tb0, tb1, t_s2]
    obs["during_b_delta"] = snap_delta(s1, s2)
    obs["left"] = locks_left(w, ext)
    obs["final"] = norm_snapshot(w, ext)
    info = {}
    eva, _ = events_of(ta, w, ext, tid=0, delay_us=delay_us, mode=mode, info=info)
    obs["a_events"] = eva
    obs["a_split"] = info["split"]
    obs["a_ops"] = st.fmt_ops(ta.ops, strip=w)[:60]
    acq_a = [e[3] for e in eva if e[1] == "KAcq" and e[2] == KEY[a[1]]]
    obs["a_acq_ts"] = acq_a[0] if acq_a else None
    if trb is not None:
        evb, _ = events_of(trb, w, ext, tid=1)
        obs["b_events"] = evb
        obs["b_oracle"] = bracket_oracle(trb, w, ext, not trb.killed)
        obs["b_effective_ops"] = [o for o in trb.ops if any(isinstance(x, str) and (st.common_under(x, root_of(w)) or (ext and st.common_under(x, stg_of(w, ext)))) for x in o[1:])]
        obs["b_ops"] = st.fmt_ops(trb.ops, strip=w)[:30]
        merged = sorted(eva + evb, key=lambda e: (e[3] or 0))
        obs["merged"] = merged
    shutil.rmtree(w, ignore_errors=True)
    return obs


# --------------------------------------------------------------------------- races

def run_race(tpl, env, ops_, oid):
    """start all commands at once (no tracing); returns codes and the final normalised snapshot"""
    w = tpl.copy("race")
    ext = tpl.ext
    argvs = [cmd(w, ext, *op_args(w, o, oid)) for o in ops_]
    procs = []
    for a in argvs:                       # started by one loop as fast as possible
        procs.append(subprocess.Popen(a, env=env, cwd=w, stdout=subprocess.PIPE, stderr=subprocess.PIPE, text=True))
    res = []
    for p in procs:
        try:
            out, err = p.communicate(timeout=60)
        except subprocess.TimeoutExpired:
            p.kill()
            out, err = p.communicate()
        res.append((p.returncode, err))
    codes = [res_code(rc, err, w, ext, oid) for rc, err in res]
    r = {"tpl": tpl.name, "ops": list(ops_), "id": oid, "codes": codes, "errs": [e[-200:] for _, e in res],
         "left": locks_left(w, ext), "final": norm_snapshot(w, ext)}
    shutil.rmtree(w, ignore_errors=True)
    return r


# --------------------------------------------------------------------------- library: panic exit path

def panic_path(ctx, stats):
    """debug build of the library: zero-padding width 11 makes VersionNum::next overflow (known finding of
    C14) inside the body of the operation that creates the second staged version -> unwinding with the guard"""
    out = []
    sc = hist.Scratch(ctx, "panic")
    s = hist.Session()
    try:
        r = s.call("init", h="P", root=sc.root, staging=None, spec="1.1", layout=hist.LAYOUTS["0004"])
        if "ok" not in r:
            return out
        f = sc.source_file("p.txt", b"p")
        seq = [dict(cmd="new", h="P", id="pan", spec="1.1", alg="sha512", cdir="content", pad=11),
               dict(cmd="cp_ext", h="P", id="pan", src=[f], dst="p.txt", recursive=False),
               dict(cmd="commit", h="P", id="pan", name="n", address="mailto:n@x", message="m", created="2021-01-01T00:00:00Z"),
               dict(cmd="cp_ext", h="P", id="pan", src=[f], dst="q.txt", recursive=False),
               dict(cmd="rm", h="P", id="pan", paths=["p.txt"], recursive=False)]
        ld = st.locks_dir(sc.root, None)
        for c in seq:
            r = s.call(c)
            cls = hist.res_class(r)
            left = sorted(os.listdir(ld)) if os.path.isdir(ld) else []
            out.append({"cmd": c["cmd"], "res": cls, "left": left})
            stats["lib_" + cls.split(":")[0]] = stats.get("lib_" + cls.split(":")[0], 0) + 1
    finally:
        s.close()
        sc.cleanup()
    return out


# --------------------------------------------------------------------------- main

def run(ctx):
    proof = common.proof_stage(ctx)
    common.build_rocfl_release()
    common.build_harness()
    ok, log = common.coq_make(["theories/Corr/CheckLock.vo"])
    if not ok:
        raise common.BuildError("Corr/CheckLock.v does not build:\n" + log[-3000:])
    env = st.rocfl_env(os.path.join(ctx.tmp, "home"))
    quick = ctx.quick()
    rng = ctx.rng
    tpls = [build_template(ctx, env, "int", False), build_template(ctx, env, "ext", True)]
    workers = max(2, min(8, common.NPROC // 2))
    stats = {}
    terms = []       # (coq term, handler)
    IMPORTS = ["Base.Bytes", "Model.Lock", "Corr.CheckLock"]

    def bump(k, n=1):
        stats[k] = stats.get(k, 0) + n

    # ---------------------------------------------------------------- coverage half, fault free
    jobs = []
    for n, (opname, oid) in enumerate(COVERAGE):
        for tpl in (tpls if not quick else [tpls[n % 2]]):
            jobs.append((tpl, opname, oid))
    with concurrent.futures.ThreadPoolExecutor(max_workers=workers) as ex:
        cov = list(ex.map(lambda j: run_coverage_case(j[0], env, j[1], j[2]), jobs))
    recs = {}
    for r in cov:
        recs[(r["tpl"], r["op"], r["id"])] = r
    # ---------------------------------------------------------------- coverage half, fault injected
    fjobs = []
    for n, (opname, oid) in enumerate(FAULT_OPS):
        for tpl in (tpls if not quick else [tpls[(n + 1) % 2]]):
            rec = recs.get((tpl.name, opname, oid))
            if rec is None:
                rec = run_coverage_case(tpl, env, opname, oid)
                cov.append(rec)
                recs[(tpl.name, opname, oid)] = rec
            inside, before, unlink = sample_points(ctx, rec, 3)
            errs = ["EIO", "ENOSPC", "EACCES"]
            for pt in inside + ([before] if before else []) + ([rec["lock_point"]] if rec["lock_point"] else []):
                fjobs.append((tpl, opname, oid, {"when": list(pt), "error": errs[len(fjobs) % 3]}))
            kills = inside[:1] + inside[-1:] + ([unlink] if unlink else [])
            if not quick:
                kills = inside + ([unlink] if unlink else [])
            for pt in kills:
                fjobs.append((tpl, opname, oid, {"when": list(pt), "signal": "SIGKILL"}))
            for pt in (inside[:1] + inside[len(inside) // 2:len(inside) // 2 + 1]) if quick else inside:
                fjobs.append((tpl, opname, oid, {"when": list(pt), "signal": "SIGINT"}))
    with concurrent.futures.ThreadPoolExecutor(max_workers=workers) as ex:
        fcov = list(ex.map(lambda j: run_coverage_case(j[0], env, j[1], j[2], inject=j[3]), fjobs))

    for r in cov + fcov:
        kind = "plain" if not r["inject"] else ("error" if "error" in r["inject"] else r["inject"]["signal"])
        bump("coverage_runs_" + kind)
        bump("coverage_rc_zero" if r["rc"] == 0 else "coverage_rc_nonzero")
        if r["parse_errors"] or r["timed_out"]:
            raise common.BuildError("strace output not understood / timeout: %r" % (r,))
        if r["inject"] and not r["injected"] and not r["killed"]:
            bump("injection_point_not_reached")
        fn = "strict_balanced" if r["returned"] else "strict_prefix_ok"
        terms.append(("%s [%d] %s" % (fn, KEY[r["id"]], coq_events(r["events"])), ("cov", r)))

    # ---------------------------------------------------------------- exclusion half
    pairs_same = [("commit", "cp"), ("cp", "commit"), ("cp", "rm"), ("mvi", "reset"), ("rm_staged", "cpi"),
                  ("commit", "commit"), ("cpr", "mvi"), ("reset", "cp2"), ("cpi_staged", "rm_staged"), ("mv", "commit")]
    ex_jobs = []
    ref_cache = {}

    def add_pair(tpl, a, b, npts, trace_every, lib=False):
        rec = recs.get((tpl.name, a[0], a[1]))
        if rec is None:
            rec = run_coverage_case(tpl, env, a[0], a[1])
            recs[(tpl.name, a[0], a[1])] = rec
        inside, before, unlink = sample_points(ctx, rec, npts)
        cands = [(p, "inside", "enter") for p in inside] + ([(unlink, "inside", "enter")] if unlink else []) + \
                ([(before, "before", "enter")] if before else [])
        cands += release_points(rec, skip_first_enter=True, exits=not quick)
        for n, (pt, phase, mode) in enumerate(cands):
            ex_jobs.append((tpl, a, b, pt, phase, rec, (n % trace_every == 0), lib and phase == "inside" and n == 0, mode))

    def release_points(rec, skip_first_enter=False, exits=True):
        """hold points at and after the release: every removal of the lock file and every mutating call that
        follows a removal (none on a tree that keeps one bracket per operation), held on entry and on exit"""
        unl = [tuple(p) for p in rec["unlink_points"]]
        post = [tuple(p) for p in rec["post_points"] if tuple(p) not in unl]
        if quick and len(post) > 4:
            keep = {0, 1, len(post) - 1}
            while len(keep) < 4:
                keep.add(rng.randrange(len(post)))
            post = [post[i] for i in sorted(keep)]
        out = []
        for n, p in enumerate(unl):
            if not (skip_first_enter and n == 0):
                out.append((p, "release", "enter"))
            if exits or n > 0 or post:
                out.append((p, "release", "exit"))
        for p in post:
            out += [(p, "after-release", "enter"), (p, "after-release", "exit")]
        return out

    def add_release_pairs(tpl, a, bs):
        """A held at / after its release(s), B = each of bs on the same object, always traced"""
        rec = recs.get((tpl.name, a[0], a[1]))
        if rec is None:
            rec = run_coverage_case(tpl, env, a[0], a[1])
            recs[(tpl.name, a[0], a[1])] = rec
        for pt, phase, mode in release_points(rec):
            for b in bs:
                ex_jobs.append((tpl, a, (b, a[1]), pt, phase, rec, True, False, mode))

    for n, (oa, ob) in enumerate(pairs_same if quick else pairs_same + [(b, a) for a, b in pairs_same]):
        tpl = tpls[n % 2]
        add_pair(tpl, (oa, ID_A), (ob, ID_A), 3 if quick else 10 ** 6, 2, lib=(n % 3 == 0))
        add_pair(tpls[(n + 1) % 2], (oa, ID_A), (ob if ob not in ("new",) else "cp", ID_B), 2 if quick else 10 ** 6, 3)
    add_pair(tpls[0], ("new", ID_NEW), ("new256", ID_NEW), 3 if quick else 10 ** 6, 1)
    add_pair(tpls[1], ("upgrade", ID_UP), ("cp", ID_UP), 3 if quick else 10 ** 6, 2)
    # different objects below the same n-tuple directory: commit removes the emptied ancestors that new creates
    add_pair(tpls[0], ("new", ID_P2), ("commit", ID_P1), 4 if quick else 10 ** 6, 2)
    add_pair(tpls[1], ("commit", ID_P1), ("new", ID_P2), 4 if quick else 10 ** 6, 2)
    add_pair(tpls[0], ("cp", ID_UP), ("rm", ID_UP), 2 if quick else 10 ** 6, 1)        # B would have to create the staged version
    add_pair(tpls[1], ("cpi", ID_UP), ("mvi_old", ID_UP), 2 if quick else 10 ** 6, 1)
    add_pair(tpls[0], ("commit", ID_ST), ("cp", ID_ST), 3 if quick else 10 ** 6, 2)
    # `new` of an object that is staged but not committed, held BEFORE it takes the lock, while the staged object is
    # committed: whatever `new` has looked at before the lock must not decide its answer (serial order commit ; new)
    add_pair(tpls[1], ("new", ID_ST), ("commit", ID_ST), 2 if quick else 10 ** 6, 1)
    add_pair(tpls[0], ("new256", ID_ST), ("commit", ID_ST), 2 if quick else 10 ** 6, 1)
    # A held at the removal of its lock file (entry: still locked; exit: released, not yet returned) and at every
    # mutating call that follows a release, B = each of commit / cp / reset <path> / upgrade on the same object
    B4 = ["commit", "cp", "reset", "upgrade"]
    add_release_pairs(tpls[0], ("upgrade", ID_UP), B4)
    add_release_pairs(tpls[1], ("upgrade", ID_S10), B4)
    add_release_pairs(tpls[1], ("commit", ID_A), B4)
    others = [("cp", ID_A), ("mvi", ID_A), ("rm", ID_A), ("reset", ID_A), ("new", ID_NEW), ("mv", ID_B), ("cpi", ID_B),
              ("rm_staged", ID_B), ("cpr", ID_A), ("commit", ID_ST)]
    for n, a in enumerate(others):
        add_release_pairs(tpls[n % 2], a, B4 if not quick else [B4[n % 4]])

    def do_ex(j):
        tpl, a, b, pt, phase, rec, trace_b, lib_b, mode = j
        na = rec["nmut"]
        o = None
        for attempt, d in enumerate((1500000, 3000000, 6000000)):
            o = run_exclusion_case(tpl, env, a, b, tuple(pt), phase, None, na, trace_b, lib_b=lib_b, delay_us=d, mode=mode)
            if o["achieved"]:
                break
        return o

    with concurrent.futures.ThreadPoolExecutor(max_workers=workers) as ex:
        exobs = list(ex.map(do_ex, ex_jobs))

    if exobs and not any(o["achieved"] for o in exobs):
        raise common.BuildError("delay injection did not hold any process inside its window (strace / ptrace not usable?)")
    for o in exobs:
        bump("exclusion_cases")
        if not o["achieved"]:
            bump("exclusion_schedule_not_achieved")
            continue
        a, b = tuple(o["a"]), tuple(o["b"])
        same = a[1] == b[1]
        tpl = [t for t in tpls if t.name == o["tpl"]][0]
        # where A was held: its events (calls that took effect) before and after the hold
        ka = KEY[a[1]]
        pre = [e for e in o["a_events"][:o["a_split"]] if e[2] == ka]
        post = [e for e in o["a_events"][o["a_split"]:] if e[2] == ka]
        k = sum(1 for e in pre if e[1] == "KMut")
        na = k + sum(1 for e in post if e[1] == "KMut")
        acq_pre = sum(1 for e in pre if e[1] == "KAcq")
        rel_pre = sum(1 for e in pre if e[1] == "KRel")
        more = sum(1 for e in post if e[1] in ("KAcq", "KMut"))
        acquired_before_hold = acq_pre > 0 or k > 0          # A has begun
        lock_held = acq_pre > rel_pre                        # the lock file of A's object exists during the hold
        in_progress = acquired_before_hold and (lock_held or more > 0)     # begun and not finished
        midway_unlocked = in_progress and not lock_held      # no schedule of the model looks like this
        o["k"], o["na"], o["acquired_before_hold"] = k, na, acquired_before_hold
        o["lock_held"], o["in_progress"], o["midway_unlocked"], o["more"] = lock_held, in_progress, midway_unlocked, more
        where = "inside" if lock_held else ("midway-unlocked" if midway_unlocked else ("after-release" if acquired_before_hold else "before"))
        o["where"] = where
        bump("exclusion_%s_%s" % ("same" if same else "other", where))
        bump("exclusion_hold_%s_%s" % (o["phase"], o["mode"]))
        if same:
            bump("exclusion_B_%s_%s" % (b[0], where))
        terms_key = ("ex", o)
        # serial reference: the operations that acquired the lock, in acquire order
        b_in = not (same and in_progress and o["b_code"] == 3) and not (o["lib_b"] and o["b_code"] != 0)
        if acquired_before_hold:
            order = [a] + ([b] if b_in else [])
            pos_a, pos_b = 0, (1 if b_in else None)
        else:
            order = ([b] if b_in else []) + [a]
            pos_a, pos_b = (1 if b_in else 0), (0 if b_in else None)
        obs_order = [0 if x == pos_a else 1 for x in range(len(order))]
        o["order"] = order
        o["exp_a"] = o["exp_b"] = None
        o["final_delta"] = []
        if not o["lib_b"] or not b_in:
            ref_codes, ref_snap, ref_left = serial_reference(tpl, env, order, ref_cache)
            o["exp_a"] = ref_codes[pos_a]
            o["exp_b"] = ref_codes[pos_b] if pos_b is not None else None
            o["final_delta"] = snap_delta(ref_snap, o["final"])
        outa = o["exp_a"] or 0
        outb = o["exp_b"] or 0
        # model schedule: A stopped before its acquire / after k data steps inside / after its release (na + 1)
        hold = ("(Some %d)" % (min(k, na) if lock_held else na + 1)) if acquired_before_hold else "None"
        nb = 2
        term2 = "check_two_proc %d %d %d %d %d %d %s %d %d %s" % (
            KEY[a[1]], KEY[b[1]], na, nb, 1 if outa else 0, 1 if outb else 0, hold,
            o["a_code"], o["b_code"], "[" + "; ".join(str(x) for x in obs_order) + "]")
        # (A held with its lock released and work still to do: not a state of the model; reported directly)
        terms.append((term2 if not midway_unlocked else "true", terms_key))
        if "merged" in o:
            terms.append(("strict_balanced [%d; %d] %s" % (KEY[a[1]], KEY[b[1]], coq_events(o["merged"])), ("exm", o)))
            if o["b_code"] == 3:
                terms.append(("only_failed_acquire %s" % coq_events(o["b_events"]), ("exb", o)))

    # ---------------------------------------------------------------- N-way races
    race_jobs = []
    n_races = 16 if quick else 200
    menus = [["race0", "race1"], ["race0", "race1", "race2"], ["race0", "race1", "race2", "race3"],
             ["commit", "cp", "rm"], ["cp", "cp2"], ["commit", "commit"], ["mvi", "reset", "rm_staged"], ["cpi", "rm"]]
    for n in range(n_races):
        race_jobs.append((tpls[n % 2], menus[n % len(menus)], ID_A if n % 4 else ID_B))
    with concurrent.futures.ThreadPoolExecutor(max_workers=workers) as ex:
        races = list(ex.map(lambda j: run_race(j[0], env, j[1], j[2]), race_jobs))
    for r in races:
        bump("races")
        tpl = [t for t in tpls if t.name == r["tpl"]][0]
        winners = [i for i, c in enumerate(r["codes"]) if c != 3]
        bump("race_winners_%d_of_%d" % (len(winners), len(r["codes"])))
        r["match"] = None
        r["winners"] = winners
        if winners and len(winners) <= 4:
            for perm in itertools.permutations(winners):
                seq = [(r["ops"][i], r["id"]) for i in perm]
                codes, snap, left = serial_reference(tpl, env, seq, ref_cache)
                if snap == r["final"] and [codes[perm.index(i)] for i in winners] == [r["codes"][i] for i in winners]:
                    r["match"] = list(perm)
                    break
        if r["match"] is not None and all(r["codes"][i] == 0 for i in winners) and len(set(r["ops"])) == len(r["ops"]):
            terms.append(("check_race %d [%s] [%s]" % (len(r["codes"]), "; ".join(str(i) for i in r["match"]),
                                                      "; ".join(str(c) for c in r["codes"])), ("race", r)))

    # ---------------------------------------------------------------- library: panic path
    pan = panic_path(ctx, stats)

    # ---------------------------------------------------------------- evaluate inside Coq
    res = common.coq_eval("c13", IMPORTS, [t for t, _ in terms]) if terms else []

    def viol(kind_msg, detail):
        ctx.violation("impl-violation", dict(detail, expected=kind_msg))

    for (term, (kind, r)), val in zip(terms, res):
        if kind == "cov":
            inj = r["inject"]
            key = (r["op"], r["id"] == ID_NEW, json.dumps(inj, sort_keys=True) if inj else None, r["rc"] == 0, r["nmut"] > 0)
            ctx.count(key, nontrivial=r["nmut"] > 0,
                      sample={"cmd": "rocfl " + " ".join(op_args("<w>", r["op"], r["id"])), "inject": inj, "rc": r["rc"],
                              "events": [e[:3] for e in r["events"]][:12], "model_accepts": val})
            inp = {"template": r["tpl"], "op": r["op"], "id": r["id"], "args": op_args("<work>", r["op"], r["id"]), "inject": inj}
            msg = r["oracle"] or r["strict"]
            if not msg and r["returned"] and r["left"]:
                unl = r["unlink_point"]
                msg = "lock file left behind after the command returned: %r" % (r["left"],)
            if not msg and r["returned"] and any(n.startswith("lock file touched") for n in r["notes"]):
                msg = "the lock file is not created with O_CREAT|O_EXCL / is modified: %r" % (r["notes"],)
            if msg:
                viol(msg, {"input": inp, "observed": {"rc": r["rc"], "ops": r["ops"], "left": r["left"], "stderr": r["stderr"]}})
            elif val != "true":
                common.corr_break(ctx, "Corr.CheckLock %s (trace of the real command rejected by the model's strict automaton)" % term.split(" ")[0],
                                  {"input": inp, "observed": {"events": [e[:3] for e in r["events"]], "ops": r["ops"]}})
        elif kind == "ex":
            o = r
            a, b = tuple(o["a"]), tuple(o["b"])
            same = a[1] == b[1]
            ctx.count(("ex", a, b, tuple(o["point"]), o["mode"], o["tpl"], o["lib_b"]), nontrivial=True,
                      sample={"A": a, "B": b, "held_at": o["point"], "held_on": o["mode"], "phase": o["where"],
                              "a_code": o["a_code"], "b_code": o["b_code"], "model_agrees": val})
            inp = {"template": o["tpl"], "A": op_args("<work>", *a), "B": op_args("<work>", *b) if not o["lib_b"] else ["library cp_ext", b[1]],
                   "hold_A_at": o["point"], "hold_on": "entry of the call" if o["mode"] == "enter" else "exit of the call (after its effect)",
                   "delay_us": o["delay_us"]}
            msg = None
            if same and o["in_progress"]:
                if o["b_code"] != 3 and o["lock_held"]:
                    msg = "B on the same object was not refused with the lock error while A held the lock (B code %s: %s)" % (o["b_code"], o["b_err"])
                elif o["b_code"] != 3:
                    msg = ("B on the same object was not refused with the lock error although A was in the middle of its operation: "
                           "A had made %d mutating call(s) on the object and released its lock, B ran (B code %s: %s), and A went on "
                           "with %d more call(s) on the object / its lock file (A code %s: %s); the object was unlocked in between"
                           % (o["k"], o["b_code"], o["b_err"].strip()[-160:], o["more"], o["a_code"], o["a_err"].strip()[-160:]))
                elif o["during_b_delta"]:
                    msg = "the refused operation changed the repository: %r" % (o["during_b_delta"],)
                elif o.get("b_effective_ops"):
                    msg = "the refused operation made mutating calls: %r" % (o["b_effective_ops"][:5],)
            else:
                if o["b_code"] == 3:
                    msg = "B was refused although no operation on its object held the lock (%s)" % o["b_err"]
            if not msg and o.get("b_oracle"):
                msg = "B: " + o["b_oracle"]
            if not msg:
                sm = strict_oracle(o["a_events"], KEY[a[1]], o["a_code"] != 4)
                if not sm and "b_events" in o:
                    sm = strict_oracle(o["b_events"], KEY[b[1]], True)
                    sm = sm and "B: " + sm
                msg = sm and ("A: " + sm if not sm.startswith("B: ") else sm)
            if not msg and o["left"]:
                msg = "lock file left behind after both commands returned: %r" % (o["left"],)
            if not msg and o["a_code"] == 3:
                msg = "A was refused although B had returned (%s)" % o["a_err"]
            if not msg and o["exp_a"] is not None:
                if o["exp_a"] != o["a_code"] or (o["exp_b"] is not None and o["exp_b"] != o["b_code"]):
                    msg = "results differ from the serial execution %r: serial A=%s B=%s, concurrent A=%s B=%s" % (
                        o["order"], o["exp_a"], o["exp_b"], o["a_code"], o["b_code"])
                elif o["final_delta"]:
                    msg = "final tree differs from the serial execution %r: %r" % (o["order"], o["final_delta"])
            o["reported"] = bool(msg)
            if msg:
                viol(msg, {"input": inp, "observed": dict({k_: o[k_] for k_ in ("a_code", "b_code", "a_err", "b_err", "left", "during_b_delta")},
                                                          a_calls=o["a_ops"], a_calls_before_hold=o["a_split"], b_calls=o.get("b_ops"))})
            elif val != "true":
                common.corr_break(ctx, "Corr.CheckLock check_two_proc (model schedule vs two real processes)", {"input": inp, "term": term,
                                  "observed": {"a_code": o["a_code"], "b_code": o["b_code"]}})
        elif kind in ("exm", "exb"):
            if val != "true" and not (kind == "exm" and r.get("reported")):
                o = r
                inp = {"template": o["tpl"], "A": op_args("<work>", *o["a"]), "B": op_args("<work>", *o["b"]), "hold_A_at": o["point"]}
                if kind == "exb":
                    viol("the refused operation's trace contains more than the failed lock creation", {"input": inp, "observed": {"b_ops": o.get("b_ops")}})
                else:
                    common.corr_break(ctx, "Corr.CheckLock strict_balanced on the merged trace of A and B", {"input": inp, "term": term[:2000]})
        elif kind == "race":
            if val != "true":
                common.corr_break(ctx, "Corr.CheckLock check_race", {"input": {"ops": r["ops"], "id": r["id"]}, "term": term, "observed": r["codes"]})

    for r in races:
        ctx.count(("race", tuple(r["ops"]), tuple(r["codes"]), r["tpl"]), nontrivial=len(r["winners"]) < len(r["codes"]),
                  sample={"race": r["ops"], "codes": r["codes"], "serial_order_found": r["match"]})
        inp = {"template": r["tpl"], "race": [op_args("<work>", o, r["id"]) for o in r["ops"]]}
        msg = None
        if not r["winners"]:
            msg = "every racing operation was refused"
        elif r["left"]:
            msg = "lock file left behind after the race: %r" % (r["left"],)
        elif r["match"] is None:
            msg = "the outcome of the race equals no serial order of the operations that were not refused"
        if msg:
            viol(msg, {"input": inp, "observed": {"codes": r["codes"], "errs": r["errs"]}})

    npanic = 0
    for p in pan:
        if p["res"] == "panic":
            npanic += 1
        if p["left"]:
            viol("lock file left behind after a library operation returned (%s)" % p["res"],
                 {"input": {"library_sequence": [x["cmd"] for x in pan], "pad": 11}, "observed": pan})
            break
        if p["res"] == "err:LockAcquire":
            viol("a sequential library operation was refused: an earlier operation did not release the lock",
                 {"input": {"library_sequence": [x["cmd"] for x in pan], "pad": 11}, "observed": pan})
            break
    stats["panic_exits_observed"] = npanic
    for p in pan:
        ctx.count(("lib", p["cmd"], p["res"]), nontrivial=True, sample={"library": p})

    ctx.coverage["traces_validated_against_impl"] = len(cov) + len(fcov) + sum(1 for o in exobs if o["achieved"])
    ctx.coverage["distribution"] = stats
    ctx.coverage["coq_terms_evaluated"] = len(terms)
    ctx.level = "proof"
    ctx.assumptions += [
        "partial: the model assumes that the creation of the lock file with O_CREAT|O_EXCL is an atomic test-and-insert and that concurrent executions are interleavings of atomic steps; real parallelism is exercised only by the two-process experiments (B atomic inside A, A held by a strace delay) and the N-way races of this run",
        "the body of an operation is modelled as steps on the data of its own object only; directories shared between objects (n-tuple ancestors of object roots, the staging root's own files) are outside the model and outside the trace predicate",
        "faults are not injected at the unlink of the lock file itself (no implementation can release the lock when that call fails); after SIGKILL the lock legitimately remains (the operation did not return)",
        "the lock-error class of a CLI run is recognised by a non-zero exit status and the lock file's name in the message; through the library harness by the error kind LockAcquire",
        "injectivity of sha256 on object ids is a hypothesis of C13_independent_commute / C13_not_refused_by_other_objects only; mutual exclusion is proved without it",
    ]
    return common.finish_with_proof(ctx, proof,
        rule="coverage: each mutating CLI command x {default, external} staging root, fault free and with EIO/ENOSPC/EACCES, SIGINT, SIGKILL at sampled "
             "(thorough: all) system calls; exclusion: pairs of commands (same / other object) x hold points of A (before the acquire, after it, sampled "
             "inside, at the removal of the lock file on entry and on exit, at every mutating call after a release if there is one) with B in "
             "{commit, cp, reset <path>, upgrade} at the release points; races of 2-4 commands; distinct = distinct (command, injection point, outcome) / (pair, hold point); "
             "non-trivial = the run touched the object (coverage), a lost race, every exclusion case")
