"""C14 - versions advance one at a time and a stale commit is refused.

Stage 1 (proof): Props/C14.v.
Stage 2 (correspondence): VersionNum parse/display/next/previous of the real
  library (debug build, overflow checks on) against the Gallina model, evaluated in Coq.
Stage 3 (direct search): model-free statement of the property on the same outputs.
Stage 4 (multi-client correspondence + search): interleavings of the operations of 2 and 3
  clients (= distinct staging roots on one storage root) driven through the real library
  (one handle per client) and through the release CLI (`rocfl -r ROOT -s STAGING_k`); after
  every step the result class and the abstracted state on disk are compared, inside Coq, with
  Model/MultiClient.v (Corr/CheckMultiClient.v), and a model-free oracle is evaluated
  (vplib/multiclient.py).
"""
import json
import os
import shutil
import subprocess
import tempfile

from vplib import common
from vplib import multiclient as mc
from vplib.common import coq_str


def gen_vnum_cases(ctx):
    rng = ctx.rng
    cases = []
    widths = list(range(0, 13)) + [20, 4294967295]
    nums = set([1, 2, 8, 9, 10, 11, 98, 99, 100, 101, 4294967294, 4294967295])
    for k in range(0, 11):
        for d in (-2, -1, 0, 1):
            x = 10 ** k + d
            if 1 <= x <= 4294967295:
                nums.add(x)
    n_rand = 40 if ctx.quick() else 2000
    for _ in range(n_rand):
        nums.add(rng.randint(1, 4294967295))
        nums.add(rng.randint(1, 100000))
    for w in widths:
        for n in sorted(nums):
            cases.append({"op": "next", "n": n, "w": w})
            if w <= 12:
                cases.append({"op": "display", "n": n, "w": w})
    for n in sorted(nums)[:60]:
        cases.append({"op": "prev", "n": n, "w": 0})
        cases.append({"op": "prev", "n": n, "w": 5})
    strs = ["v1", "v01", "v0", "v00", "v", "", "1", "v-1", "v+1", "v1.0", "V1", "v1 ", " v1", "v١",
            "v4294967295", "v4294967296", "v0004294967295", "v00004294967296", "vv1", "v1v", "v1\n",
            "v000000000000000000000000000001", "v99999999999999999999", "v007", "v10", "v010", "ṽ1", "v1\u0000"]
    for _ in range(60 if ctx.quick() else 3000):
        w = rng.choice([0, 0, 2, 3, 5, 11])
        n = rng.choice(sorted(nums))
        strs.append("v" + str(n).rjust(w, "0"))
        strs.append("v" + "".join(rng.choice("0123456789vx- ") for _ in range(rng.randint(0, 12))))
    for s in strs:
        cases.append({"op": "parse", "s": s})
    # very wide paddings (fix d5a9e2d): Display pads by hand, no format-width limit
    for w in (254, 255, 65535, 65536, 70000, 200000):
        for n in (1, 9, 10, 4294967295):
            cases.append({"op": "display", "n": n, "w": w})
        cases.append({"op": "parse", "s": "v" + "0" * (w - 1) + "7"})
    return cases


def obs_res(o):
    if "ok" in o:
        return "(Ok (mkV %d %d))" % (o["ok"]["n"], o["ok"]["w"])
    if "panic" in o:
        return "Panic"
    return "Err"


def direct_oracle(c, o):
    """model-free statement of the property on one observed result; returns None or a message"""
    U32 = 4294967295
    if c["op"] == "next":
        n, w = c["n"], c["w"]
        mx = U32 if w == 0 else min(U32, 10 ** (w - 1) - 1 if w <= 40 else 10 ** 40)
        if "panic" in o:
            return "VersionNum::next panicked"
        if "ok" in o:
            r = o["ok"]
            if r["n"] != n + 1 or r["w"] != w:
                return "next is not number+1 with the same width"
            if n + 1 > mx:
                return "next went past the largest number the width can express"
        else:
            if n + 1 <= mx:
                return "next refused a representable successor"
    if c["op"] == "display":
        n, w = c["n"], c["w"]
        if "ok" not in o or o["ok"] != "v" + str(n).rjust(w, "0"):
            return "display is not v + zero-padded decimal"
    if c["op"] == "parse":
        import re
        s = c["s"]
        sig = s[1:].lstrip("0")                       # significant digits (the padding can be very long)
        val = (int(sig) if sig else 0) if (re.fullmatch(r"v[0-9]+", s) and len(sig) <= 12) else None
        good = re.fullmatch(r"v[0-9]+", s) is not None and val is not None and 1 <= val <= U32
        if "panic" in o:
            return "parse panicked"
        if good != ("ok" in o):
            return "parse accepted/rejected wrongly"
        if good:
            if o["ok"]["n"] != val or o["ok"]["w"] != (len(s) - 1 if s.startswith("v0") else 0):
                return "parse returned a different number/width"
    return None


# --------------------------------------------------------------------------- multi-client half

MC_IMPORTS = ["Base.Bytes", "Model.MultiClient", "Corr.CheckMultiClient"]
WIDTHS = [0, 2, 3]


def mc_scratch(ctx):
    """scratch base for the interleavings: reachable as ctx.tmp/mc; kept on tmpfs when there is one
    (ext4 here needs 2-3 ms per unlink/rmdir, a hundred times the cost of the operation under test)"""
    link = os.path.join(ctx.tmp, "mc")
    real = None
    if os.path.isdir("/dev/shm") and os.access("/dev/shm", os.W_OK):
        try:
            real = tempfile.mkdtemp(prefix="verif-c14-", dir="/dev/shm")
            os.symlink(real, link)
        except OSError:
            if real:
                shutil.rmtree(real, ignore_errors=True)
            real = None
    if real is None:
        os.makedirs(link, exist_ok=True)
    return link, real


def mc_jobs(ctx):
    """(library jobs, CLI jobs): lists of (key, nclients, ops)"""
    rng = ctx.rng
    quick = ctx.quick()
    sess, cli = [], []
    scen = mc.scenarios(thorough=not quick)
    scen.sort(key=lambda s: -len(s[2]))            # the long runs (width maxima) start first
    for name, n, ops in scen:
        sess.append(("scenario/" + name, n, ops))
        if name != "width-3-maximum" or not quick:
            cli.append(("cli-scenario/" + name, n, ops))
    for name, n, ops in mc.wide_scenarios():
        sess.append(("wide/" + name, n, ops))
        cli.append(("cli-wide/" + name, n, ops))
    # every interleaving of two clients with <= 2 operations each, from five start states
    # (quick: every 3rd / 10th of them, offset drawn from the seed; thorough: all)
    for start in ("S2", "S5", "S0", "S1", "S4"):
        every = 1 if not quick else (3 if start in ("S2", "S5") else 10)
        off = rng.randrange(every)
        for k, (name, ops) in enumerate(mc.exhaustive(start, 2, WIDTHS)):
            if k % every == off:
                sess.append(("exh2/" + name, 2, ops))
    # three operations each: sampled
    for start, n in (("S2", 150 if quick else 12000), ("S4", 100 if quick else 8000), ("S0", 50 if quick else 8000),
                     ("S5", 100 if quick else 6000)):
        for k, (name, ops) in enumerate(mc.sampled(rng, start, 3, WIDTHS, n)):
            sess.append(("smp3/%d/%s" % (k, name), 2, ops))
    # longer random interleavings, two and three clients, one or two object ids, now and then
    # explicit (colliding) commit metadata and other digest algorithms / content directories
    for k in range(250 if quick else 6000):
        ncl = rng.choice([2, 3, 3])
        ids = rng.choice([["o"], ["o"], ["o", "p"]])
        sess.append(("rnd/%d" % k, ncl, mc.random_sequence(rng, ncl, rng.randint(6, 16), ids, [0, 1, 2, 3])))
    for k in range(20 if quick else 600):
        ncl = rng.choice([2, 3])
        cli.append(("cli-rnd/%d" % k, ncl, mc.random_sequence(rng, ncl, rng.randint(6, 14), ["o"], [0, 2, 3])))
    for k, (name, ops) in enumerate(mc.sampled(rng, "S2", 2, WIDTHS, 20 if quick else 600)):
        cli.append(("cli-smp2/%d/%s" % (k, name), 2, ops))
    return sess, cli


def mc_judge(ctx, r, out, stats):
    """one executed interleaving + what Coq answered; records evidence, known hits, violations"""
    steps = r["steps"]
    chk = mc.parse_check(out)
    group = r["key"].split("/", 1)[0]
    stats["groups"][group] = stats["groups"].get(group, 0) + 1
    rcs = [s["rc"] for s in steps]
    for s in steps:
        k = s["op"][0] + ":" + s["rc"]
        stats["ops"][k] = stats["ops"].get(k, 0) + 1
    clients_committing = {s["op"][1] for s in steps if s["op"][0] == "commit"}
    refused_commit = any(s["op"][0] == "commit" and s["rc"] == "err" for s in steps)
    nontrivial = len({s["op"][1] for s in steps}) >= 2 and any(s["op"][0] == "commit" and s["rc"] == "ok" for s in steps)
    if len(clients_committing) >= 2 and refused_commit:
        stats["raced"] += 1
    sample = {"backend": r["kind"], "interleaving": [s["op"] for s in steps], "results": rcs,
              "final_state": steps[-1]["view"] if steps else None, "model_agrees": out}
    ctx.count((r["kind"], [s["op"] for s in steps], rcs), nontrivial=nontrivial, sample=sample)
    detail = {"backend": "library handles (vh hist, debug build)" if r["kind"] == "sess" else "release CLI, one process per operation",
              "clients": r["nclients"], "key": r["key"], "interleaving": [s["op"] for s in steps], "results": rcs}
    wide = group in ("wide", "cli-wide")
    if wide:
        # very wide paddings: must not panic, must not wedge; the operating system's refusals of
        # over-long directory names are not part of the model (no Coq comparison from width 255 on)
        w = steps[0]["op"][3]
        refused = sorted({s["op"][0] for s in steps[:5] if s["rc"] == "err" and s["op"][0] in ("stage", "commit")})
        stats["wide"]["%s width %d" % (r["kind"], w)] = ("refused by the file system: " + ",".join(refused)) if refused else "works end to end"
        tail_bad = [i for i, s in enumerate(steps) if i >= len(steps) - 5 and s["rc"] != "ok"]
        if tail_bad and not any(s["problems"] for s in steps):
            steps[tail_bad[0]]["problems"] = ["staging root or object not usable after reset/purge: %s -> %s"
                                              % (steps[tail_bad[0]]["op"], steps[tail_bad[0]]["rc"])]
    if len(chk) != len(steps):
        common.corr_break(ctx, "Corr.CheckMultiClient.check_run returned %d steps for %d" % (len(chk), len(steps)), detail)
        return
    # commits that repeat the metadata of a version known to someone (explicitly passed metadata):
    # accepted ones are the "indistinguishable history" case - judged like everything else
    for i, s in enumerate(steps):
        if s["op"][0] == "commit" and not chk[i][1]:
            stats["repeated_metadata_commits"] += 1
            if s["rc"] == "ok":
                stats["repeated_metadata_accepted"] += 1
    for i, s in enumerate(steps):
        if not s["problems"]:
            continue
        if stats["violations"] < 8:
            ctx.violation("impl-violation", dict(detail, step=i, operation=s["op"], observed={"result": s["rc"], "detail": s["detail"],
                                                                                                "state_after": s["view"]},
                                                 expected=s["problems"], model_check=out))
        stats["violations"] += 1
        return
    if wide and steps[0]["op"][3] > 254:
        return
    bad = [i for i, c in enumerate(chk) if c[0] != 0]
    if bad:
        i = bad[0]
        if stats["corr"] < 4:
            common.corr_break(ctx, "Corr.CheckMultiClient case (Model/MultiClient.v vs repo.rs/store/fs.rs): step %d code %d "
                                   "(1 result class, 2 main repository, 4 staging)" % (i, chk[i][0]),
                              dict(detail, step=i, operation=steps[i]["op"],
                                   observed={"result": steps[i]["rc"], "state_after": steps[i]["view"]}, model_check=out))
        stats["corr"] += 1


def mc_stage(ctx, vh):
    # the name table of the driver and the one of the checker must be the same table
    tab = common.coq_eval("c14nm", MC_IMPORTS, ["bytes_eqb (nm %d) %s" % (k, coq_str(s)) for k, s in enumerate(mc.NM)])
    if tab != ["true"] * len(mc.NM):
        raise common.BuildError("Corr.CheckMultiClient.nm differs from vplib.multiclient.NM: %r" % (tab,))
    rocfl = common.build_rocfl_release()
    base, real = mc_scratch(ctx)
    try:
        import time
        t0 = time.time()
        sess_jobs, cli_jobs = mc_jobs(ctx)
        res = mc.run_all("sess", vh, os.path.join(base, "s"), sess_jobs)
        t1 = time.time()
        res += mc.run_all("cli", rocfl, os.path.join(base, "c"), cli_jobs)
        t2 = time.time()
    finally:
        if real:
            shutil.rmtree(real, ignore_errors=True)
    outs = common.coq_eval("c14mc", MC_IMPORTS, [r["term"] for r in res], batch=200)
    common.log("C14 multi-client: %d library runs %.0f s, %d CLI runs %.0f s, Coq comparison %.0f s"
               % (len(sess_jobs), t1 - t0, len(cli_jobs), t2 - t1, time.time() - t2))
    stats = {"groups": {}, "ops": {}, "raced": 0, "repeated_metadata_commits": 0, "repeated_metadata_accepted": 0, "violations": 0, "corr": 0, "wide": {}}
    for r, o in zip(res, outs):
        mc_judge(ctx, r, o, stats)
    ctx.coverage["multiclient"] = {
        "interleavings": len(res), "steps": sum(len(r["steps"]) for r in res), "by_group": stats["groups"],
        "operation_results": stats["ops"], "interleavings_with_a_refused_racing_commit": stats["raced"],
        "commits_repeating_known_metadata": stats["repeated_metadata_commits"],
        "commits_repeating_known_metadata_accepted": stats["repeated_metadata_accepted"],
        "violating_interleavings": stats["violations"], "model_disagreements": stats["corr"],
        "very_wide_paddings": stats["wide"],
    }
    return len(res)


def replay(ctx, body):
    """re-run the interleaving of a replay file of the multi-client stage (anything else: full run)"""
    if "interleaving" not in body:
        return run(ctx)
    vh = common.build_harness()
    common.coq_make(["theories/Corr/CheckMultiClient.vo"])
    kind = "cli" if str(body.get("backend", "")).startswith("release") else "sess"
    exe = common.build_rocfl_release() if kind == "cli" else vh
    base, real = mc_scratch(ctx)
    try:
        res = mc.run_all(kind, exe, os.path.join(base, "r"), [("replay", int(body.get("clients", 3)), body["interleaving"])], workers=1)
    finally:
        if real:
            shutil.rmtree(real, ignore_errors=True)
    outs = common.coq_eval("c14mc", MC_IMPORTS, [r["term"] for r in res])
    stats = {"groups": {}, "ops": {}, "raced": 0, "repeated_metadata_commits": 0, "repeated_metadata_accepted": 0, "violations": 0, "corr": 0, "wide": {}}
    mc_judge(ctx, res[0], outs[0], stats)
    for i, s in enumerate(res[0]["steps"]):
        common.log("step %d %r -> %s %s" % (i, s["op"], s["rc"], "; ".join(s["problems"])))
    return ctx.finish(rule="replay of one interleaving")


def build_harness_release():
    """the harness once more with the release profile (overflow checks off): the same VersionNum
    cases must come out the same; common.build_harness() has prepared the crate directory"""
    env = dict(common.CARGO_ENV, RUSTFLAGS="--cfg rocfl_verif -Awarnings")
    rc, out = common.run(["cargo", "build", "--offline", "--quiet", "--release", "--target-dir", common.TARGET],
                         cwd=common.HARNESS, env=env, timeout=3600)
    if rc != 0:
        raise common.BuildError("harness release build failed:\n" + out[-4000:])
    return os.path.join(common.TARGET, "release", "vh")


def padded_form(s):
    """'v000123' -> (3, '123') when the string is v, zeros, digits without leading zero (or a single 0)"""
    import re
    m = re.fullmatch(r"v(0*)([1-9][0-9]*|)", s)
    if not m:
        return None
    return len(m.group(1)), m.group(2)


def vnum_term(c, o, dbg):
    d = "true" if dbg else "false"
    if c["op"] == "next":
        return "check_next %s %d %d %s" % (d, c["n"], c["w"], obs_res(o))
    if c["op"] == "prev":
        return "check_prev %s %d %d %s" % (d, c["n"], c["w"], obs_res(o))
    if c["op"] == "display":
        s = o.get("ok", "")
        pf = padded_form(s) if len(s) > 64 else None
        if pf:
            return "check_display_padded %d %d %d %s" % (c["n"], c["w"], pf[0], coq_str(pf[1]))
        return "check_display %d %d %s" % (c["n"], c["w"], coq_str(s))
    pf = padded_form(c["s"]) if len(c["s"]) > 64 else None
    if pf:
        return "check_parse_padded %d %s %s" % (pf[0], coq_str(pf[1]), obs_res(o))
    return "check_parse %s %s" % (coq_str(c["s"]), obs_res(o))


def run_vnum(exe, cases):
    inp = "\n".join(json.dumps(c) for c in cases) + "\n"
    p = subprocess.run([exe, "vnum"], input=inp, capture_output=True, text=True, timeout=600)
    outs = [json.loads(l) for l in p.stdout.splitlines() if l.strip()]
    if len(outs) != len(cases):
        raise common.BuildError("harness vnum produced %d results for %d cases" % (len(outs), len(cases)))
    return outs


def run(ctx):
    import concurrent.futures
    import time
    t0 = time.time()
    # the three cargo builds (usually no-ops) run beside the proof stage
    with concurrent.futures.ThreadPoolExecutor(max_workers=2) as ex:
        f_h = ex.submit(lambda: (common.build_harness(), build_harness_release()))
        f_r = ex.submit(common.build_rocfl_release)
        proof = common.proof_stage(ctx)
        t1 = time.time()
        vh, vh_rel = f_h.result()
        f_r.result()
    common.log("C14: proof stage %.0f s, waited %.0f s more for the builds" % (t1 - t0, time.time() - t1))
    ok, log = common.coq_make(["theories/Corr/CheckVnum.vo", "theories/Corr/CheckMultiClient.vo"])
    if not ok:
        raise common.BuildError("Corr/CheckVnum.v / CheckMultiClient.v do not build:\n" + log[-3000:])

    cases = gen_vnum_cases(ctx)
    stats = {"next": 0, "prev": 0, "display": 0, "parse": 0, "ok": 0, "err": 0, "panic": 0,
             "former_overflow_class_inputs": 0}
    nviol = 0
    runs = [(True, "debug", run_vnum(vh, cases)), (False, "release", run_vnum(vh_rel, cases))]
    allres = common.coq_eval("c14", ["Base.Bytes", "Model.VersionNum", "Corr.CheckVnum"],
                             [vnum_term(c, o, dbg) for dbg, _, outs in runs for c, o in zip(cases, outs)])
    for k, (dbg, build, outs) in enumerate(runs):
        res = allres[k * len(cases):(k + 1) * len(cases)]
        for c, o, r in zip(cases, outs, res):
            stats[c["op"]] += 1
            stats["ok" if "ok" in o else "panic" if "panic" in o else "err"] += 1
            if c["op"] == "next" and (c["w"] > 10 or c["n"] == 4294967295):
                stats["former_overflow_class_inputs"] += 1        # must-pass since fix 476b184
            small = dict(c, s=c["s"][:40] + "...(%d chars)" % len(c["s"])) if len(c.get("s", "")) > 80 else c
            oshort = {"ok": o["ok"][:40] + "...(%d chars)" % len(o["ok"])} if isinstance(o.get("ok"), str) and len(o["ok"]) > 80 else o
            ctx.count((build, c, sorted(o.keys())), nontrivial=True,
                      sample={"build": build, "case": small, "observed": oshort, "model_agrees": r})
            msg = direct_oracle(c, o)
            if msg:
                if nviol < 8:
                    ctx.violation("impl-violation", {"build": build, "input": small, "observed": oshort, "expected": msg})
                nviol += 1
            elif r != "true":
                # model and implementation disagree although the property holds on this input
                common.corr_break(ctx, "Corr.CheckVnum case (model VersionNum.v vs types.rs, %s build)" % build,
                                  {"input": small, "observed": oshort})
    common.log("C14: VersionNum stage done at %.0f s" % (time.time() - t0))
    n_mc = mc_stage(ctx, vh)
    ctx.coverage["traces_validated_against_impl"] = 2 * len(cases) + n_mc
    ctx.coverage["distribution"] = stats
    ctx.assumptions.append("VersionNum correspondence runs every case through a debug build (overflow checks on) and a release build of the harness; the inputs of the former overflow class (widths above 10, number u32::MAX; fix 476b184) and very wide paddings (fix d5a9e2d) are ordinary must-pass inputs")
    ctx.assumptions.append("padding widths above 254 make the version directory name longer than NAME_MAX: the operating system refuses cp/commit of such an object (observed: nothing changes, reset recovers); this limit is not part of the model, those interleavings are judged by the model-free oracle only")
    ctx.assumptions.append("multi-client model: every operation is atomic (interleavings of whole operations; the clients of the check run one after the other); an object directory is abstracted to (lineage, head, version states) - the lineage token is the model's and the driver's bookkeeping, the code has none")
    return common.finish_with_proof(ctx, proof,
        rule="VersionNum cases: widths 0-12,20,u32::MAX x numbers around every 10^k and u32::MAX plus random; parse strings from a hostile pool plus random; distinct = distinct (input, outcome class). "
             "Multi-client: hand-written scenarios (purge + re-create under a staged copy with fewer/equal/more versions and other widths, 3-client races in every commit order, create/create race, width 1/2/3/11 maxima); "
             "every interleaving of 2 clients x <= 2 operations each from {new, stage, commit, reset, purge} after 5 start states (quick: every 3rd from S2 and S5, every 10th from the others; thorough: all), widths rotating over 0,2,3; "
             "sampled interleavings with 3 operations each; random interleavings of 2-3 clients over 1-2 ids (6-16 steps); scenarios and samples again through the release CLI. "
             "distinct = distinct (backend, operation sequence, result classes); non-trivial = at least two clients act and some commit succeeds")
