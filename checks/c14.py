"""C14 - versions advance one at a time and a stale commit is refused.

Stage 1 (proof): Props/C14.v.
Stage 2 (correspondence): VersionNum parse/display/next/previous of the real
  library (debug build, overflow checks on) against the Gallina model, evaluated in Coq.
Stage 3 (direct search): model-free statement of the property on the same outputs.
"""
import json
import subprocess

from vplib import common
from vplib.common import coq_str


def gen_vnum_cases(ctx):
    rng = ctx.rng
    cases = []
    widths = list(range(0, 13)) + [20, 4294967295]
    nums = set([1, 2, 8, 9, 10, 11, 98, 99, 100, 101, 4294967294, 4294967295])
    for k in range(0, 11):
        for d in (-2, -1, 0, 1):
            x = 10 ** k + d
            if 1 <= x <= 4294967295:
                nums.add(x)
    n_rand = 40 if ctx.quick() else 2000
    for _ in range(n_rand):
        nums.add(rng.randint(1, 4294967295))
        nums.add(rng.randint(1, 100000))
    for w in widths:
        for n in sorted(nums):
            cases.append({"op": "next", "n": n, "w": w})
            if w <= 12:
                cases.append({"op": "display", "n": n, "w": w})
    for n in sorted(nums)[:60]:
        cases.append({"op": "prev", "n": n, "w": 0})
        cases.append({"op": "prev", "n": n, "w": 5})
    strs = ["v1", "v01", "v0", "v00", "v", "", "1", "v-1", "v+1", "v1.0", "V1", "v1 ", " v1", "v١",
            "v4294967295", "v4294967296", "v0004294967295", "v00004294967296", "vv1", "v1v", "v1\n",
            "v000000000000000000000000000001", "v99999999999999999999", "v007", "v10", "v010", "ṽ1", "v1\u0000"]
    for _ in range(60 if ctx.quick() else 3000):
        w = rng.choice([0, 0, 2, 3, 5, 11])
        n = rng.choice(sorted(nums))
        strs.append("v" + str(n).rjust(w, "0"))
        strs.append("v" + "".join(rng.choice("0123456789vx- ") for _ in range(rng.randint(0, 12))))
    for s in strs:
        cases.append({"op": "parse", "s": s})
    return cases


def obs_res(o):
    if "ok" in o:
        return "(Ok (mkV %d %d))" % (o["ok"]["n"], o["ok"]["w"])
    if "panic" in o:
        return "Panic"
    return "Err"


def direct_oracle(c, o):
    """model-free statement of the property on one observed result; returns None or a message"""
    U32 = 4294967295
    if c["op"] == "next":
        n, w = c["n"], c["w"]
        mx = U32 if w == 0 else (10 ** (w - 1) - 1 if w <= 40 else 10 ** 40)
        if "panic" in o:
            return "VersionNum::next panicked"
        if "ok" in o:
            r = o["ok"]
            if r["n"] != n + 1 or r["w"] != w:
                return "next is not number+1 with the same width"
            if n + 1 > mx:
                return "next went past the largest number the width can express"
        else:
            if n + 1 <= mx:
                return "next refused a representable successor"
    if c["op"] == "display":
        n, w = c["n"], c["w"]
        if "ok" not in o or o["ok"] != "v" + str(n).rjust(w, "0"):
            return "display is not v + zero-padded decimal"
    if c["op"] == "parse":
        import re
        s = c["s"]
        good = re.fullmatch(r"v[0-9]+", s) is not None and 1 <= int(s[1:]) <= U32
        if "panic" in o:
            return "parse panicked"
        if good != ("ok" in o):
            return "parse accepted/rejected wrongly"
        if good:
            if o["ok"]["n"] != int(s[1:]) or o["ok"]["w"] != (len(s) - 1 if s.startswith("v0") else 0):
                return "parse returned a different number/width"
    return None


def run(ctx):
    proof = common.proof_stage(ctx)
    vh = common.build_harness()
    ok, log = common.coq_make(["theories/Corr/CheckVnum.vo"])
    if not ok:
        raise common.BuildError("Corr/CheckVnum.v does not build:\n" + log[-3000:])

    cases = gen_vnum_cases(ctx)
    inp = "\n".join(json.dumps(c) for c in cases) + "\n"
    p = subprocess.run([vh, "vnum"], input=inp, capture_output=True, text=True, timeout=600)
    outs = [json.loads(l) for l in p.stdout.splitlines() if l.strip()]
    if len(outs) != len(cases):
        raise common.BuildError("harness vnum produced %d results for %d cases" % (len(outs), len(cases)))

    terms, known_terms = [], []
    for c, o in zip(cases, outs):
        if c["op"] == "next":
            terms.append("check_next true %d %d %s" % (c["n"], c["w"], obs_res(o)))
        elif c["op"] == "prev":
            terms.append("check_prev true %d %d %s" % (c["n"], c["w"], obs_res(o)))
        elif c["op"] == "display":
            terms.append("check_display %d %d %s" % (c["n"], c["w"], coq_str(o.get("ok", ""))))
        else:
            terms.append("check_parse %s %s" % (coq_str(c["s"]), obs_res(o)))
    res = common.coq_eval("c14", ["Base.Bytes", "Model.VersionNum", "Corr.CheckVnum"], terms)

    known_ids = {k["id"] for k in ctx.known}
    stats = {"next": 0, "prev": 0, "display": 0, "parse": 0, "ok": 0, "err": 0, "panic": 0}
    n_known = 0
    for c, o, r in zip(cases, outs, res):
        stats[c["op"]] += 1
        stats["ok" if "ok" in o else "panic" if "panic" in o else "err"] += 1
        ctx.count((c, sorted(o.keys())), nontrivial=True, sample={"case": c, "observed": o, "model_agrees": r})
        msg = direct_oracle(c, o)
        in_known = c["op"] == "next" and (c["w"] > 10 or c["n"] == 4294967295) and "vnum-overflow" in known_ids
        if msg and in_known:
            ctx.known_hit("vnum-overflow")
            n_known += 1
            msg = None
        if msg:
            ctx.violation("impl-violation", {"input": c, "observed": o, "expected": msg})
        elif r != "true":
            # model and implementation disagree although the property holds on this input
            common.corr_break(ctx, "Corr.CheckVnum case (model VersionNum.v vs types.rs)", {"input": c, "observed": o})
    ctx.coverage["traces_validated_against_impl"] = len(cases)
    ctx.coverage["distribution"] = stats
    ctx.assumptions.append("correspondence uses the debug build of the library (overflow checks on); the release-mode wrap is modelled (vnext false) but only the debug mode is compared")
    return common.finish_with_proof(ctx, proof,
        rule="VersionNum cases: widths 0-12,20,u32::MAX x numbers around every 10^k and u32::MAX plus random; parse strings from a hostile pool plus random; distinct = distinct (input, outcome class)")
