"""C15 - an S3 repository behaves exactly like a filesystem repository.

Stage 1 (proof): Props/C15.v (paging independence, join laws, key <-> path bijection,
  prefix_offset exactness for every prefix value the caller may give: S3Client::new trims
  trailing slashes, s3.rs:793, /repo commit 1405318).
Stage 2 (direct search): the same generated histories are driven through the real library on a
  filesystem repository and on the in-process S3 stand-in (bucket root / nested prefix / prefix
  spelled with trailing slashes, only slashes, a leading slash, an inner double slash: all of
  them MUST behave like the filesystem - the former known finding prefix-trailing-slash is now
  the regression test of its repair; listing page sizes 1, 2, 3, 1000; files on both sides of
  the 5 MiB multipart threshold) and compared: result class of every step, key set = file set,
  bytes (inventories as JSON values, sidecars against their inventory), every read-API answer.
  For the slash-spelled prefixes the filesystem repository is opened under a root path spelled
  with the same trailing slashes ("the same path on the file system").  Flat layouts (0002,
  0006, explicit roots without layout) with object roots that are string prefixes of one another
  (obj1 / obj10 / obj1-copy) are purged and re-created: a recursive listing of `obj1`
  must not reach `obj10/...`.  Object roots that both stores must refuse for a new object (nested
  within another object, within extensions/, with a `..` part; S3 since /repo commit 1c63a11).
Stage 3 (correspondence): the Gallina model (Model/S3.v) is evaluated on the observed bucket dumps:
  the InventoryIter scan with its exact ListObjectsV2 request sequence (continuation tokens
  included), the listing server, paging, keys of the filesystem tree and back, purge_object (the DELETE
  requests in order and the bucket afterwards), validate_object_root of a new object.
"""
import concurrent.futures
import hashlib
import json
import os

from vplib import common, hist, s3stub
from vplib.common import coq_str, coq_list, coq_bool, coq_opt

MIB5 = 5 * 1024 * 1024


def prefix_shape(prefix):
    """class of a prefix spelling, for the input distribution"""
    if not prefix:
        return "none"
    t = []
    if not prefix.strip("/"):
        return "only-slashes"
    if prefix.endswith("//"):
        t.append("trailing-slashes")
    elif prefix.endswith("/"):
        t.append("trailing-slash")
    if prefix.startswith("/"):
        t.append("leading-slash")
    if "//" in prefix.strip("/"):
        t.append("inner-double-slash")
    return "+".join(t) or "plain"


def trailing_slashes(prefix):
    prefix = prefix or ""
    return prefix[len(prefix.rstrip("/")):]


def big(n):
    pat = bytes(range(1, 252))
    return (pat * (n // len(pat) + 1))[:n]


MARKERS = {"big5": lambda: big(MIB5), "big5p1": lambda: big(MIB5 + 1), "big11": lambda: big(2 * MIB5 + 777)}


def content_bytes(c):
    """content spec -> bytes: index into hist.CONTENTS, marker name, or [spec, j] = the j-th
    occurrence of that content within one staged version (made distinct, see resolve)"""
    if isinstance(c, (list, tuple)):
        base, j = c
        return content_bytes(base) + (b"#%d" % j if j else b"")
    if isinstance(c, str):
        return MARKERS[c]()
    return hist.CONTENTS[c]


def resolve(op, occ):
    """commit keeps an arbitrary one of several new files with equal content (dedup_head iterates a
    std HashSet, inventory.rs:339-349), so two runs of one history need not store the same content
    paths.  That choice is not what C15 is about: within one staged version every further occurrence
    of a content gets a distinguishing suffix; equal contents across versions are kept."""
    def conv(c):
        if isinstance(c, (list, tuple)):
            return list(c)
        k = (op["id"], str(c))
        j = occ.get(k, 0)
        occ[k] = j + 1
        return [c, j]
    o = dict(op)
    if "files" in o:
        o["files"] = [[n, conv(c)] for n, c in o["files"]]
    if "dir" in o:
        dn, files = o["dir"]
        o["dir"] = [dn, {k: conv(files[k]) for k in sorted(files)}]
    return o


def staged_duplicates(runner, oid):
    """does the staged version of the object hold one content under several new content paths?
    (then dedup_head / lookup_staged_digest_and_content_path choose by HashSet order)"""
    for d, dirs, files in os.walk(runner.staging_root):
        if "inventory.json" in files and any(f.startswith("0=ocfl_object_") for f in files):
            dirs[:] = []
            try:
                inv = json.load(open(os.path.join(d, "inventory.json"), encoding="utf-8"))
            except (OSError, ValueError):
                continue
            if inv.get("id") != oid:
                continue
            pre = str(inv.get("head")) + "/"
            for paths in inv.get("manifest", {}).values():
                if sum(1 for p in paths if p.startswith(pre)) > 1:
                    return True
    return False


def materialise(op):
    """replace content specs by bytes (kept symbolic in replay files)"""
    o = dict(op)
    if "files" in o:
        o["files"] = [[n, content_bytes(c)] for n, c in o["files"]]
    if "dir" in o:
        dn, files = o["dir"]
        o["dir"] = [dn, {k: content_bytes(v) for k, v in files.items()}]
    return o


# --------------------------------------------------------------------------- observation of one repository

def canon_json(x):
    """inventory as a JSON value; the path arrays of manifest / state / fixity are sets (the
    library fills them from HashSets, their order varies from run to run)"""
    if isinstance(x, dict):
        return {k: canon_json(v) for k, v in x.items()}
    if isinstance(x, list):
        l = [canon_json(v) for v in x]
        return sorted(l) if all(isinstance(v, str) for v in l) else l
    return x


def canon_token(rel, data):
    """content token of a stored file: inventories by JSON value, everything else by bytes"""
    name = rel.rsplit("/", 1)[-1]
    if name == "inventory.json":
        try:
            return "J" + hashlib.sha256(json.dumps(canon_json(json.loads(data.decode("utf-8"))), sort_keys=True).encode()).hexdigest()[:20]
        except ValueError:
            pass
    return "B" + hashlib.sha256(data).hexdigest()[:20]


def sidecar_problem(files, rel):
    """a sidecar must hold the digest of the inventory it accompanies"""
    d, _, name = rel.rpartition("/")
    alg = name[len("inventory.json."):]
    inv = files.get((d + "/" if d else "") + "inventory.json")
    if inv is None:
        return "sidecar without inventory"
    try:
        h = hashlib.new(alg, inv).hexdigest()
    except ValueError:
        return None
    txt = files[rel].decode("utf-8", "replace")
    parts = txt.split()
    if len(parts) != 2 or parts[0].lower() != h or parts[1] != "inventory.json":
        return "sidecar %s does not match its inventory" % rel
    return None


def fs_files(root):
    out, empty_dirs = {}, []
    for d, dirs, fs in os.walk(root):
        if not dirs and not fs and d != root:
            empty_dirs.append(os.path.relpath(d, root))
        for f in fs:
            p = os.path.join(d, f)
            out[os.path.relpath(p, root)] = open(p, "rb").read()
    return out, empty_dirs


def compare_stores(fsf, s3f):
    """model-free: same names, same bytes (inventories as JSON), sidecars fit; returns message or None"""
    a, b = set(fsf), set(s3f)
    if a != b:
        return "key set differs from file set: only on fs %r, only on s3 %r" % (sorted(a - b)[:5], sorted(b - a)[:5])
    for rel in sorted(a):
        name = rel.rsplit("/", 1)[-1]
        if name.startswith("inventory.json."):
            for side, files in (("fs", fsf), ("s3", s3f)):
                m = sidecar_problem(files, rel)
                if m:
                    return "%s: %s" % (side, m)
            if fsf[rel].split()[1:] != s3f[rel].split()[1:]:
                return "sidecar format differs at %s" % rel
        elif canon_token(rel, fsf[rel]) != canon_token(rel, s3f[rel]):
            return "content differs at %s" % rel
    return None


def norm_path(p, base):
    if isinstance(p, str) and base and p.startswith(base + "/"):
        return p[len(base) + 1:]
    if isinstance(p, str) and base and p == base:
        return ""
    return p


def norm_value(cmd, r, base):
    """comparable form of a harness answer (error class only; no message texts; storage paths
    relative to the storage root)"""
    if "ok" not in r:
        return hist.res_class(r)
    v = r["ok"]

    def ovd(o):
        o = dict(o)
        o["object_root"] = norm_path(o.get("object_root"), base)
        if "state" in o:
            o["state"] = {k: dict(x, storage_path=norm_path(x["storage_path"], base)) for k, x in o["state"].items()}
        return o

    def vres(x):
        return {"errors": sorted([e[0], e[1]] for e in x["errors"]), "warnings": sorted([w[0], w[1]] for w in x["warnings"]),
                "id": x.get("id"), "path": x.get("path")}
    if cmd in ("get_object", "get_object_details"):
        return ovd(v)
    if cmd == "list_objects":
        return sorted((json.dumps(ovd(i["ok"]), sort_keys=True) if "ok" in i else hist.res_class(i)) for i in v)
    if cmd == "validate_object":
        return vres(v)
    if cmd == "validate_repo":
        return {"root": vres(v["root"]), "hierarchy": vres(v["hierarchy"]),
                "objects": sorted((json.dumps(vres(o["ok"]), sort_keys=True) if "ok" in o else hist.res_class(o)) for o in v["objects"])}
    if cmd == "describe_repo":
        return {"spec": v["spec"], "layout": v["layout"], "extensions": sorted(v["extensions"])}
    if cmd == "describe_object":
        return {"spec": v["spec"], "alg": v["alg"], "extensions": sorted(v["extensions"])}
    if cmd == "cat":
        return {"len": v["len"], "sha256": v["sha256"]}
    if cmd == "diff":
        return sorted(json.dumps(x, sort_keys=True) for x in v)      # the library iterates a HashMap
    return v


def read_api(r, ids, base):
    out = {}

    def call(**kw):
        cmd = kw["cmd"]
        return norm_value(cmd, r.s.call(dict(kw, h=r.h)), base)
    out["describe_repo"] = call(cmd="describe_repo")
    out["list_objects"] = call(cmd="list_objects")
    out["list_objects:glob"] = call(cmd="list_objects", glob="*[-:]0*")
    for oid in ids:
        head = r.s.call(dict(cmd="get_object", h=r.h, id=oid, version=None))
        out["get:%s:head" % oid] = norm_value("get_object", head, base)
        out["details:%s" % oid] = call(cmd="get_object_details", id=oid, version=None)
        out["describe:%s" % oid] = call(cmd="describe_object", id=oid)
        out["versions:%s" % oid] = call(cmd="versions", id=oid)
        out["validate:%s" % oid] = call(cmd="validate_object", id=oid, fixity=True)
        if "ok" not in head:
            continue
        n = head["ok"]["details"]["num"]
        for p in sorted(head["ok"]["state"]):
            out["file_versions:%s:%s" % (oid, p)] = call(cmd="file_versions", id=oid, path=p)
        for v in range(1, n + 1):
            g = r.s.call(dict(cmd="get_object", h=r.h, id=oid, version=v))
            out["get:%s:%d" % (oid, v)] = norm_value("get_object", g, base)
            out["diff:%s:%d" % (oid, v)] = call(cmd="diff", id=oid, left=(v - 1 if v > 1 else None), right=v)
            if "ok" in g:
                for p in sorted(g["ok"]["state"]):
                    out["cat:%s:%d:%s" % (oid, v, p)] = call(cmd="cat", id=oid, version=v, path=p)
    out["validate_repo"] = call(cmd="validate_repo", fixity=True)
    return out


def first_diff(a, b):
    for k in sorted(set(a) | set(b)):
        if a.get(k) != b.get(k):
            return "read API differs at %s: fs %s / s3 %s" % (k, json.dumps(a.get(k), sort_keys=True)[:300], json.dumps(b.get(k), sort_keys=True)[:300])
    return None


# --------------------------------------------------------------------------- plan

def plan(ctx):
    rng = ctx.rng
    quick = ctx.quick()
    n_hist = 6 if quick else 60
    cfgs = hist.configurations(rng, n_hist)
    pages = [1, 2, 3, 1000]
    cases = []
    for i, cfg in enumerate(cfgs):
        cfg = dict(cfg, ext_staging=True)
        ops = hist.gen_history(rng, cfg, 26 if quick else 40, n_objects=2)
        if i % 6 == 1 or (not quick and i % 6 == 4):
            # files on both sides of the multipart threshold, in an object of their own (cost: a few histories only)
            oid = hist.obj_id(cfg, 7)
            bigops = [{"op": "new", "id": oid},
                      {"op": "cp_ext", "id": oid, "files": [["big-exact.bin", "big5"]], "dst": "big/exact.bin", "recursive": False},
                      {"op": "cp_ext", "id": oid, "files": [["big-plus1.bin", "big5p1"]], "dst": "big/plus1.bin", "recursive": False},
                      {"op": "commit", "id": oid}]
            if not quick:
                bigops += [{"op": "cp_ext", "id": oid, "files": [["big-11.bin", "big11"]], "dst": "big11.bin", "recursive": False},
                           {"op": "commit", "id": oid}]
            ops = ops[:8] + bigops + ops[8:]
        variants = []
        if quick:
            variants.append((None, pages[i % 4]))
            # full histories under plain prefixes and under the same prefixes spelled with trailing slashes
            variants.append((["p", "pre/fix", "p/", "pre/fix//", "/p", "pre/fix"][i % 6], pages[(i + 1 + i // 4) % 4]))
        else:
            slashed = ["q/", "nested/pre//", "/", "/lead/ing", "in//ner/", "//"][i % 6]
            for j, pfx in enumerate([None, "nested/pre/fix", "p", slashed]):
                for ps in pages:
                    if j == 3 and ps not in (pages[i % 4], pages[(i + 2) % 4]):
                        continue                     # the slash-spelled prefix: two page sizes per history
                    if (i + j + ps) % 3 != 0 or ps == pages[(i + j) % 4]:
                        variants.append((pfx, ps))
        cases.append({"idx": i, "cfg": cfg, "ops": ops, "variants": variants})
    # prefix spellings with slashes at the ends (the trailing ones are trimmed by S3Client::new, s3.rs:793;
    # until /repo commit 1405318 they were the known finding prefix-trailing-slash): a scripted preamble that
    # commits two versions of one object, commits and purges a second one, then a short generated history;
    # the filesystem side is opened under a root spelled with the same trailing slashes
    spellings = ["pre/", "a/b//", "/", "/pre", "//x/y/", "p//q/", "x///", "//", "/pre/", "ü/"]
    for j, pfx in enumerate(spellings):
        cfg = dict(cfgs[(j + 1) % len(cfgs)], ext_staging=True, fresh_handle=(j % 3 == 2))
        a, c = hist.obj_id(cfg, 5), hist.obj_id(cfg, 6)
        ops = [{"op": "new", "id": a},
               {"op": "cp_ext", "id": a, "files": [["a.txt", 2]], "dst": "a.txt", "recursive": False},
               {"op": "cp_ext", "id": a, "files": [["c.txt", 3]], "dst": "dir/sub/c.txt", "recursive": False},
               {"op": "commit", "id": a},
               {"op": "new", "id": c},
               {"op": "cp_ext", "id": c, "files": [["b.txt", 1]], "dst": "b.txt", "recursive": False},
               {"op": "commit", "id": c},
               {"op": "cp_ext", "id": a, "files": [["d.txt", 4]], "dst": "dir/d.txt", "recursive": False},
               {"op": "commit", "id": a},
               {"op": "purge", "id": c}]
        ops += hist.gen_history(rng, cfg, 8 if quick else 20, n_objects=2)
        cases.append({"idx": 1000 + j, "cfg": cfg, "ops": ops, "variants": [(pfx, [2, 1000, 1, 3][j % 4])],
                      "fs_suffix": trailing_slashes(pfx)})
    # object roots of which one is a proper STRING prefix of others (only flat layouts and explicit roots
    # produce them): a recursive listing / purge of `obj1` must leave `obj10/...`, `obj1-copy/...` ('-' sorts
    # before '/', '0' after it) alone, as remove_dir_all of one directory does.  Purge, re-create, validate
    # (final read API) and listings are in every such history.
    for j, (lay, pool, roots) in enumerate(OVERLAP):
        base_cfg = next((c for c in cfgs if c["layout"] == lay), None)
        if base_cfg is None:
            continue
        cfg = dict(base_cfg, ext_staging=True, fresh_handle=(j == 1))
        ops = overlap_history(rng, cfg, pool, roots, 10 if quick else 30)
        if quick:
            variants = [(None, [1, 2, 1000][j % 3]), ("nested/pre", [2, 1000, 1][j % 3])]
        else:
            variants = [(pfx, ps) for pfx in (None, "nested/pre", "t/") for ps in (1, 2, 1000)]
        cases.append({"idx": 2000 + j, "cfg": cfg, "ops": ops, "variants": variants, "overlap": True})
    # object roots that BOTH stores must refuse for a new object (FsOcflStore::validate_object_root, fs.rs:158-204;
    # S3OcflStore::validate_object_root, s3.rs:242-274, /repo commit 1c63a11 - before it S3 accepted them): nested
    # within another object, within extensions/, with a `..` part; ids whose mapped root is a plain directory or lies
    # inside another object (fs since 01aa490 answers NotFound like S3); purges of ids that were never created and are
    # mapped onto / into / above other objects (S3 guards since 900305c - before it S3 deleted those objects).
    # Must-pass: same result class at every step, equal stores, equal read API.
    sets = [(3000, refused_root_histories()), (3500, guarded_purge_histories())]
    if os.environ.get("VERIF_C15_UNNORMALISED"):
        # outside the hypothesis "object roots are normalised relative paths" (see unnormalised_root_histories);
        # with the variable set they run as ordinary inputs and each one is reported as a VIOLATION with its replay file
        sets.append((4000, unnormalised_root_histories()))
    for first, histories in sets:
        for j, (lay, ops, root) in enumerate(histories):
            base_cfg = next((c for c in cfgs if c["layout"] == lay), None)
            if base_cfg is None:
                continue
            cfg = dict(base_cfg, ext_staging=True, fresh_handle=False, cdir="content")
            cases.append({"idx": first + j, "cfg": cfg, "ops": ops, "variants": [([None, "nested/pre"][j % 2], [1000, 2][j % 2])],
                          "watch_root": root, "guards": True})
    return cases


def _mk(oid, k=1, name="a.txt", root=None):
    c = {"op": "commit", "id": oid}
    if root:
        c["object_root"] = root
    return [{"op": "new", "id": oid}, {"op": "cp_ext", "id": oid, "files": [[name, k]], "dst": name, "recursive": False}, c]


def refused_root_histories():
    """(layout, ops, root of the object the LAST op tries to create)"""
    mk = _mk
    return [("0002", mk("obj1") + mk("obj1/sub", 2), "obj1/sub"),
            ("0002", mk("coll/obj2") + mk("coll/obj2/x/y", 2), "coll/obj2/x/y"),
            ("0002", mk("extensions/e1"), "extensions/e1"),
            ("0002", mk("../out"), "../out"),
            ("0002", mk("coll/obj2") + mk("coll/obj3", 2), "coll/obj3"),
            ("none", mk("o1", 1, root="objs/o1") + mk("o2", 2, root="objs/o1/sub"), "objs/o1/sub"),
            ("none", mk("o1", 1, root="../x"), "../x"),
            ("none", mk("o1", 1, root="extensions/x"), "extensions/x"),
            ("0002", mk("/a"), "/a"),                                              # leading slash: refused alike since /repo commit 2517003
            ("0002", mk("obj1/sub") + mk("obj1", 2), "obj1"),
            ("0002", mk("obj1") + mk("obj1/v1/content", 2), "obj1/v1/content")]


def guarded_purge_histories():
    """commit X, then purge an id Y that was never created and whose layout-mapped root is related to X's root; then
    purge X itself (which must still work) and a later re-creation"""
    mk = _mk
    pu = lambda oid: [{"op": "purge", "id": oid}]
    return [("0002", mk("coll/obj1") + pu("coll") + pu("coll/obj1") + mk("coll", 3), None),   # directory other objects are stored beneath
            ("0002", mk("obj1") + pu("obj1/v1") + pu("obj1"), None),                           # path inside another object
            ("0002", mk("obj1") + pu("obj1/") + pu("/obj1") + pu("obj1"), None),                            # another id, same root after trimming
            ("0002", mk("obj1") + pu("extensions") + pu("extensions/0002-flat-direct-storage-layout"), None),
            ("0002", mk("obj1") + pu("../obj1") + pu("x/../../y"), None),
            ("0006", mk("urn:obj:1") + pu("other:1") + pu("urn:obj:1") + mk("other:1", 2), None),   # two ids, one root
            ("0007", mk("urn:obj:001") + pu("zzz:001") + pu("urn:obj:001"), None),
            ("0002", mk("obj1/sub") + mk("obj1", 2) + pu("obj1") + pu("obj1/sub"), None)]     # staged-only id above another object


def unnormalised_root_histories():
    """HYPOTHESIS of C15 as decided by the lead: object roots are normalised relative paths (no empty and no `.` part).
    Outside it the stores differ on /repo HEAD 01aa490; run with VERIF_C15_UNNORMALISED=1 to see each as a violation:
    the file-system store normalises such roots (Path::components) and stores the object at a/b resp. x, the S3 store
    refuses them (validate_object_root, s3.rs:249-255) - layout 0002 ids `a//b`, `./x`, `a/./b`, explicit roots `a//b`, `./x`;
    an id with a trailing slash under layout 0002 (`a/b/`) is stored alike at a/b by both, but the file-system store
    reports object_root `a/b/` and storage paths `a/b//v1/...` where S3 reports `a/b` and `a/b/v1/...`;
    the ids `.` and `obj1/..` under layout 0002 (the path resolves to the storage root): purge is refused alike, but
    validate_object validates the storage root itself as an object on the file system (E003, E063) and answers NotFound on S3.
    (Roots with a `..` part are refused alike for create and purge: those inputs are in the must-pass sets.)"""
    mk = _mk
    pu = lambda oid: [{"op": "purge", "id": oid}]
    return [("0002", mk("a//b"), "a//b"), ("0002", mk("./x"), "./x"), ("0002", mk("a/./b"), "a/./b"), ("0002", mk("a/b/"), None),
            ("none", mk("o1", 1, root="a//b"), "a//b"), ("none", mk("o1", 1, root="./x"), "./x"),
            ("0002", mk("obj1") + pu("."), None), ("0002", mk("obj1") + pu("obj1/.."), None)]


OVERLAP = [
    ("0002", ["obj1", "obj10", "obj1-copy"], None),
    ("0006", ["urn:obj:1", "urn:obj:10", "urn:obj:1-copy"], None),
    ("none", ["o1", "o10", "o1-copy"], {"o1": "objs/o1", "o10": "objs/o10", "o1-copy": "objs/o1-copy"}),
]


def overlap_history(rng, cfg, pool, roots, n_random):
    short, long_, other = pool[0], pool[1], pool[2]
    ops = []

    def create(oid, k, name="a.txt"):
        ops.extend([{"op": "new", "id": oid},
                    {"op": "cp_ext", "id": oid, "files": [[name, k]], "dst": name, "recursive": False},
                    {"op": "commit", "id": oid}])
    create(long_, 1)
    create(short, 2)
    create(other, 3)
    ops += [{"op": "cp_ext", "id": short, "files": [["b.txt", 4]], "dst": "dir/b.txt", "recursive": False},
            {"op": "commit", "id": short},
            {"op": "purge", "id": short}]          # must not touch long_ / other
    create(short, 5, "c.txt")                      # re-create under the same root
    ops += [{"op": "purge", "id": long_},
            {"op": "cp_ext", "id": other, "files": [["d.txt", 1]], "dst": "d.txt", "recursive": False},
            {"op": "commit", "id": other}]
    create(long_, 2, "e.txt")
    gen_ids = [hist.obj_id(cfg, k) for k in range(3)]
    back = dict(zip(gen_ids, pool[:3]))
    for o in hist.gen_history(rng, cfg, n_random, n_objects=3):
        ops.append(dict(o, id=back[o["id"]]))
    ops.append({"op": "purge", "id": short})
    if roots:
        ops = [dict(o, object_root=roots[o["id"]]) if o["op"] == "commit" and o["id"] in roots else o for o in ops]
    return ops


# --------------------------------------------------------------------------- Coq terms

def coq_tree(files, empty_dirs=()):
    """nested [tree] term of a {relpath: token} map plus directories without files"""
    root = {}
    for rel in empty_dirs:
        d = root
        for p in rel.split("/"):
            d = d.setdefault(p, {})
    for rel, tok in files.items():
        d = root
        parts = rel.split("/")
        for p in parts[:-1]:
            d = d.setdefault(p, {})
        d[parts[-1]] = tok

    def term(n):
        if isinstance(n, dict):
            return "(TDir [%s])" % "; ".join("(%s, %s)" % (coq_str(k), term(n[k])) for k in sorted(n))
        return "(TFile %s)" % coq_str(n)
    return term(root)


def list_log(entries):
    out = []
    for e in entries:
        if e["kind"] == "list":
            tok = e["query"].get("continuation-token")
            out.append((e["query"].get("prefix", ""), e["query"].get("delimiter", ""), int(tok) if tok else None, e.get("answer")))
    return out


def coq_terms(run):
    """one Coq term per S3 run: list of booleans.  The prefix is handed over as the caller gave it:
    the checkers apply S3.client_prefix (s3.rs:793) themselves"""
    keys = sorted(run["s3_raw"], key=lambda k: k.encode("utf-8"))
    cp = run["prefix"] or ""
    ks = coq_list([coq_str(k) for k in keys])
    ps = run["page_size"]
    parts = []
    names = []
    lo = run["scan"]
    reqs = coq_list(["(%s, %s)" % (coq_str(p), coq_opt(t, str)) for p, d, t, a in lo["lists"]])
    parts.append("check_scan %d ks %s %d %s %s" % (ps, coq_str(cp), lo["class"], coq_list([coq_str(r) for r in lo["roots"]]), reqs))
    names.append("scan")
    for p, d, t, a in lo["serve_samples"]:
        parts.append("check_serve %d ks %s %s %s %s %s %s" % (
            ps, coq_str(p), coq_bool(d == "/"), coq_opt(t, str), coq_list([coq_str(x) for x in a["keys"]]),
            coq_list([coq_str(x) for x in a["prefixes"]]), coq_bool(a["truncated"])))
        names.append("serve")
    for path, delim in run["paging_paths"]:
        parts.append("check_paging %d ks %s %s %s" % (ps, coq_str(cp), coq_str(path), coq_bool(delim)))
        names.append("paging")
    tree = coq_tree(run["fs_tokens"], run["empty_dirs"])
    obs = coq_list(["(%s, %s)" % (coq_str(k), coq_str(run["s3_tokens_full"][k])) for k in keys])
    parts.append("check_keys_of_tree %s tr %s" % (coq_str(cp), obs))
    names.append("keys_of_tree")
    parts.append("check_paths_of_keys %s tr %s" % (coq_str(cp), obs))
    names.append("paths_of_keys")
    parts.append("check_storage_list_all ks %s tr" % coq_str(cp))
    names.append("storage_list")
    for pg in run.get("purges", []):
        bkt = lambda d: coq_list(["(%s, %s)" % (coq_str(k), coq_str(d[k])) for k in sorted(d, key=lambda k: k.encode("utf-8"))])
        parts.append("check_purge %s %s %s %s %d %s %s" % (coq_str(cp), coq_str(pg["id"]), coq_str(pg["root"]), bkt(pg["before"]), pg["class"],
                                                      coq_list([coq_str(k) for k in pg["deleted"]]), bkt(pg["after"])))
        names.append("purge")
    rc = run.get("rootcheck")
    if rc and "class" in rc:
        parts.append("check_new_object_root %s %s %s %d" % (coq_str(cp), coq_list([coq_str(k) for k in rc["keys"]]), coq_str(rc["root"]), rc["class"]))
        names.append("new_object_root")
    term = "let ks := %s in let tr := %s in [%s]" % (ks, tree, "; ".join(parts))
    return term, names


def bucket_tokens(d):
    """content tokens for the purge model: an inventory file is handed over as "I" + the id it names
    (CheckS3.tok_inv_id), everything else by hash"""
    out = {}
    for k, v in d.items():
        tok = "B" + hashlib.sha256(v).hexdigest()[:8]
        if k.rsplit("/", 1)[-1] == "inventory.json":
            try:
                i = json.loads(v.decode("utf-8")).get("id")
                if isinstance(i, str):
                    tok = "I" + i
            except (ValueError, AttributeError):
                pass
        out[k] = tok
    return out


def layout_root(layout, oid):
    """what the storage layout maps an id to, for the flat layouts of the guarded-purge histories
    (0002 flat-direct: the id; 0006 flat-omit-prefix with delimiter ':': what follows the last delimiter)"""
    if layout == "0002":
        return oid
    if layout == "0006":
        return oid.rsplit(":", 1)[-1]
    return None


# --------------------------------------------------------------------------- execution

class SlashRootRunner(hist.Runner):
    """a filesystem scratch repository that the library opens under a root path spelled with
    trailing slashes (<root>/, <root>//): the file-system counterpart of an S3 prefix `pre/`"""

    def __init__(self, ctx, cfg, name, suffix):
        super().__init__(ctx, cfg, name, init=False)
        self.given_root = self.root + suffix
        r = self.s.call("init", h=self.h, root=self.given_root, staging=self.stg, spec=cfg["repo_spec"],
                        layout=hist.LAYOUTS[cfg["layout"]])
        if "ok" not in r:
            raise common.BuildError("cannot init scratch repository at %r: %r" % (self.given_root, r))

    def reopen(self):
        self.s.call("drop", h=self.h)
        r = self.s.call("open", h=self.h, root=self.given_root, staging=self.stg)
        if "ok" not in r:
            raise common.BuildError("cannot reopen scratch repository at %r: %r" % (self.given_root, r))


def run_case(ctx, case, stubs):
    """drive one history on the filesystem and on every S3 variant; returns list of run records"""
    cfg, ops = case["cfg"], case["ops"]
    ids = sorted({o["id"] for o in ops})
    name = "h%d" % case["idx"]
    suffix = case.get("fs_suffix") or ""
    if suffix:
        fs = SlashRootRunner(ctx, cfg, name + "-fs", suffix)
        fs_base = fs.given_root[:-1]       # PathBuf::join appends to "<root>//" without another separator
    else:
        fs = hist.Runner(ctx, cfg, name + "-fs")
        fs_base = fs.root
    runs = []
    try:
        fs_classes, fs_snaps, occ, resolved = [], [], {}, []
        for op in ops:
            op = resolve(op, occ)
            resolved.append(op)
            cmd, r = fs.step(materialise(op))
            fs_classes.append(hist.res_class(r))
            if op["op"] in ("commit", "purge", "upgrade_object") and "ok" in r:
                occ = {k: v for k, v in occ.items() if k[0] != op["id"]}
            if op["op"] in ("cp_int", "mv_int", "cp_ext", "mv_ext") and staged_duplicates(fs, op["id"]):
                # keep the history deterministic: drop a staged version that holds duplicates
                fs_snaps.append(None)
                op = {"op": "reset_all", "id": op["id"], "inserted": "staged duplicates"}
                resolved.append(op)
                cmd, r = fs.step(op)
                fs_classes.append(hist.res_class(r))
            if op["op"] in ("commit", "purge", "upgrade_object") and "ok" in r:
                fs_snaps.append({k: v[1:3] for k, v in fs.snap_main().items() if v[0] == "f"})
            else:
                fs_snaps.append(None)
        ops = resolved
        fs_api = read_api(fs, ids, fs_base)
        fsf, empty_dirs = fs_files(fs.root)
        for vi, (prefix, page_size) in enumerate(case["variants"]):
            stub = stubs.get()
            stub.page_size = page_size
            bucket = "b%dv%d" % (case["idx"], vi)
            rec = {"case": case["idx"], "cfg": cfg, "ops": ops, "prefix": prefix, "page_size": page_size,
                   "shape": prefix_shape(prefix), "fs_suffix": suffix, "msg": None, "empty_dirs": empty_dirs,
                   "steps": len(ops), "ok_steps": sum(1 for c in fs_classes if c == "ok"), "multipart": 0,
                   "purges": [], "overlap": bool(case.get("overlap"))}
            s3 = None
            try:
                s3 = s3stub.make_s3_runner(ctx, cfg, name + "-s3-%d" % vi, stub, bucket, prefix)
                base = s3stub.norm_prefix(prefix)
                for k, op in enumerate(ops):
                    watch = None
                    if op["op"] == "purge" and len(rec["purges"]) < (6 if case.get("overlap") or case.get("guards") else 2):
                        # observation for the model of purge_object: the root the store looks up for the id (the committed
                        # root of an existing object, else what the layout maps the id to) and the bucket before
                        g = s3.s.call(dict(cmd="get_object", h=s3.h, id=op["id"], version=None))
                        root = norm_path(g["ok"].get("object_root"), base) if "ok" in g else None
                        if not (isinstance(root, str) and root in s3.object_roots()):
                            root = layout_root(cfg["layout"], op["id"]) if case.get("guards") else None
                        if isinstance(root, str):
                            watch = {"id": op["id"], "root": root, "before": bucket_tokens(stub.dump(bucket))}
                    last_create = case.get("watch_root") is not None and k == len(ops) - 1 and op["op"] == "commit"
                    if last_create:
                        rec["rootcheck"] = {"root": case["watch_root"], "keys": sorted(stub.dump(bucket), key=lambda x: x.encode("utf-8"))}
                    stub.clear_log()
                    cmd, r = s3.step(materialise(op))
                    rec["multipart"] += sum(1 for e in stub.log if e["kind"] == "mp-complete")
                    c = hist.res_class(r)
                    if last_create:
                        rec["rootcheck"]["class"] = 0 if c == "ok" else 2 if c == "panic" else 1
                    if watch is not None:
                        watch.update(after=bucket_tokens(stub.dump(bucket)), deleted=[e["key"] for e in stub.log if e["kind"] == "delete"],
                                     **{"class": 0 if c == "ok" else 2 if c == "panic" else 1})
                        rec["purges"].append(watch)
                    if c != fs_classes[k] and not rec["msg"]:
                        rec["msg"] = "step %d (%s): fs %s / s3 %s" % (k, op["op"], fs_classes[k], c)
                    if fs_snaps[k] is not None and not rec["msg"]:
                        s3snap = {x: v[1:3] for x, v in s3.snap_main().items()}
                        inv = lambda d: {x: v for x, v in d.items() if not x.rsplit("/", 1)[-1].startswith("inventory.json")}
                        if set(s3snap) != set(fs_snaps[k]) or inv(s3snap) != inv(fs_snaps[k]):
                            fsk = fs_snaps[k]
                            rec["msg"] = "after step %d (%s): stored files differ: only fs %r, only s3 %r, different bytes %r" % (
                                k, op["op"], sorted(set(fsk) - set(s3snap))[:4], sorted(set(s3snap) - set(fsk))[:4],
                                sorted(x for x in inv(fsk) if x in s3snap and s3snap[x] != fsk[x])[:4])
                s3f = s3.rel_keys()
                rec["s3_raw"] = list(stub.dump(bucket))
                m = compare_stores(fsf, s3f)
                if m and not rec["msg"]:
                    rec["msg"] = m
                api = read_api(s3, ids, base)
                m = first_diff(fs_api, api)
                if m and not rec["msg"]:
                    rec["msg"] = m
                # observations for the model: the scan behind list_objects with its request log
                stub.clear_log()
                lo = s3.s.call(dict(cmd="list_objects", h=s3.h))
                log = stub.take_log()
                lists = list_log(log)
                roots = []
                if "ok" in lo:
                    roots = [norm_path(i["ok"]["object_root"], base) for i in lo["ok"] if "ok" in i]
                samples = [x for x in lists if x[3] and x[3]["truncated"]][:2] + [x for x in lists if x[3] and not x[3]["truncated"]][-1:]
                rec["scan"] = {"class": 0 if "ok" in lo else 2 if "panic" in lo else 1, "roots": roots, "lists": lists,
                               "serve_samples": samples, "errs": sum(1 for i in lo.get("ok", []) if "ok" not in i)}
                oroots = s3.object_roots()
                rec["paging_paths"] = [("", True), ("", False)] + [(p, True) for p in oroots[:1]] + [(p + "/v1", False) for p in oroots[:1]]
                pl = base + "/" if base else ""
                full = stub.dump(bucket)
                rec["s3_tokens_full"] = {k: canon_token(k, v) if not k.rsplit("/", 1)[-1].startswith("inventory.json.") else "S" for k, v in full.items()}
                rec["fs_tokens"] = {k: canon_token(k, v) if not k.rsplit("/", 1)[-1].startswith("inventory.json.") else "S" for k, v in fsf.items()}
                rec["n_keys"] = len(full)
            except common.BuildError as e:
                rec["msg"] = rec["msg"] or "S3 repository could not be driven: %s" % str(e)[:300]
                rec.setdefault("s3_raw", [])
            finally:
                if s3 is not None:
                    s3.close()
                stub.restore(bucket, {})
                stubs.put(stub)
            runs.append(rec)
    finally:
        fs.close()
    return runs


class StubPool:
    def __init__(self, n):
        import queue
        self.q = queue.Queue()
        self.all = [s3stub.S3Stub().start() for _ in range(n)]
        for s in self.all:
            self.q.put(s)

    def get(self):
        return self.q.get()

    def put(self, s):
        self.q.put(s)

    def stop(self):
        for s in self.all:
            s.stop()


def run(ctx):
    proof = common.proof_stage(ctx)
    common.build_harness()
    ok, log = common.coq_make(["theories/Corr/CheckS3.vo"])
    if not ok:
        raise common.BuildError("Corr/CheckS3.v does not build:\n" + log[-3000:])
    cases = plan(ctx)
    workers = min(8, common.NPROC)
    pool = StubPool(workers)
    try:
        with concurrent.futures.ThreadPoolExecutor(max_workers=workers) as ex:
            results = list(ex.map(lambda c: run_case(ctx, c, pool), cases))
    finally:
        pool.stop()
    runs = [r for rs in results for r in rs]

    terms, names = [], []
    for r in runs:
        if "scan" in r:
            t, n = coq_terms(r)
            terms.append(t)
            names.append(n)
        else:
            terms.append("[true]")
            names.append(["none"])
    res = common.coq_eval("c15", ["Base.Bytes", "Model.S3", "Corr.CheckS3"], terms, batch=4)
    # the driver cuts bucket keys relative to s3stub.norm_prefix: it must be the prefix the model's client stores
    cls = common.coq_eval("c15k", ["Base.Bytes", "Model.S3", "Corr.CheckS3"],
                          ["stored_prefix_is %s %s" % (coq_str(r["prefix"] or ""), coq_str(s3stub.norm_prefix(r["prefix"]))) for r in runs])

    dist = {"runs": 0, "steps": 0, "ok_steps": 0, "multipart_uploads": 0, "page_sizes": {}, "prefixes": {}, "layouts": {},
            "keys_max": 0, "list_requests": 0, "truncated_pages": 0, "fs_empty_dirs": 0, "prefix_shapes": {}, "fs_root_spelled_with_trailing_slashes": 0, "model_checks": 0,
            "runs_with_string_prefix_overlapping_object_roots": 0, "new_object_roots_checked_against_model": 0, "purges_checked_against_model": 0, "keys_deleted_by_those_purges": 0,
            "resets_inserted_for_staged_duplicates": 0}
    for r, val, kc, nm in zip(runs, res, cls, names):
        dist["runs"] += 1
        dist["steps"] += r["steps"]
        dist["ok_steps"] += r["ok_steps"]
        dist["multipart_uploads"] += r["multipart"]
        dist["resets_inserted_for_staged_duplicates"] += sum(1 for o in r["ops"] if o.get("inserted"))
        dist["page_sizes"][str(r["page_size"])] = dist["page_sizes"].get(str(r["page_size"]), 0) + 1
        dist["prefixes"][str(r["prefix"])] = dist["prefixes"].get(str(r["prefix"]), 0) + 1
        dist["prefix_shapes"][r["shape"]] = dist["prefix_shapes"].get(r["shape"], 0) + 1
        dist["fs_root_spelled_with_trailing_slashes"] += 1 if r["fs_suffix"] else 0
        dist["runs_with_string_prefix_overlapping_object_roots"] += 1 if r["overlap"] else 0
        dist["purges_checked_against_model"] += len(r["purges"])
        dist["new_object_roots_checked_against_model"] += 1 if "class" in (r.get("rootcheck") or {}) else 0
        dist["keys_deleted_by_those_purges"] += sum(len(x["deleted"]) for x in r["purges"])
        dist["layouts"][r["cfg"]["layout"]] = dist["layouts"].get(r["cfg"]["layout"], 0) + 1
        dist["keys_max"] = max(dist["keys_max"], r.get("n_keys", 0))
        dist["fs_empty_dirs"] += len(r["empty_dirs"])
        if "scan" in r:
            dist["list_requests"] += len(r["scan"]["lists"])
            dist["truncated_pages"] += sum(1 for x in r["scan"]["lists"] if x[3] and x[3]["truncated"])
        if kc != "true":
            common.corr_break(ctx, "S3.client_prefix (s3.rs:793) disagrees with the driver's s3stub.norm_prefix", {"prefix": r["prefix"]})
        vals = [v.strip() for v in val.strip("[]").split(";")] if val.strip("[]").strip() else []
        dist["model_checks"] += len(vals)
        inp = {"cfg": r["cfg"], "ops": r["ops"], "prefix": r["prefix"], "page_size": r["page_size"], "fs_suffix": r["fs_suffix"],
               "watch_root": (r.get("rootcheck") or {}).get("root")}
        ctx.count((r["case"], r["prefix"], r["page_size"]), nontrivial=r["ok_steps"] > 2,
                  sample={"prefix": r["prefix"], "prefix_shape": r["shape"], "fs_root_suffix": r["fs_suffix"], "page_size": r["page_size"], "layout": r["cfg"]["layout"], "steps": r["steps"],
                          "keys": r.get("n_keys"), "difference": r["msg"], "model": dict(zip(nm, vals)) if len(nm) == len(vals) else val})
        if r["msg"]:
            ctx.violation("impl-violation", {"input": inp, "observed": r["msg"],
                                             "expected": "the S3 repository equals the filesystem repository driven by the same history"})
        else:
            bad = [n for n, v in zip(nm, vals) if v != "true"] if len(nm) == len(vals) else ["unparsed"]
            if bad:
                common.corr_break(ctx, "Corr.CheckS3 %s (model S3.v vs s3.rs / stand-in)" % ",".join(bad),
                                  {"input": inp, "scan": r.get("scan"), "values": val})
    ctx.coverage["traces_validated_against_impl"] = dist["runs"]
    ctx.coverage["distribution"] = dist
    ctx.assumptions.append("the S3 stand-in vplib/s3stub.py (ListObjectsV2 paging by offset tokens, GET/PUT/DELETE, multipart) replaces real S3; HTTP, rusoto, tokio, request signing, eventual consistency and service limits are outside the model")
    ctx.assumptions.append("hypothesis: object ids map to normalised relative object roots (no empty, `.` or `..` part, no slash at either end; `..` roots are refused alike for create and purge and are generated): the file-system store "
                           "normalises other spellings (a//b, ./x; reports `a/b/` untrimmed) while the S3 store refuses resp. trims them; such ids / explicit "
                           "roots are generated only with VERIF_C15_UNNORMALISED=1 (checks/c15.py unnormalised_root_histories)")
    ctx.assumptions.append("keys are compared for well-formed names only (no control characters: ListObjectsV2 answers are XML)")
    return common.finish_with_proof(ctx, proof,
        rule="histories from vplib.hist.gen_history (create, stage, commit, upgrade, purge; all layouts incl. none) run on a filesystem "
             "repository and on the S3 stand-in per (prefix, page size) variant (prefixes: none, plain, nested, and spelled with trailing / only / "
             "leading / inner double slashes, all must-pass; plus flat layouts 0002 / 0006 / explicit roots with object roots that are string "
             "prefixes of one another - obj1, obj10, obj1-copy - with purge and re-creation; object roots both stores must refuse for a new object: "
             "nested in another object, in extensions/, with a `..` part; purges of never-created ids mapped onto, into or above other objects); distinct = distinct (history, prefix, page size); "
             "non-trivial = more than two successful steps; every run compared step by step, store against store, read API against read API")


def replay(ctx, body):
    """re-run the recorded history/variant"""
    inp = body.get("input")
    if not inp or "ops" not in inp:
        return run(ctx)
    common.build_harness()
    case = {"idx": 0, "cfg": inp["cfg"], "ops": inp["ops"], "variants": [(inp["prefix"], inp["page_size"])],
            "fs_suffix": inp.get("fs_suffix") or "", "watch_root": inp.get("watch_root")}
    pool = StubPool(1)
    try:
        runs = run_case(ctx, case, pool)
    finally:
        pool.stop()
    for r in runs:
        if r["msg"]:
            ctx.violation("impl-violation", {"input": inp, "observed": r["msg"],
                                             "expected": "the S3 repository equals the filesystem repository driven by the same history"})
    return ctx.finish(rule="replay of one recorded history")
