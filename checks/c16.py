"""C16 - S3 commits install the root inventory last and clean up after failures.

/repo commits 4953bf6 (the inventory of an uploaded directory and its sidecar go last) and 9053efb (a failed
version commit puts back the root inventory pair and the declaration it replaced) repaired the two classes this
check used to count as known findings (new-object-walk-order, root-inventory-rollback).  Their inputs - a failing
root sidecar PUT, a failing declaration PUT / DELETE of an upgrade, zero-padded version directories whose walk
order listed the root inventory early - are generated as before and are MUST-PASS now: nothing is suppressed.

Stage 1 (proof): Props/C16.v (request order of write_new_version / write_new_object for every directory walk,
  cleanup for EVERY failing mutating request incl. root sidecar and declaration swap, the retry succeeds).
Stage 2 (direct search): histories are driven through the real library on the S3 stand-in; at every
  commit (new object, new version, upgrade; small and multipart files; plain and zero-padded version numbers)
  the fault-free run is logged and then every mutating request of that commit is failed once with HTTP 500 and
  once by dropping the connection.  After each failure, through a fresh handle: commit reported an error, every
  key that existed before is unchanged (earlier versions, previous root inventory and sidecar, declaration,
  other objects), nothing of vN is left, earlier versions read back identically, the staged version is
  still there, and the retried commit succeeds and yields the same bucket as the fault-free commit.
  Order oracle on the fault-free log: root inventory.json after every key below vN/, before its sidecar.
Stage 3 (correspondence): the Gallina request programs (Model/S3.v) are run with the same fault
  position on the same bucket and compared with the request log (exact: the GETs a version commit sends after
  the emptiness listing of the version prefix, i.e. the reads of what it is about to replace, and the mutating
  requests), the result
  class and the final bucket.  The directory walk handed to the model is the observed upload order of the
  ordinary files with the directory's own inventory.json and inventory.json.* moved to the FRONT: the model's
  stable sort (S3.upload_order) has to move them to the end to agree with the log, so the correspondence does not
  depend on re-enacting the readdir order and still breaks if the code stops sorting.
Since /repo commit 862b96a the reads of a version commit (GET of the root inventory, of the root sidecar, the
declaration listing and the GET of the old declaration of an upgrade) precede its first write; each of them is
failed once per mode as well (MUST-PASS: error, no mutating request, bucket untouched, staged version kept, retry
succeeds; between 9053efb and 862b96a a failing GET left the uploaded keys of vN behind).
A failure of a request that puts something back during the rollback (a second fault in one commit) is outside the
single-failure quantifier of the property and is not generated.
"""
import hashlib
import os
import shutil

from vplib import common, hist, s3stub
from vplib.common import coq_str, coq_list
from checks import c15

PART = 5 * 1024 * 1024


def tok(data):
    return hashlib.sha256(data).hexdigest()[:16]


def ctok(key, data):
    """token of stored bytes; inventories by JSON value (array order varies between handles)"""
    name = key.rsplit("/", 1)[-1]
    if name == "inventory.json":
        return c15.canon_token(key, data)
    if name.startswith("inventory.json."):
        return "S" + data.decode("utf-8", "replace").split()[-1] if data.split() else "S"
    return tok(data)


def mut_log(entries):
    return [e for e in entries if e["method"] in ("PUT", "POST", "DELETE")]


def corr_log(entries, vpre=None):
    """what the model logs of one commit: its mutating requests and the GETs of its request program.  For a
    version commit these are the GETs after the emptiness listing of the version prefix [vpre] (write_new_version
    reads what it is about to replace before it writes anything, s3.rs:589-599); the GETs before that listing
    belong to get_inventory / the staging bookkeeping.  A new object has no GET in its program."""
    first_mut = next((n for n, e in enumerate(entries) if e["method"] in ("PUT", "POST", "DELETE")), len(entries))
    start = first_mut
    if vpre is not None:
        ls = [n for n, e in enumerate(entries) if e["kind"] == "list" and e["query"].get("prefix") == vpre and n < first_mut]
        if ls:
            start = ls[-1]
    return [e for n, e in enumerate(entries)
            if e["method"] in ("PUT", "POST", "DELETE") or (n > start and e["kind"] == "get")]


def program_reads(entries, vpre, root_full):
    """the reads of the request program of a version commit in the full log of its fault-free run:
    [(index in the log, read position of the model, what)] - GET root inventory = 0, GET root sidecar = 1,
    every page of the find_files listing of an upgrade = 2, GET of the n-th old declaration = 3 + n"""
    first_mut = next((n for n, e in enumerate(entries) if e["method"] in ("PUT", "POST", "DELETE")), len(entries))
    ls = [n for n, e in enumerate(entries) if e["kind"] == "list" and e["query"].get("prefix") == vpre and n < first_mut]
    if not ls:
        return []
    out, gets = [], 0
    # (wherever they are sent: were they sent after the upload, as between 9053efb and 862b96a, failing one
    # of them must show what is left behind)
    for n in range(ls[-1] + 1, len(entries)):
        e = entries[n]
        if e["kind"] == "get":
            name = e["key"][len(root_full) + 1:]
            if gets == 0:
                out.append((n, 0, "get-root-inventory"))
            elif gets == 1:
                out.append((n, 1, "get-root-sidecar"))
            else:
                out.append((n, 3 + gets - 2, "get-declaration"))
            gets += 1
        elif e["kind"] == "list":
            out.append((n, 2, "list-declarations"))
    return out


def coq_req(e):
    k = coq_str(e["key"])
    return {"put": "RPut %s", "delete": "RDelete %s", "mp-create": "RMpCreate %s", "mp-complete": "RMpComplete %s",
            "mp-abort": "RMpAbort %s", "get": "RGet %s"}.get(e["kind"], "RPut %s") % k if e["kind"] != "mp-part" else \
        "RMpPart %s %d" % (k, int(e["query"].get("partNumber", 0)))


def coq_bucket(d):
    return coq_list(["(%s, %s)" % (coq_str(k), coq_str(d[k])) for k in sorted(d, key=lambda x: x.encode())])


def coq_ufile(rel, ln, t):
    return "(mkUf %s %d %s)" % (coq_str(rel), ln, coq_str(t))


def retry_cmd(cmd):
    if cmd["cmd"] != "upgrade_object":
        return cmd
    c = {k: v for k, v in cmd.items() if k != "spec"}
    c["cmd"] = "commit"
    c.setdefault("pretty", False)
    return c


# --------------------------------------------------------------------------- the sweep over one commit

class Sweep:
    def __init__(self, ctx, runner, stub, bucket, prefix):
        self.ctx, self.r, self.stub, self.bucket, self.prefix = ctx, runner, stub, bucket, prefix
        self.base = s3stub.norm_prefix(prefix)
        self.pl = self.base + "/" if self.base else ""
        self.records = []

    def call(self, **kw):
        return self.r.s.call(dict(kw, h=self.r.h))

    def reads(self, oid):
        """everything readable of the committed object: versions, states, file bytes, validity"""
        out = {}
        head = self.call(cmd="get_object", id=oid, version=None)
        out["head"] = c15.norm_value("get_object", head, self.base)
        if "ok" not in head:
            return out
        for v in range(1, head["ok"]["details"]["num"] + 1):
            g = self.call(cmd="get_object", id=oid, version=v)
            out["v%d" % v] = c15.norm_value("get_object", g, self.base)
            if "ok" in g:
                for p in sorted(g["ok"]["state"]):
                    out["cat:%d:%s" % (v, p)] = c15.norm_value("cat", self.call(cmd="cat", id=oid, version=v, path=p), self.base)
        out["validate"] = c15.norm_value("validate_object", self.call(cmd="validate_object", id=oid, fixity=True), self.base)
        return out

    def staged(self, oid):
        g = self.call(cmd="get_staged_object", id=oid)
        if "ok" not in g:
            return hist.res_class(g)
        return {"version": g["ok"]["details"]["version"], "state": {p: x["digest"] for p, x in g["ok"]["state"].items()}}

    def restore(self, base_bucket, stg_copy):
        self.r.s.call("drop", h=self.r.h)
        self.stub.clear_faults()
        self.stub.restore(self.bucket, base_bucket)
        shutil.rmtree(self.r.stg, ignore_errors=True)
        shutil.copytree(stg_copy, self.r.stg, symlinks=True)
        r = self.r.s.call(self.r.open_cmd(self.r.h))
        if "ok" not in r:
            raise common.BuildError("cannot reopen S3 repository: %r" % (r,))

    def fresh(self):
        self.r.s.call("drop", h=self.r.h)
        r = self.r.s.call(self.r.open_cmd(self.r.h))
        if "ok" not in r:
            raise common.BuildError("cannot reopen S3 repository: %r" % (r,))

    def run(self, op, cmd, modes, label):
        """op: abstract commit / upgrade_object op; cmd: its concrete harness command (reused for every attempt)"""
        oid = op["id"]
        stub, bucket = self.stub, self.bucket
        self.fresh()
        base_bucket = stub.dump(bucket)
        stg_copy = os.path.join(self.ctx.tmp, "stgcopy-%s-%d" % (bucket, len(self.records)))
        shutil.rmtree(stg_copy, ignore_errors=True)
        shutil.copytree(self.r.stg, stg_copy, symlinks=True)
        base_reads = self.reads(oid)
        base_staged = self.staged(oid)
        # ---- fault-free reference
        stub.clear_log()
        ref = self.r.s.call(cmd)
        ref_full = stub.take_log()
        ref_log = mut_log(ref_full)
        if "ok" not in ref:
            shutil.rmtree(stg_copy, ignore_errors=True)
            return ref                                     # refused (e.g. nothing staged): no S3 commit to sweep
        ref_final = stub.dump(bucket)
        new_keys = [e["key"] for e in ref_log if e["kind"] in ("put", "mp-complete")]
        inv_keys = [k for k in new_keys if k.endswith("/inventory.json")]
        # the object root (full key prefix) = the shortest directory that received an inventory.json
        root_full = min((k[:-len("/inventory.json")] for k in inv_keys), key=len)
        is_new = not any(k.startswith(root_full + "/") for k in base_bucket)
        vstr = max(inv_keys, key=len)[len(root_full) + 1:-len("/inventory.json")]      # <root>/<vN>/inventory.json
        vpre = root_full + "/" + vstr + "/"
        sidecar_key = next((k for k in new_keys if k.startswith(root_full + "/inventory.json.")), None)
        rec = {"label": label, "oid": oid, "op": op["op"], "is_new": is_new, "prefix": self.prefix, "root": root_full[len(self.pl):],
               "vstr": vstr, "n_requests": len(ref_log), "kinds": sorted({e["kind"] for e in ref_log}),
               "order_msg": None, "faults": [], "ref_log": ref_log, "ref_corr_log": None,
               "base_bucket": base_bucket, "ref_final": ref_final,
               "sidecar_name": sidecar_key.rsplit("/", 1)[-1] if sidecar_key else None,
               "old_sidecar_name": next((x[len(root_full) + 1:] for x in sorted(base_bucket)
                                         if x.startswith(root_full + "/inventory.json.")), None)}
        n_up = sum(1 for e in ref_log if e["key"].startswith(vpre)) if not is_new else len(ref_log)
        stored_after = [e for e in ref_log[n_up:]]

        def stage_of(k):
            """which part of the commit request k belongs to (coverage only)"""
            if k < n_up:
                return "upload"
            e = stored_after[k - n_up]
            name = e["key"][len(root_full) + 1:]
            if name == "inventory.json":
                return "root-inventory"
            if name.startswith("inventory.json."):
                return "root-sidecar"
            return "declaration-" + ("delete" if e["kind"] == "delete" else "put")
        # ---- order oracle (model-free): root inventory after everything below vN/, before the root sidecar
        pos = {e["key"]: i for i, e in enumerate(ref_log) if e["kind"] in ("put", "mp-complete")}
        ri = pos.get(root_full + "/inventory.json")
        last_v = max([i for k, i in pos.items() if k.startswith(vpre)] or [-1])
        if ri is None or sidecar_key is None:
            rec["order_msg"] = "no root inventory / sidecar stored by the commit"
        elif ri < last_v:
            rec["order_msg"] = "root inventory.json stored (request %d) before a key below %s (request %d)" % (ri, vstr, last_v)
        elif pos[sidecar_key] < ri:
            rec["order_msg"] = "root sidecar stored before the root inventory.json"
        rec["ref_corr_log"] = corr_log(ref_full, None if is_new else vpre)

        def attempt(k, mode, scope):
            """the commit with request k (counted over the mutating requests or over all requests) failed once"""
            self.restore(base_bucket, stg_copy)
            stub.clear_log()
            stub.fail_at(k, mode=mode, scope=scope)
            r = self.r.s.call(cmd)
            full = stub.take_log()
            log = corr_log(full, None if is_new else vpre)
            fired = any(e.get("fault") for e in full)
            stub.clear_faults()
            after = stub.dump(bucket)
            pending = len(stub.pending_uploads())
            stub.uploads.clear()
            f = {"k": k, "mode": mode, "class": hist.res_class(r), "log": log, "after": after, "msg": None,
                 "pending_uploads": pending}
            msgs = []
            if not fired:
                msgs.append("the request to fail was never sent (the request sequence of the commit is not repeatable)")
            if "ok" in r:
                msgs.append("commit reported success although request %d failed" % k)
            elif "panic" in r:
                msgs.append("commit panicked")
            changed = sorted(x for x in base_bucket if after.get(x) != base_bucket[x])
            if changed:
                msgs.append("keys that existed before the commit are missing/changed: %r" % changed[:4])
            left = sorted(x for x in after if x not in base_bucket)
            if left:
                msgs.append("keys of the failed version left behind: %r" % left[:4])
            self.fresh()
            if self.reads(oid) != base_reads:
                msgs.append("earlier versions of the object do not read back as before the failed commit")
            st = self.staged(oid)
            if st != base_staged and (isinstance(base_staged, dict) or not isinstance(st, dict)):
                msgs.append("the staged version is not kept")      # (an upgrade without staged changes stages its own version)
            stub.clear_log()
            # the retry: the same commit; after a failed upgrade the staged version already carries the new
            # type declaration (a second `upgrade` is refused as IllegalOperation), it is finished by a plain commit
            r2 = self.r.s.call(retry_cmd(cmd))
            if "ok" not in r2:
                msgs.append("the retried commit fails: %s" % hist.res_class(r2))
            else:
                fin = stub.dump(bucket)
                if set(fin) != set(ref_final) or any(ctok(x, fin[x]) != ctok(x, ref_final[x]) for x in fin):
                    msgs.append("the retried commit does not yield the object of a fault-free commit")
            f["msg"] = "; ".join(msgs) if msgs else None
            return f
        # ---- every mutating request failed once per mode
        for mode in modes:
            for k in range(len(ref_log)):
                f = attempt(k, mode, "mut")
                f.update(failed_kind=ref_log[k]["kind"], stage=stage_of(k))
                rec["faults"].append(f)
        # ---- every read of the request program of a version commit failed once per mode (regression test of
        # /repo commit 862b96a: the reads precede the first write, a failing read leaves the bucket untouched)
        rec["read_faults"] = []
        if not is_new:
            for mode in modes:
                for n, j, what in program_reads(ref_full, vpre, root_full):
                    f = attempt(n, mode, "all")
                    f.update(j=j, what=what)
                    if f["msg"] is None and any(e["method"] in ("PUT", "POST", "DELETE") for e in f["log"]):
                        f["msg"] = "a mutating request was sent although a read before the upload failed"
                    rec["read_faults"].append(f)
        # leave the repository in the committed state: once more from the start, fault-free
        self.restore(base_bucket, stg_copy)
        final = self.r.s.call(cmd)
        if "ok" not in final:
            raise common.BuildError("the fault-free commit is not repeatable: %r" % (final,))
        shutil.rmtree(stg_copy, ignore_errors=True)
        self.records.append(rec)
        return ref


# --------------------------------------------------------------------------- Coq terms

def model_terms(rec):
    """terms for one swept commit: [(name, term)]"""
    pl = (s3stub.norm_prefix(rec["prefix"]) + "/") if s3stub.norm_prefix(rec["prefix"]) else ""
    cp = rec["prefix"] or ""
    root_full = pl + rec["root"]
    vpre = root_full + "/" + rec["vstr"] + "/"
    fin = rec["ref_final"]
    stored_ref = [e["key"] for e in rec["ref_log"] if e["kind"] in ("put", "mp-complete")]

    def restrict(d):
        inside = {k: v for k, v in d.items() if k.startswith(root_full + "/")}
        outside = sorted(k for k in d if not k.startswith(root_full + "/"))[:3]
        out = {k: ctok(k, v) for k, v in inside.items()}
        out.update({k: ctok(k, d[k]) for k in outside})
        return out
    bk = coq_bucket(restrict(rec["base_bucket"]))
    terms = []
    if rec["is_new"]:
        upload_ref = [k for k in stored_ref]
        strip = root_full + "/"
    else:
        upload_ref = [k for k in stored_ref if k.startswith(vpre)]
        strip = vpre

    def walk_for(log):
        """a directory walk the observed upload order is compatible with: the ordinary files in the order in
        which their uploads were attempted (then the ones never reached, in the order of the fault-free run),
        with the directory's own sidecar and inventory moved to the FRONT - S3.upload_order must move them back"""
        attempted = []
        for e in log:
            if e["kind"] in ("put", "mp-create") and e["key"] in upload_ref and e["key"] not in attempted:
                attempted.append(e["key"])
        seq = attempted + [k for k in upload_ref if k not in attempted]
        inv = [k for k in seq if k[len(strip):] == "inventory.json"]
        sc = [k for k in seq if k[len(strip):].startswith("inventory.json.")]
        return sc + inv + [k for k in seq if k not in inv and k not in sc]

    def files_term(keys):
        return coq_list([coq_ufile(k[len(strip):], len(fin[k]), ctok(k, fin[k])) for k in keys])

    def obs(log, cls, after):
        c = {"ok": 0, "panic": 2}.get(cls, 1)
        return "%d %s %s" % (c, coq_list([coq_req(e) for e in log]), coq_bucket(restrict(after)))
    if rec["is_new"]:
        def term(fa, fr, log, cls, after):
            return "check_object_run %s %s %s %s %s %s" % (fa, coq_str(cp), coq_str(rec["root"]), files_term(walk_for(log)), bk, obs(log, cls, after))
    else:
        inv_k, sc_k = root_full + "/inventory.json", root_full + "/" + (rec["sidecar_name"] or "inventory.json.sha512")
        decl = [k for k in stored_ref if k.startswith(root_full + "/0=ocfl_object_")]
        up = "(Some (%s, %s))" % (coq_str(decl[0][len(root_full) + 1:]), coq_str(ctok(decl[0], fin[decl[0]]))) if decl else "None"

        def inp(log):
            return "(mkNv %s %s %s %s %s %s %s)" % (
                coq_str(rec["root"]), coq_str(rec["vstr"]), files_term(walk_for(log)),
                coq_ufile("inventory.json", len(fin[inv_k]), ctok(inv_k, fin[inv_k])),
                coq_ufile(sc_k.rsplit("/", 1)[-1], len(fin[sc_k]), ctok(sc_k, fin[sc_k])),
                coq_str(rec["old_sidecar_name"] or sc_k.rsplit("/", 1)[-1]), up)

        def term(fa, fr, log, cls, after):
            return "check_version_run %s %s %s %s %s %s" % (fa, fr, coq_str(cp), inp(log), bk, obs(log, cls, after))
    terms.append(("ref", term("None", "None", rec["ref_corr_log"], "ok", rec["ref_final"])))
    for f in rec["faults"]:
        terms.append(("fault", term("(Some %d)" % f["k"], "None", f["log"], f["class"], f["after"])))
    for f in rec["read_faults"]:
        terms.append(("read-fault", term("None", "(Some %d)" % f["j"], f["log"], f["class"], f["after"])))
    return terms


# --------------------------------------------------------------------------- scenarios

def scenarios(ctx):
    """(cfg, prefix, page size, ops) - commits and upgrades in the histories are swept"""
    rng = ctx.rng
    base = {"repo_spec": "1.1", "obj_spec": "1.1", "alg": "sha512", "cdir": "content", "pad": 0, "ext_staging": True, "fresh_handle": False}
    f = lambda name, c, dst=None: {"op": "cp_ext", "files": [[name, c]], "dst": dst or name, "recursive": False}
    out = []

    def sc(cfg, prefix, ps, ops, oid):
        out.append((dict(base, **cfg), prefix, ps, [dict(o, id=o.get("id", oid)) for o in ops]))
    # new object, plain version numbers; then a new version that adds, removes and re-adds
    sc({"layout": "0002"}, None, 1000,
       [{"op": "new"}, f("a.txt", 2), f("b.txt", 3, "dir/b.txt"), {"op": "commit"},
        f("c.txt", 4), {"op": "rm", "paths": ["a.txt"], "recursive": False}, f("u.txt", 1, "dir/ü.txt"), {"op": "commit"}], "obj-0")
    # new object with zero-padded version numbers (walk-order class), sha256, other content dir; a second object next to it
    sc({"layout": "0004", "pad": 2, "alg": "sha256", "cdir": "c d"}, "pre/fix", 2,
       [{"op": "new"}, f("a.txt", 2), {"op": "commit"}, {"op": "new", "id": "obj-1"}, dict(f("x.txt", 5), id="obj-1"),
        {"op": "commit", "id": "obj-1"}, f("b.txt", 3), {"op": "commit"}], "obj-0")
    # upgrade 1.0 -> 1.1 with staged changes, no layout (explicit object root)
    sc({"layout": "none", "obj_spec": "1.0"}, "p", 3,
       [{"op": "new"}, f("a.txt", 2), {"op": "commit"}, f("b.txt", 3), {"op": "upgrade_object", "spec": "1.1"},
        f("c.txt", 4), {"op": "commit"}], "obj-0")
    # multipart: a file just above the part size next to small files, new version; (thorough: also as new object, 2 full parts + rest)
    sc({"layout": "0003"}, "pre/fix", 1000,
       [{"op": "new"}, f("a.txt", 2), {"op": "commit"}, f("big.bin", "big5p1"), f("edge.bin", "big5"), f("z.txt", 3), {"op": "commit"}], "obj-0")
    # the inputs of both repaired classes at once: zero-padded version directories (v00001: the walk of the staged
    # object used to list the root inventory early), sha256 sidecar, 1.0 object upgraded WITHOUT further staged changes
    sc({"layout": "0003", "pad": 5, "alg": "sha256", "obj_spec": "1.0", "cdir": "c"}, "q", 1000,
       [{"op": "new"}, f("a.txt", 2), f("b.txt", 3, "inventory.json.d/b.txt"), {"op": "commit"},
        f("c.txt", 4), {"op": "commit"}, {"op": "upgrade_object", "spec": "1.1"}], "obj-0")
    if not ctx.quick():
        sc({"layout": "0006", "pad": 4}, None, 1,
           [{"op": "new", "id": "urn:x:1"}, dict(f("big.bin", "big11"), id="urn:x:1"), dict(f("s.txt", 1), id="urn:x:1"),
            {"op": "commit", "id": "urn:x:1"}], "urn:x:1")
        cfgs = hist.configurations(rng, 10)
        for i, cfg in enumerate(cfgs):
            cfg = dict(cfg, ext_staging=True, fresh_handle=False)
            ops = hist.gen_history(rng, cfg, 30, n_objects=2)
            out.append((cfg, [None, "pre/fix", "q"][i % 3], [1, 2, 3, 1000][i % 4], ops))
    return out


def run_scenario(ctx, idx, scen, modes):
    cfg, prefix, ps, ops = scen
    stub = s3stub.S3Stub(page_size=ps).start()
    bucket = "c16b%d" % idx
    r = None
    try:
        r = s3stub.make_s3_runner(ctx, cfg, "c16-%d" % idx, stub, bucket, prefix)
        sw = Sweep(ctx, r, stub, bucket, prefix)
        occ = {}
        max_sweeps = 3 if ctx.quick() else 6
        for k, op in enumerate(ops):
            op = c15.resolve(op, occ)
            if op["op"] in ("commit", "upgrade_object"):
                cmd = r.concrete(op)
                if len(sw.records) < max_sweeps:
                    res = sw.run(op, cmd, modes, "s%d.%d" % (idx, k))
                else:
                    res = r.s.call(cmd)
                if "ok" in res:
                    occ = {x: v for x, v in occ.items() if x[0] != op["id"]}
            else:
                cmd, res = r.step(c15.materialise(op))
                if op["op"] == "purge" and "ok" in res:
                    occ = {x: v for x, v in occ.items() if x[0] != op["id"]}
                if op["op"] in ("cp_int", "mv_int", "cp_ext", "mv_ext") and c15.staged_duplicates(r, op["id"]):
                    r.step({"op": "reset_all", "id": op["id"]})
        for rec in sw.records:
            rec["cfg"], rec["ops"], rec["page_size"] = cfg, ops, ps
        return sw.records
    finally:
        if r is not None:
            r.close()
        stub.stop()


def run(ctx):
    import concurrent.futures
    proof = common.proof_stage(ctx)
    common.build_harness()
    ok, log = common.coq_make(["theories/Corr/CheckS3.vo"])
    if not ok:
        raise common.BuildError("Corr/CheckS3.v does not build:\n" + log[-3000:])
    scens = scenarios(ctx)
    modes = ("500", "drop")
    with concurrent.futures.ThreadPoolExecutor(max_workers=min(8, common.NPROC)) as ex:
        results = list(ex.map(lambda a: run_scenario(ctx, a[0], a[1], modes), enumerate(scens)))
    for n, rs in enumerate(results):
        if not rs:
            raise common.BuildError("scenario %d of checks/c16.py committed nothing (generator out of date?)" % n)
    recs = [x for rs in results for x in rs]

    terms, owners = [], []
    for ri, rec in enumerate(recs):
        for name, t in model_terms(rec):
            terms.append(t)
            owners.append((ri, name))
    vals = common.coq_eval("c16", ["Base.Bytes", "Model.S3", "Corr.CheckS3"], terms, batch=40)
    by_rec = {}
    for (ri, name), v in zip(owners, vals):
        by_rec.setdefault(ri, []).append((name, v))

    dist = {"commits_swept": 0, "new_object": 0, "new_version": 0, "upgrade": 0, "fault_runs": 0, "by_failed_kind": {}, "by_mode": {},
            "by_stage": {}, "dangling_multipart_uploads_after_fault": 0, "requests_per_commit": [],
            "zero_padded_new_objects": 0, "restore_puts_seen": 0, "reads_before_upload_seen": 0,
            "read_fault_runs": 0, "by_read": {},
            "model_checks": 0, "prefixes": {}}
    for ri, rec in enumerate(recs):
        mv = by_rec.get(ri, [])
        dist["commits_swept"] += 1
        dist["new_object" if rec["is_new"] else "upgrade" if rec["op"] == "upgrade_object" else "new_version"] += 1
        dist["requests_per_commit"].append(rec["n_requests"])
        dist["prefixes"][str(rec["prefix"])] = dist["prefixes"].get(str(rec["prefix"]), 0) + 1
        dist["model_checks"] += len(mv)
        dist["reads_before_upload_seen"] += sum(1 for e in rec["ref_corr_log"] if e["kind"] == "get")
        if rec["is_new"] and rec["vstr"].startswith("v0"):
            dist["zero_padded_new_objects"] += 1
        inp = {"cfg": rec["cfg"], "ops": rec["ops"], "prefix": rec["prefix"], "page_size": rec["page_size"], "commit": rec["label"], "object": rec["oid"]}
        it = iter(mv)
        ref_ok = next(it)[1] == "true"
        ctx.count(("order", rec["label"], rec["prefix"]), nontrivial=True,
                  sample={"commit": rec["label"], "kind": rec["op"], "new_object": rec["is_new"],
                          "requests": [(e["kind"], e["key"][-40:]) for e in rec["ref_corr_log"]],
                          "order_violation": rec["order_msg"], "model_agrees": ref_ok})
        if rec["order_msg"]:
            ctx.violation("impl-violation", {"input": inp, "observed": rec["order_msg"],
                                             "requests": [(e["kind"], e["key"]) for e in rec["ref_log"]],
                                             "expected": "root inventory.json is stored after every key of the new version and before its sidecar"})
        elif not ref_ok:
            common.corr_break(ctx, "Corr.CheckS3 fault-free run (model S3.v vs s3.rs)",
                              {"input": inp, "requests": [(e["kind"], e["key"]) for e in rec["ref_corr_log"]]})
        for f in rec["faults"]:
            agree = next(it)[1] == "true"
            dist["fault_runs"] += 1
            dist["by_failed_kind"][f["failed_kind"]] = dist["by_failed_kind"].get(f["failed_kind"], 0) + 1
            dist["by_mode"][f["mode"]] = dist["by_mode"].get(f["mode"], 0) + 1
            dist["by_stage"][f["stage"]] = dist["by_stage"].get(f["stage"], 0) + 1
            dist["dangling_multipart_uploads_after_fault"] += f["pending_uploads"]
            if f["stage"] != "upload":
                at = next((n for n, e in enumerate(f["log"]) if e.get("fault")), len(f["log"]))
                dist["restore_puts_seen"] += sum(1 for e in f["log"][at + 1:] if e["kind"] == "put")
            finp = dict(inp, fail_request=f["k"], mode=f["mode"], failed=f["failed_kind"], stage=f["stage"])
            ctx.count(("fault", rec["label"], rec["prefix"], f["k"], f["mode"]), nontrivial=True,
                      sample={"commit": rec["label"], "fail_request": f["k"], "mode": f["mode"], "failed": f["failed_kind"],
                              "stage": f["stage"], "result": f["class"], "violation": f["msg"], "model_agrees": agree})
            if f["msg"]:
                ctx.violation("impl-violation", {"input": finp, "observed": f["msg"],
                                                 "requests": [(e["kind"], e["key"], e["status"]) for e in f["log"]],
                                                 "expected": "error reported, bucket as before the commit, staged version kept, retry succeeds"})
            elif not agree:
                common.corr_break(ctx, "Corr.CheckS3 faulted run (model S3.v vs s3.rs)",
                                  {"input": finp, "requests": [(e["kind"], e["key"], e["status"]) for e in f["log"]]})
        for f in rec["read_faults"]:
            agree = next(it)[1] == "true"
            dist["read_fault_runs"] += 1
            dist["by_read"][f["what"]] = dist["by_read"].get(f["what"], 0) + 1
            finp = dict(inp, fail_request_of_all=f["k"], mode=f["mode"], failed=f["what"], read_position=f["j"])
            ctx.count(("read-fault", rec["label"], rec["prefix"], f["k"], f["mode"]), nontrivial=True,
                      sample={"commit": rec["label"], "failed": f["what"], "mode": f["mode"], "result": f["class"],
                              "violation": f["msg"], "model_agrees": agree})
            if f["msg"]:
                ctx.violation("impl-violation", {"input": finp, "observed": f["msg"],
                                                 "requests": [(e["kind"], e["key"], e["status"]) for e in f["log"]],
                                                 "expected": "error reported, no mutating request, bucket as before the commit, staged version kept, retry succeeds"})
            elif not agree:
                common.corr_break(ctx, "Corr.CheckS3 run with a failed read (model S3.v vs s3.rs)",
                                  {"input": finp, "requests": [(e["kind"], e["key"], e["status"]) for e in f["log"]]})
    for what in ("get-root-inventory", "get-root-sidecar", "list-declarations", "get-declaration"):
        if not dist["by_read"].get(what):
            common.corr_break(ctx, "no run failed the read %s (regression input of /repo commit 862b96a)" % what, {"by_read": dist["by_read"]})
    # the generator must have reached the inputs of the two repaired classes
    for stage in ("root-sidecar", "declaration-put", "declaration-delete"):
        if not dist["by_stage"].get(stage):
            common.corr_break(ctx, "no fault run reached stage %s (input of the repaired class root-inventory-rollback)" % stage, {"by_stage": dist["by_stage"]})
    if not dist["zero_padded_new_objects"]:
        common.corr_break(ctx, "no zero-padded new object was committed (input of the repaired class new-object-walk-order)", {})
    ctx.coverage["traces_validated_against_impl"] = dist["fault_runs"] + dist["read_fault_runs"] + dist["commits_swept"]
    ctx.coverage["distribution"] = dist
    ctx.assumptions.append("the S3 stand-in vplib/s3stub.py replaces real S3; a failed request (HTTP 500 or connection closed before an answer) has no effect on the bucket; one fault per commit, at a mutating request (PUT, multipart, DELETE) or at one of the reads of a version commit (GET of what it replaces, declaration listing); a second failure during the rollback is outside the single-failure quantifier of the property")
    ctx.assumptions.append("dangling multipart uploads (a failed CompleteMultipartUpload is not aborted, s3.rs:1155-1166) are counted in the coverage, they are not keys")
    return common.finish_with_proof(ctx, proof,
        rule="every commit / upgrade of the scenario histories (new object, new version, upgrade; small and multipart files; plain and "
             "zero-padded version numbers; bucket root and nested prefix) is run fault-free and then once per mutating request and fault "
             "mode (HTTP 500, dropped connection), and for version commits once per read of what is replaced and mode; "
             "distinct = (commit, prefix, failed request number, mode); all are non-trivial")


def replay(ctx, body):
    inp = body.get("input")
    if not inp or "ops" not in inp:
        return run(ctx)
    common.build_harness()
    recs = run_scenario(ctx, 0, (inp["cfg"], inp["prefix"], inp.get("page_size", 1000), inp["ops"]), ("500", "drop"))
    for rec in recs:
        if rec["order_msg"]:
            ctx.violation("impl-violation", {"input": inp, "observed": rec["order_msg"]})
        for f in rec["faults"]:
            if f["msg"]:
                ctx.violation("impl-violation", {"input": dict(inp, fail_request=f["k"], mode=f["mode"]), "observed": f["msg"]})
        for f in rec["read_faults"]:
            if f["msg"]:
                ctx.violation("impl-violation", {"input": dict(inp, fail_request_of_all=f["k"], mode=f["mode"], failed=f["what"]), "observed": f["msg"]})
    return ctx.finish(rule="replay of one recorded scenario")
