"""C17 - validate always terminates with a verdict, whatever is on disk (partial).

Stage 1 (proof): Props/C17.v (cost of validate_version_nums, guards before the unwraps,
  PrettyPrintSet, ContentPathsIter, the repository iterator).
Stage 2 (correspondence): three families whose abstraction is exact by construction
  (versions block, header fields, cross-inventory checks) - the real validator's error
  counts / panic sites against Model/VCode.v, evaluated in Coq (Corr/CheckVCode.v).
Stage 3 (direct search): object roots mutated at byte, JSON and directory level, validated by
  the real code (debug harness and release CLI) in child processes under a wall-clock and an
  address-space limit; oracle = panic / abort / timeout / memory blow-up / repository
  validation not reaching the remaining objects.  Failures inside the class of
  Model/KnownC17.v (quadratic-path, decided by the Coq classifier on the abstracted input) are
  known findings.
  The classes repaired in /repo (blank-id b116ae5, version-gap 719e6a5 + f842f41, wide-padding
  d5a9e2d, empty-pps-debug 547c92e, empty-manifest-entry 7c90d82, uri-colon-segment 389bfd0) are
  still generated - at random by the families and as dedicated members - as must-pass inputs
  (family "regress" and the scripted members of family "cross"): any failure there, or a verdict
  that does not report the problem (E037 / E010 within the linear budget / E066 / W005 / W009),
  is a violation.
"""
import base64
import concurrent.futures
import copy
import hashlib
import json
import os
import random
import re
import resource
import shutil
import stat
import subprocess
import sys
import time

from vplib import common, hist
from vplib.common import coq_str, coq_list, coq_bool

sys.setrecursionlimit(12000)       # the driver itself parses and copies deeply nested JSON

FIX = os.path.join(common.REPO, "resources", "test", "validate")
T_LIMIT = 20                 # seconds of wall clock per validation
AS_LIMIT = 2 << 30           # address space of the child
U32 = 4294967295
IMPORTS = ["Base.Bytes", "Model.VersionNum", "Model.VCode", "Model.KnownC17", "Corr.CheckVCode"]

# failure kind -> known classes that can explain it (a kind without entry is never excused)
NEED = {"timeout": {"quadratic-path"}, "oom": {"quadratic-path"}}
MAX_LISTED = 100             # errors per version key the repaired validate_version_nums may record (Props/C17.v C17_vnums_cost_linear)


# --------------------------------------------------------------------------- JSON trees with duplicate keys

class O(list):
    """JSON object as an ordered list of (key, value) pairs (duplicates allowed)"""


class Raw(str):
    """literal JSON text"""


def jdumps(n):
    if isinstance(n, Raw):
        return str(n)
    if isinstance(n, O):
        return "{" + ",".join(jdumps(str(k)) + ":" + jdumps(v) for k, v in n) + "}"
    if isinstance(n, dict):
        return "{" + ",".join(jdumps(str(k)) + ":" + jdumps(v) for k, v in n.items()) + "}"
    if isinstance(n, (list, tuple)):
        return "[" + ",".join(jdumps(x) for x in n) + "]"
    if isinstance(n, str):
        return json.dumps(n, ensure_ascii=False)
    return json.dumps(n)


def jbytes(n):
    return jdumps(n).encode("utf-8", "surrogatepass")


def jload_pairs(data):
    """parse with every object as O(pairs); None when Python cannot parse it"""
    try:
        if isinstance(data, bytes):
            data = data.decode("utf-8")
        return json.loads(data, object_pairs_hook=lambda p: O(p))
    except Exception:
        return None


def first(obj, key):
    if isinstance(obj, O):
        for k, v in obj:
            if k == key:
                return v
    return None


def walk(node, path=()):
    """(path, node) for every node; path = tuple of indices; for O the index addresses the pair"""
    yield path, node
    if isinstance(node, O):
        for i, (k, v) in enumerate(node):
            yield from walk(v, path + (i,))
    elif isinstance(node, list):
        for i, v in enumerate(node):
            yield from walk(v, path + (i,))


def keys_of(root, path):
    """names of the object keys along a path (array steps give '#')"""
    out, n = [], root
    for i in path:
        if isinstance(n, O):
            out.append(n[i][0])
            n = n[i][1]
        else:
            out.append("#")
            n = n[i]
    return out


def get_parent(root, path):
    n = root
    for i in path[:-1]:
        n = n[i][1] if isinstance(n, O) else n[i]
    return n


# --------------------------------------------------------------------------- running the real code

def _limits():
    resource.setrlimit(resource.RLIMIT_AS, (AS_LIMIT, AS_LIMIT))
    resource.setrlimit(resource.RLIMIT_CORE, (0, 0))


def panic_kind(msg):
    if "Object IDs may not be blank" in msg:
        return "blank-id"
    if "Option::unwrap()" in msg:
        return "unwrap-none"
    if "subtract with overflow" in msg:
        return "sub-overflow"
    if "Formatting argument out of range" in msg:
        return "fmt-width"
    if "with overflow" in msg:
        return "arith-overflow"
    if "Result::unwrap()" in msg and "`Err` value: ()" in msg:
        return "unwrap-unit"
    if "Result::unwrap()" in msg:
        return "unwrap-err"
    return "other"


def _run_proc(cmd, inp, timeout, want_stdout):
    t0 = time.time()
    p = subprocess.Popen(cmd, stdin=subprocess.PIPE if inp is not None else subprocess.DEVNULL,
                         stdout=subprocess.PIPE if want_stdout else subprocess.DEVNULL,
                         stderr=subprocess.PIPE, preexec_fn=_limits)
    try:
        out, err = p.communicate(inp, timeout=timeout)
        return p.returncode, out or b"", err or b"", time.time() - t0, False
    except subprocess.TimeoutExpired:
        p.kill()
        try:
            p.communicate(timeout=10)
        except Exception:
            pass
        return None, b"", b"", time.time() - t0, True


def summarize_errors(v):
    codes = {}
    for e in v.get("errors", []):
        loc = e[1]
        codes.setdefault(loc, {})
        codes[loc][e[0]] = codes[loc].get(e[0], 0) + 1
    warns = {}
    for w in v.get("warnings", []):
        warns.setdefault(w[1], {})
        warns[w[1]][w[0]] = warns[w[1]].get(w[0], 0) + 1
    return codes, warns


def run_vh(vh, root, cmd, timeout=T_LIMIT):
    """one `vh hist` child: open the storage root, run one command; returns an outcome dict"""
    inp = (json.dumps({"cmd": "open", "h": "A", "root": root, "staging": None}) + "\n" +
           json.dumps(dict(cmd, h="A")) + "\n").encode()
    rc, out, err, dt, to = _run_proc([vh, "hist"], inp, timeout, True)
    if to:
        return {"kind": "timeout", "t": round(dt, 1)}
    lines = [l for l in out.split(b"\n") if l.strip()]
    if rc != 0 or len(lines) < 2:
        e = err.decode("utf-8", "replace")
        if "memory allocation" in e or "out of memory" in e.lower():
            return {"kind": "oom", "rc": rc, "t": round(dt, 1)}
        if len(lines) >= 1 and len(lines) < 2 and rc == 0:
            return {"kind": "harness", "msg": "no answer"}
        return {"kind": "crash", "rc": rc, "stderr": e[-300:], "t": round(dt, 1)}
    try:
        o0 = json.loads(lines[0])
        o = json.loads(lines[1])
    except Exception as ex:
        return {"kind": "harness", "msg": "bad json from harness: %s" % ex}
    if "ok" not in o0:
        return {"kind": "harness", "msg": "cannot open storage root: %r" % (o0,)}
    if "panic" in o:
        return {"kind": "panic", "panic": panic_kind(o["panic"]), "msg": o["panic"][:200], "t": round(dt, 1)}
    if "err" in o:
        return {"kind": "error", "err": o["err"]["kind"], "t": round(dt, 1)}
    v = o["ok"]
    if "objects" in v:       # validate_repo
        objs = []
        for x in v["objects"]:
            if "ok" in x:
                c, _ = summarize_errors(x["ok"])
                objs.append({"path": x["ok"].get("path"), "nerr": len(x["ok"].get("errors", []))})
            else:
                objs.append({"err": x["err"]["kind"]})
        return {"kind": "verdict", "objects": objs, "t": round(dt, 1)}
    codes, warns = summarize_errors(v)
    return {"kind": "verdict", "codes": codes, "warns": warns, "nerr": len(v.get("errors", [])),
            "id": (v.get("id") or "")[:80], "t": round(dt, 1)}


def run_cli(rocfl, root, args, timeout=T_LIMIT):
    rc, out, err, dt, to = _run_proc([rocfl, "-r", root, "validate"] + args, None, timeout, False)
    if to:
        return {"kind": "timeout", "t": round(dt, 1)}
    e = err.decode("utf-8", "replace")
    if rc in (0, 1, 2):
        return {"kind": "exit", "rc": rc, "t": round(dt, 1)}
    if rc == 101:
        return {"kind": "panic", "panic": panic_kind(e), "msg": e[-300:], "t": round(dt, 1)}
    if "memory allocation" in e:
        return {"kind": "oom", "rc": rc, "t": round(dt, 1)}
    return {"kind": "crash", "rc": rc, "stderr": e[-300:], "t": round(dt, 1)}


def failed(o):
    """model-free oracle on one outcome: None or a message"""
    k = o["kind"]
    if k == "panic":
        return "validate panicked (%s)" % o.get("msg", "")[:120]
    if k == "timeout":
        return "validate did not finish within %d s" % T_LIMIT
    if k == "oom":
        return "validate exhausted the %d MiB address space" % (AS_LIMIT >> 20)
    if k == "crash":
        return "validate died (exit status %s)" % o.get("rc")
    return None


# --------------------------------------------------------------------------- feature extraction (abstraction)

VRE = re.compile(r"^v[0-9]+$")


def vparse(s):
    """(number, width) as VersionNum::try_from, or None"""
    if not isinstance(s, str) or not VRE.match(s) or not s.isascii():
        return None
    try:
        n = int(s[1:])
    except ValueError:      # python's digit limit on huge strings
        body = s[1:].lstrip("0")
        if len(body) > 10:
            return None
        n = int(body or "0")
    if n < 1 or n > U32:
        return None
    return n, (len(s) - 1 if s.startswith("v0") else 0)


def inventory_files(obj):
    out = []
    try:
        names = sorted(os.listdir(obj))
    except OSError:
        return out
    for d in [""] + [n for n in names if n.startswith("v")]:
        p = os.path.join(obj, d, "inventory.json") if d else os.path.join(obj, "inventory.json")
        try:
            st = os.lstat(p)
        except OSError:
            continue
        if stat.S_ISREG(st.st_mode) and st.st_size <= (8 << 20):
            out.append((d, p))
    return out


def features(obj):
    """per inventory.json of an object root: what the Coq classifier is evaluated on
    (the path with the largest slashes * length product)"""
    feats = []
    for d, p in inventory_files(obj):
        f = {"where": d or "root", "path": (0, 0)}
        try:
            data = open(p, "rb").read()
        except OSError:
            continue
        t = jload_pairs(data)
        if not isinstance(t, O):
            fallback_features(data, f)
            feats.append(f)
            continue
        vers = first(t, "versions")
        best = (0, 0)

        def see_path(s):
            nonlocal best
            if isinstance(s, str):
                c = (s.count("/"), len(s.encode("utf-8", "surrogatepass")))
                if c[0] * c[1] > best[0] * best[1]:
                    best = c
        man = first(t, "manifest")
        if isinstance(man, O):
            for k, v in man:
                if isinstance(v, list):
                    for s in v:
                        see_path(s)
        if isinstance(vers, O):
            for k, v in vers:
                stt = first(v, "state") if isinstance(v, O) else None
                if isinstance(stt, O):
                    for dk, arr in stt:
                        if isinstance(arr, list):
                            for s in arr:
                                see_path(s)
        f["path"] = best
        feats.append(f)
    return feats


STR_RE = re.compile(rb'"((?:[^"\\]|\\.)*)"')


def fallback_features(data, f):
    """the document is beyond Python's JSON parser (nesting depth, invalid tail ...): collect the
    candidates textually - a superset of what the validator can have read before it stopped"""
    data = data[:8 << 20]
    best = (0, 0)
    for m in STR_RE.finditer(data):
        sl = m.group(1).count(b"/")
        if sl * len(m.group(1)) > best[0] * best[1]:
            best = (sl, len(m.group(1)))
    f["path"] = best


def class_terms(feats, failure_kinds, dbg):
    """(slug, Coq term) candidates explaining the observed failure kinds of one case"""
    out = []
    need = set()
    for k in failure_kinds:
        need |= NEED.get(k, set())
    for f in feats:
        if "quadratic-path" in need and f["path"][0] > 0:
            out.append(("quadratic-path", "known_quadratic %d %d" % f["path"]))
    return out


# --------------------------------------------------------------------------- building object roots

def rm_tree(p):
    """remove a tree that may be deeper than PATH_MAX or hold special files"""
    if os.path.lexists(p):
        subprocess.run(["rm", "-rf", "--", p], stdout=subprocess.DEVNULL, stderr=subprocess.DEVNULL)
        shutil.rmtree(p, ignore_errors=True)


def write_file(p, data):
    os.makedirs(os.path.dirname(p), exist_ok=True)
    with open(p, "wb") as f:
        f.write(data)


def hexdigest(alg, data):
    try:
        return hashlib.new({"sha512/256": "sha512_256"}.get(alg, alg), data).hexdigest()
    except Exception:
        return hashlib.sha512(data).hexdigest()


def fix_sidecars(d):
    """rewrite every existing sidecar next to d/inventory.json with the digest of the current file"""
    inv = os.path.join(d, "inventory.json")
    try:
        if not stat.S_ISREG(os.lstat(inv).st_mode):
            return
        data = open(inv, "rb").read()
        for n in os.listdir(d):
            sp = os.path.join(d, n)
            if n.startswith("inventory.json.") and stat.S_ISREG(os.lstat(sp).st_mode):
                alg = n[len("inventory.json."):]
                open(sp, "w").write("%s  inventory.json\n" % hexdigest(alg, data))
    except OSError:
        pass


def set_inventory(obj, data, rng, where="", sync=True):
    """write inventory bytes into obj/<where>, keep sidecars consistent (mostly) and mirror the root
    inventory into the head version directory when that one was identical before"""
    d = os.path.join(obj, where) if where else obj
    inv = os.path.join(d, "inventory.json")
    old = None
    try:
        if stat.S_ISREG(os.lstat(inv).st_mode):
            old = open(inv, "rb").read()
        else:
            rm_tree(inv)          # a FIFO / link / directory left there by an earlier edit: opening it could block for ever
    except OSError:
        pass
    write_file(inv, data)
    if sync:
        fix_sidecars(d)
    if not where and old is not None and sync:
        for n in sorted(os.listdir(obj)):
            vp = os.path.join(obj, n, "inventory.json")
            if n.startswith("v") and os.path.isfile(vp) and not os.path.islink(vp):
                try:
                    if open(vp, "rb").read() == old:
                        write_file(vp, data)
                        fix_sidecars(os.path.join(obj, n))
                except OSError:
                    pass


def new_root(dest, base):
    """storage root dest/ with the base object copied to dest/obj"""
    rm_tree(dest)
    os.makedirs(dest)
    write_file(os.path.join(dest, "0=ocfl_1.1"), b"ocfl_1.1\n")
    obj = os.path.join(dest, "obj")
    shutil.copytree(base, obj, symlinks=True)
    return obj


# --------------------------------------------------------------------------- family: bytes

LITERALS = [b"", b"null", b"{}", b"[]", b"0", b'"x"', b"{", b'{"id":', b"\xff\xfe", b"\xef\xbb\xbf{}", b"true", b" \n\t ",
            b"{}{}", b"{} x", b"NaN", b"-", b"1e999", b"[" * 5000, b'{"a":' * 3000, b"\x00" * 64, b'{"id":"\xff"}',
            b'{"id":"\\ud800"}', b'{"id":"a","id":"b"}', b"{\"\\u0000\":1}", b"'single'", b"/* c */ {}", b"{,}", b"[1,]"]


def mutate_bytes(rng, data):
    k = rng.randrange(9)
    if k == 0:
        return bytes(rng.getrandbits(8) for _ in range(rng.choice([0, 1, 7, 100, 2000]))), "random"
    if k == 1:
        return data[:rng.randrange(len(data) + 1)], "truncate"
    if k == 2 and data:
        ba = bytearray(data)
        for _ in range(rng.randint(1, 8)):
            i = rng.randrange(len(ba))
            ba[i] ^= 1 << rng.randrange(8)
        return bytes(ba), "bitflip"
    if k == 3:
        i = rng.randrange(len(data) + 1)
        return data[:i] + bytes(rng.getrandbits(8) for _ in range(rng.randint(1, 40))) + data[i:], "insert"
    if k == 4 and data:
        i = rng.randrange(len(data))
        j = min(len(data), i + rng.randint(1, 60))
        return data[:i] + data[j:], "delete"
    if k == 5 and data:
        i = rng.randrange(len(data))
        j = min(len(data), i + rng.randint(1, 200))
        return data[:j] + data[i:j] * rng.randint(1, 3) + data[j:], "dupchunk"
    if k == 6:
        return rng.choice(LITERALS), "literal"
    if k == 7:
        return rng.choice([b"[" * (1 << 20), b"x" * (1 << 20), b'"' + b"a" * (1 << 20) + b'"', b" " * (1 << 20) + data,
                           b'{"id":"' + b"a" * (1 << 20) + b'"}']), "huge"
    if data:
        ba = bytearray(data)
        i = rng.randrange(len(ba))
        ba[i] = rng.choice(b'{}[]",:\\0v/')
        return bytes(ba), "structchar"
    return b"{", "literal"


SIDECARS = ["", "abc", "{d}", "{d} inventory.json", "{d}\tinventory.json", "{d}  inventory.json  extra", "{D}  inventory.json",
            "{d}  other.json", "  inventory.json", "{d}  inventory.json\n\n\n", "{d}\x00 inventory.json", "\xff\xfe",
            "{d} " * 50000, "x" * (1 << 20), "{d}  inventory.json\r\n", " {d} inventory.json"]


def fam_bytes(rng, obj):
    invs = inventory_files(obj)
    target = rng.choice(["inv", "inv", "inv", "sidecar", "namaste"])
    if target == "inv" and invs:
        d, p = rng.choice(invs)
        data, kind = mutate_bytes(rng, open(p, "rb").read())
        set_inventory(obj, data, rng, d, sync=rng.random() < 0.7)
        return "bytes/inventory/" + kind
    if target == "sidecar":
        cands = [os.path.join(dp, n) for dp, _, fs in os.walk(obj) for n in fs if n.startswith("inventory.json.")]
        cands = [p for p in cands if stat.S_ISREG(os.lstat(p).st_mode)]      # an earlier edit of a combo may have put a FIFO there
        if cands:
            p = rng.choice(cands)
            old = open(p, "rb").read().decode("utf-8", "replace").split()
            dg = old[0] if old else "0" * 128
            if rng.random() < 0.6:
                s = rng.choice(SIDECARS).replace("{d}", dg).replace("{D}", dg.upper())
                write_file(p, s.encode("utf-8", "surrogateescape") if "\xff" not in s else b"\xff\xfe")
                return "bytes/sidecar/literal"
            data, kind = mutate_bytes(rng, open(p, "rb").read())
            write_file(p, data)
            return "bytes/sidecar/" + kind
    cands = [n for n in os.listdir(obj) if n.startswith("0=")]
    if cands:
        p = os.path.join(obj, rng.choice(cands))
        if os.path.isfile(p):
            data, kind = mutate_bytes(rng, open(p, "rb").read())
            write_file(p, data)
            return "bytes/namaste/" + kind
    return "bytes/none"


# --------------------------------------------------------------------------- family: grammar-based JSON

HEX = "0123456789abcdef"


def g_digest(rng, n=128):
    r = rng.random()
    if r < 0.7:
        return "".join(rng.choice(HEX) for _ in range(n))
    return rng.choice(["", "zz", "A" * n, "a" * (n - 1), "a" * (n + 1), "g" * n, "0", " " * n, "é" * 8])


PATHS = ["a", "a/b", "dir/file.txt", "", "/", "//", "a//b", "../x", "..", ".", "./a", "/abs", "trail/", "v1/content/../x",
         "v1/content/a", "v2/content/a", "v0/content/x", "v99999999999/content/x", "v01/content/x", "v1", "v1/", "content",
         "extensions/0005-mutable-head/head/content/r1/x", "a\\b", "é", " ", "a/b/c/d/e/f/g/h", "x" * 300, "\u2028",
         "\u00fc1/content/file1.txt", "\u221a1/content/x", "\U0001F600/content/x", "v\u00e9/content/x", "\u00e9"]


def g_path(rng):
    r = rng.random()
    if r < 0.85:
        return rng.choice(PATHS)
    if r < 0.95:
        return "/".join(["a"] * rng.choice([50, 500, 1500]))
    return "p" * rng.choice([5000, 100000])


def g_scalar(rng):
    return rng.choice([0, 1, -1, 5, 1.5, True, False, None, "", "x", "v1", Raw("1e999"), Raw("-0"), Raw("1E-400"),
                       Raw("123456789012345678901234567890"), Raw("18446744073709551616"), Raw('"\\ud800"'),
                       Raw('"\\udc00\\ud800"'), Raw('"\\u0000"'), Raw('"\\u0041\\n"'), Raw('"\\/"'), "\u0001", "💾"])


def g_any(rng, depth=0):
    r = rng.random()
    if r < 0.5 or depth > 3:
        return g_scalar(rng)
    if r < 0.6:
        n = rng.choice([130, 200, 1000])
        return Raw(rng.choice(["[" * n + "]" * n, '{"a":' * n + "1" + "}" * n, "[" * n]))
    if r < 0.65:
        return "s" * rng.choice([1000, 1 << 20])
    if r < 0.8:
        return [g_any(rng, depth + 1) for _ in range(rng.randint(0, 3))]
    return O([(rng.choice(["", "a", "id", "v1", "state", "\u0000"]), g_any(rng, depth + 1)) for _ in range(rng.randint(0, 3))])


def maybe(rng, good, p=0.8):
    return good() if rng.random() < p else g_any(rng)


def g_map(rng, n):
    def one():
        return [g_path(rng) if rng.random() < 0.9 else g_any(rng) for _ in range(rng.choice([0, 1, 1, 1, 2, 3]))]
    o = O()
    for _ in range(rng.randint(0, 3)):
        o.append((g_digest(rng, n), maybe(rng, one, 0.85)))
    if o and rng.random() < 0.15:
        o.append(o[0])
    return o


CREATED = ["2021-01-01T00:00:00Z", "", "2021", "2021-01-01", "2021-01-01T00:00:00", "9999-12-31T23:59:60+23:59",
           "0000-01-01T00:00:00Z", "-0001-01-01T00:00:00Z", "2021-02-30T00:00:00Z", "2021-01-01T24:00:00Z",
           "2021-01-01T00:00:00+99:99", "+262143-01-01T00:00:00Z", "2021-01-01t00:00:00z", "2021-01-01 00:00:00Z",
           "2021-01-01T00:00:00.123456789012345678901234567890Z", "1e9", "2021-01-01T00:00:00-00:00", "2021-13-01T00:00:00Z",
           "262143-12-31T23:59:59Z", "-262144-01-01T00:00:00Z", "2021-01-01T00:00:00+24:00", "1970-01-01T00:00:00+23:59",
           "2021-01-01T00:00:60Z", "２０２１-01-01T00:00:00Z"]
VKEYS = ["v1", "v2", "v3", "v01", "v02", "v001", "v0", "v00", "v", "V1", "1", "", "v-1", "v1 ", "v+1", "v1.0", "v4", "v7", "v10",
         "v4294967296", "v99999999999", "v00000000000000000000000000000001", "v١", "vv1",
         "v4294967295", "v4294967294", "v400000000", "v104", "v0004294967295", "v" + "0" * 66000 + "3",
         # a multi-byte character where the parser expects the ASCII "v" / a digit (byte-offset slicing)
         "\u00e91", "\u221a1", "\U0001F6001", "v\u00e9", "\u00e9", "v1\u00e9", "\u0301v1"]


def g_user(rng):
    o = O()
    for k in rng.sample(["name", "address", "name", "zzz"], rng.randint(0, 3)):
        o.append((k, maybe(rng, lambda: rng.choice(["n", "", "mailto:a@b", ":", "http://[::1", "%zz", "a b", "x" * 5000]), 0.8)))
    return o


def g_version(rng, n):
    o = O()
    fields = ["created", "state", "message", "user"]
    for k in fields:
        if rng.random() < 0.9:
            o.append((k, {"created": lambda: maybe(rng, lambda: rng.choice(CREATED)),
                          "state": lambda: maybe(rng, lambda: g_map(rng, n)),
                          "message": lambda: maybe(rng, lambda: rng.choice(["m", "", "x" * 3000])),
                          "user": lambda: maybe(rng, lambda: g_user(rng))}[k]()))
    if rng.random() < 0.15:
        o.append((rng.choice(fields + ["extra"]), g_any(rng)))
    rng.shuffle(o)
    return o


def g_inventory(rng):
    n = rng.choice([128, 64])
    o = O()
    def versions():
        vs = O()
        ks = rng.sample(VKEYS, rng.randint(0, 4))
        if rng.random() < 0.6:
            ks = ["v1", "v2", "v3"][:rng.randint(1, 3)] + ks[:rng.randint(0, 1)]
        for k in ks:
            vs.append((k, maybe(rng, lambda: g_version(rng, n), 0.85)))
        return vs
    def fixity():
        f = O()
        for a in rng.sample(["md5", "sha1", "sha256", "sha512", "blake2b-512", "xx", ""], rng.randint(0, 2)):
            f.append((a, maybe(rng, lambda: g_map(rng, 32), 0.8)))
        return f
    gens = {
        "id": lambda: maybe(rng, lambda: rng.choice(["urn:x", "", " ", "x", "http://e.org/a b", "urn:" + "y" * 3000])),
        "type": lambda: maybe(rng, lambda: rng.choice(["https://ocfl.io/1.0/spec/#inventory", "https://ocfl.io/1.1/spec/#inventory", "", "x"])),
        "digestAlgorithm": lambda: maybe(rng, lambda: rng.choice(["sha512", "sha256", "md5", "SHA512", "", "sha512/256", "blake2b-160"])),
        "head": lambda: maybe(rng, lambda: rng.choice(VKEYS)),
        "contentDirectory": lambda: maybe(rng, lambda: rng.choice(["content", "", "/", "..", ".", "a/b", " ", "v1"])),
        "manifest": lambda: maybe(rng, lambda: g_map(rng, n)),
        "versions": lambda: maybe(rng, versions, 0.9),
        "fixity": lambda: maybe(rng, fixity),
    }
    for k in gens:
        if rng.random() < 0.9 or k in ("versions",):
            o.append((k, gens[k]()))
    for _ in range(rng.choice([0, 0, 0, 1, 2])):
        k = rng.choice(list(gens) + ["extra", ""])
        o.append((k, gens[k]() if k in gens and rng.random() < 0.7 else g_any(rng)))
    rng.shuffle(o)
    return o


def fam_grammar(rng, obj):
    invs = inventory_files(obj)
    where = rng.choice([d for d, _ in invs]) if invs and rng.random() < 0.3 else ""
    t = g_inventory(rng) if rng.random() < 0.93 else g_any(rng)
    set_inventory(obj, jbytes(t), rng, where, sync=rng.random() < 0.85)
    return "grammar/" + ("root" if not where else "version")


# --------------------------------------------------------------------------- family: single edits of a parsable inventory

ABSURD = {
    "head": ["v0", "v00", "v4294967295", "v4294967296", "v99999999999", "v01", "v2", "v9", "v", "V1", "1", "", "v-1", "v1 ", 5, None,
             "v0000000001", "v000000000000000000001", "v" + "0" * 65536 + "1", "v" + "0" * 70000 + "7",
             "\u00e91", "\u221a1", "\U0001F6001", "v\u00e9", "\u00e9"],
    "id": ["", " ", "a" * (1 << 20), "\u0001", "urn:x", "http://[::1", "%zz", "a:b:c:d", 5, None, [], "💾"],
    "type": ["", "https://ocfl.io/1.1/spec/#inventory", "https://ocfl.io/9.9/spec/#inventory", "x", 5, "https://ocfl.io/1.0/spec/#inventory "],
    "digestAlgorithm": ["sha256", "sha512", "md5", "sha1", "blake2b-512", "sha512/256", "SHA512", "", "sha-512", 5],
    "contentDirectory": ["", "/", "..", ".", "a/b", "content/", " ", "v1", "inventory.json", "c" * 300, 5, "content\u0000"],
    "created": CREATED + [5, None],
    "message": ["", "x" * (1 << 20), 5, None, []],
    "name": ["", "x" * 100000, 5, None],
    "address": ["", "mailto:", ":", "x" * 100000, 5, "http://[::1", "%"],
    "user": [5, "x", [], O(), None],
    "state": [5, "x", [], O(), None, O([("", [])]), O([("abc", "notarray")])],
    "manifest": [5, "x", [], O(), None, O([("", [])])],
    "versions": [5, "x", [], O(), None, O([("v1", 5)]), O([("v1", [])])],
    "fixity": [5, "x", [], O(), None, O([("md5", 5)]), O([("md5", O([("d", 5)]))]), O([("zz", O([("d", ["a", "a"])]))]),
               O([("md5", O([("D" * 32, ["v1/content/x"]), ("d" * 32, ["v1/content/x"])]))])],
}
ABSURD_VKEY = ["v0", "v00", "v01", "v02", "v2", "v3", "v5", "v9", "v1000", "v200000", "v", "", "x", "V1", "v4294967296",
               "v99999999999", "v0001", "v1 ", "v4294967295", "v4294967294", "v400000000", "v0004294967295", "v102", "v103", "v104",
               "v105", "v" + "0" * 65536 + "2", "v" + "0" * 70000 + "9", "\u00e91", "\u221a1", "\U0001F6001", "v\u00e9", "\u00e9"]
ABSURD_DIGEST = ["", "zz", "{U}", "{S}", "{L}", "g" * 128, "{O}"]
GENERIC = [5, -1, 1e308, Raw("1e999"), Raw("123456789012345678901234567890"), True, None, "", "x", [], O(),
           Raw("[" * 200 + "]" * 200), Raw('{"a":' * 200 + "1" + "}" * 200), Raw('"\\ud800"'), Raw('"\\u0000"')]


def fam_edit(rng, obj):
    invs = inventory_files(obj)
    parsed = []
    for d, p in invs:
        t = jload_pairs(open(p, "rb").read())
        if isinstance(t, O) and t:
            parsed.append((d, t))
    if not parsed:
        return fam_grammar(rng, obj)
    d, t = rng.choice(parsed)
    t = copy.deepcopy(t)
    nodes = [(p, n) for p, n in walk(t) if p]
    path, node = rng.choice(nodes)
    names = keys_of(t, path)
    parent = get_parent(t, path)
    i = path[-1]
    last = names[-1]
    ctx_name = names[-2] if len(names) >= 2 else ""
    r = rng.random()
    kind = "generic"
    if r < 0.12:
        del parent[i]
        kind = "delete"
    elif r < 0.22:
        parent.insert(i, copy.deepcopy(parent[i]))
        kind = "duplicate"
    elif r < 0.34 and isinstance(parent, O):
        k = parent[i][0]
        if ctx_name == "versions" or (len(names) == 2 and names[0] == "versions"):
            nk = rng.choice(ABSURD_VKEY)
            kind = "vkey"
        elif re.fullmatch(r"[0-9a-fA-F]{32,128}", k or ""):
            nk = rng.choice(ABSURD_DIGEST).replace("{U}", k.upper()).replace("{S}", k[:-1]).replace("{L}", k + "0") \
                .replace("{O}", hashlib.sha512(k.encode()).hexdigest()[:len(k)])
            kind = "digestkey"
        else:
            nk = rng.choice(["", "x", k.upper(), k + " ", "\u0000", "id"])
            kind = "key"
        parent[i] = (nk, parent[i][1])
    elif r < 0.62 and last in ABSURD:
        v = rng.choice(ABSURD[last])
        parent[i] = (parent[i][0], v) if isinstance(parent, O) else v
        kind = "absurd/" + last
    elif r < 0.80 and isinstance(node, str) and isinstance(parent, list) and not isinstance(parent, O):
        parent[i] = g_path(rng)
        kind = "path"
    elif r < 0.86 and isinstance(parent, list) and not isinstance(parent, O):
        parent.append(rng.choice(list(parent) + [g_path(rng)]))
        kind = "path-add"
    else:
        v = rng.choice(GENERIC) if rng.random() < 0.97 else "L" * (1 << 20)
        parent[i] = (parent[i][0], v) if isinstance(parent, O) else v
    set_inventory(obj, jbytes(t), rng, d, sync=rng.random() < 0.8)
    return "edit/" + kind


# --------------------------------------------------------------------------- family: directory structure

def deep_dirs(base, depth, name="d"):
    cwd = os.getcwd()
    try:
        os.makedirs(base, exist_ok=True)
        os.chdir(base)
        for _ in range(depth):
            os.mkdir(name)
            os.chdir(name)
    except OSError:
        pass
    finally:
        os.chdir(cwd)


def all_entries(obj):
    out = []
    for dp, ds, fs in os.walk(obj):
        for n in ds + fs:
            out.append(os.path.join(dp, n))
    return out


def fam_structure(rng, obj, allow_deep=True):
    ents = all_entries(obj)
    files = [p for p in ents if os.path.isfile(p) and not os.path.islink(p)]
    dirs = [obj] + [p for p in ents if os.path.isdir(p) and not os.path.islink(p)]
    vdirs = [p for p in dirs if re.fullmatch(r"v[0-9]+", os.path.basename(p))]
    k = rng.randrange(20)
    try:
        if k == 0 and files:
            os.remove(rng.choice(files))
            return "struct/delete-file"
        if k == 1 and files:
            write_file(rng.choice(files), b"")
            return "struct/zero-length"
        if k == 2 and files:
            p = rng.choice(files)
            os.chmod(p, 0)
            return "struct/chmod000"
        if k == 3 and files:
            p = rng.choice(files)
            os.remove(p)
            os.symlink(rng.choice(["/dev/zero", "/nonexistent", ".", "..", os.path.basename(p), "/etc/passwd", obj]), p)
            return "struct/symlink"
        if k == 4 and files:
            p = rng.choice(files)
            os.remove(p)
            os.mkfifo(p)
            return "struct/fifo"
        if k == 5 and files:
            p = rng.choice(files)
            os.remove(p)
            os.mkdir(p)
            if rng.random() < 0.5:
                write_file(os.path.join(p, "x"), b"x")
            return "struct/dir-for-file"
        if k == 6:
            d = rng.choice(dirs)
            n = rng.choice(["extra.txt", "inventory.json.md5", "inventory.json.sha1", "inventory.json.zz", "0=ocfl_object_1.0",
                            "0=ocfl_object_1.1", "0=ocfl_object_9.9", "0=ocfl_1.0", "0=", "v1", "v0", ".hidden", "inventory.json ",
                            "INVENTORY.JSON", "logs", "extensions", "content", "inventory.jsonl", "a" * 255, "x\ny", "é"])
            p = os.path.join(d, n)
            if not os.path.lexists(p):
                write_file(p, rng.choice([b"", b"x", b"ocfl_object_1.0\n", b"ocfl_object_1.1\n"]))
            return "struct/extra-file"
        if k == 7:
            d = rng.choice([obj] * 3 + dirs)
            n = rng.choice(["v0", "v01", "v00001", "v2", "v3", "v9", "v10", "vx", "v", "V1", "tmp", "logs", "extensions", "content",
                            "v4294967296", "v1 ", ".v1"])
            p = os.path.join(d, n)
            if not os.path.lexists(p):
                os.mkdir(p)
                r = rng.random()
                if r < 0.3:
                    write_file(os.path.join(p, "inventory.json"), b"{}")
                elif r < 0.5:
                    write_file(os.path.join(p, "content", "f"), b"f")
                elif r < 0.6:
                    os.mkdir(os.path.join(p, "content"))
            return "struct/extra-dir"
        if k == 8:
            d = rng.choice(dirs)
            deep_dirs(os.path.join(d, "deep"), rng.choice([5, 60, 150]))
            return "struct/deep-dirs"
        if k == 9 and allow_deep:
            d = rng.choice(dirs)
            deep_dirs(os.path.join(d, "deep"), 18, "n" * 250)      # path longer than PATH_MAX
            return "struct/deeper-than-path-max"
        if k == 10 and vdirs:
            p = rng.choice(vdirs)
            n = rng.choice(["v0", "v01", "v001", "v9", "x", "v1 ", "V1"])
            q = os.path.join(os.path.dirname(p), n)
            if not os.path.lexists(q):
                os.rename(p, q)
            return "struct/rename-version-dir"
        if k == 11 and vdirs:
            p = rng.choice(vdirs)
            shutil.rmtree(p)
            r = rng.random()
            if r < 0.3:
                write_file(p, b"file")
            elif r < 0.5:
                os.symlink(".", p)
            elif r < 0.7:
                os.mkdir(p)
            return "struct/replace-version-dir"
        if k == 12:
            ext = os.path.join(obj, "extensions")
            os.makedirs(ext, exist_ok=True)
            for n in rng.sample(["0001-digest-algorithms", "0005-mutable-head", "unknown-ext", "file.txt", "0004-x"], 2):
                p = os.path.join(ext, n)
                if n.endswith(".txt"):
                    write_file(p, b"x")
                else:
                    os.makedirs(p, exist_ok=True)
                    if "mutable" in n and rng.random() < 0.7:
                        write_file(os.path.join(p, "head", "inventory.json"), rng.choice(LITERALS))
                        write_file(os.path.join(p, "head", "content", "r1", "f"), b"f")
            return "struct/extensions"
        if k == 13:
            d = rng.choice(dirs)
            try:
                with open(os.path.join(os.fsencode(d), b"bad\xff\xfename"), "wb") as f:
                    f.write(b"x")
            except OSError:
                pass
            return "struct/non-utf8-name"
        if k == 14:
            d = rng.choice(dirs)
            for j in range(rng.choice([300, 2000])):
                open(os.path.join(d, "many%05d" % j), "wb").close()
            return "struct/many-files"
        if k == 15:
            cds = [p for p in dirs if os.path.basename(os.path.dirname(p)).startswith("v")] or dirs
            d = rng.choice(cds)
            sub = os.path.join(d, "nested")
            os.makedirs(os.path.join(sub, "v1", "content"), exist_ok=True)
            write_file(os.path.join(sub, "0=ocfl_object_1.0"), b"ocfl_object_1.0\n")
            write_file(os.path.join(sub, "inventory.json"), b"{}")
            return "struct/nested-object"
        if k == 16:
            for p in [q for q in files if os.path.basename(q).startswith("0=")]:
                os.remove(p)
                r = rng.random()
                if r < 0.3:
                    os.mkdir(p)
                elif r < 0.6:
                    os.symlink("/dev/zero", p)
            return "struct/no-namaste"
        if k == 17:
            cds = [p for p in dirs if os.path.basename(p) in ("content", "stuff", "c d")]
            if cds:
                p = rng.choice(cds)
                shutil.rmtree(p)
                r = rng.random()
                if r < 0.4:
                    write_file(p, b"not a dir")
                elif r < 0.7:
                    os.mkdir(p)
                else:
                    os.symlink("..", p)
            return "struct/content-dir"
        if k == 18:
            d = rng.choice(dirs)
            os.symlink(d, os.path.join(d, "loop"))
            return "struct/symlink-loop"
        if k == 19 and files:
            p = rng.choice(files)
            with open(p, "ab") as f:
                f.truncate(rng.choice([1 << 20, 16 << 20]))
            return "struct/sparse-big"
    except OSError:
        return "struct/oserror"
    return "struct/none"


# --------------------------------------------------------------------------- correspondence families (abstraction exact by construction)

def sval_term(v):
    """Coq sval for a JSON value written by jdumps: a string token (with or without escape
    sequences) is read as Cow<str> / String since 2f36fc5 - the model gets the decoded value"""
    if isinstance(v, str) and not isinstance(v, Raw):
        return "(SStr %s)" % coq_str(v)
    return "SOther"


def cval_term(v):
    if isinstance(v, O):
        return "CObj"
    return "CSeq" if isinstance(v, list) else "CScalar"


BAD_BODIES = [5, "x", [], None]      # not an object -> E047, no version


def bad_body(rng, good):
    r = rng.randrange(4)
    if r == 0:
        return rng.choice(BAD_BODIES)
    b = O(copy.deepcopy(good))
    if r == 1:
        return O([(k, ("not a date" if k == "created" else v)) for k, v in b])
    if r == 2:
        return O([(k, v) for k, v in b if k != "state"])
    return O([(k, (5 if k == "state" else v)) for k, v in b])


GAP_KEYS = [["v1", "v101"], ["v1", "v102"], ["v1", "v103"], ["v101"], ["v102"], ["v100"], ["v1", "v2", "v103", "v204", "v306"],
            ["v1", "v400000000"], ["v400000000"], ["v1", "v4294967294"], ["v1", "v4294967295"], ["v4294967295"], ["v0004294967295"],
            ["v1", "v2", "v4294967294", "v4294967295"], ["v001", "v200"], ["v001", "v102"], ["v1", "v50", "v150", "v300", "v4000"],
            ["v4294967295", "v1"], ["v103", "v1"], ["v1", "v00103", "v4294967295"],
            # zero-padded keys next to the maximum of their width (v0999, v00099999), after a large gap and before keys past it
            ["v0950", "v1005"], ["v1", "v0950", "v1005"], ["v0998", "v0999", "v1000"], ["v0500", "v0999", "v1000", "v1101"],
            ["v00099990", "v100010"], ["v001", "v0950", "v01005", "v1100"], ["v099", "v100", "v0300", "v1000"],
            ["v1", "\u00e92"], ["\u221a1"], ["v1", "v2", "\U0001F6003"]]


def gen_vkeys(rng):
    r = rng.random()
    if r < 0.22:
        # gaps around MAX_MISSING_VERSIONS_LISTED (serde.rs:1313) and numbers up to u32::MAX
        if rng.random() < 0.75:
            return list(rng.choice(GAP_KEYS))
        if rng.random() < 0.35:
            # padded keys around the maximum of their width, mixed with keys of other widths, small and large gaps
            w = rng.choice([2, 3, 4, 4, 5, 7])
            mx = 10 ** (w - 1) - 1
            n = max(1, mx - rng.choice([0, 1, 5, 49, 60, 101, 400]))
            ks = (["v1"] if rng.random() < 0.4 else []) + ["v" + str(n).rjust(w, "0")]
            m = n
            for _ in range(rng.randint(1, 3)):
                m = m + rng.choice([1, 2, 40, 55, 99, 100, 101, 150])
                w2 = rng.choice([0, 0, w, w + 1])
                ks.append("v" + str(m).rjust(w2, "0"))
            return list(dict.fromkeys(ks))
        a = rng.randint(1, 3)
        g = rng.choice([98, 99, 100, 101, 102, 1000, 10 ** 6, 4 * 10 ** 9])
        ks = ["v%d" % i for i in range(1, a + 1)] + ["v%d" % min(U32, a + 1 + g)]
        if rng.random() < 0.4:
            ks.append("v%d" % min(U32, a + 1 + g + rng.choice([1, 2, 101, 102])))
        return list(dict.fromkeys(ks))
    r = rng.random()
    if r < 0.2:
        k = rng.randint(1, 5)
        w = rng.choice([0, 0, 2, 3, 6])
        return ["v" + str(i).rjust(w, "0") for i in range(1, k + 1)]
    if r < 0.5:
        nums = sorted(rng.sample(range(1, 14), rng.randint(1, 5)))
        return ["v%d" % n for n in nums]
    if r < 0.6:
        return ["v1", "v%d" % rng.choice([1000, 65536, 100000, 200000])]
    if r < 0.75:
        return [rng.choice(["v1", "v01", "v001"]), rng.choice(["v2", "v02", "v002"]), rng.choice(["v3", "v03", "v0003"])]
    if r < 0.85:
        return rng.sample(["v1", "v01", "v2", "v002", "v3"], rng.randint(2, 5))
    if r < 0.95:
        ks = ["v1", "v2"] + rng.sample(["v0", "v", "x", "", "v4294967296", "V3", "v3 ", "v-1", "v00", "v4294967295x",
                                         'v"3', "v3\t", "v\\3", "v3\u0000", "\u00e93", "\u221a3", "\U0001F6003"], rng.randint(1, 3))
        rng.shuffle(ks)
        return ks
    return []


def fam_versions(rng, obj, fixed_keys=None):
    t = jload_pairs(open(os.path.join(obj, "inventory.json"), "rb").read())
    bodies = [v for _, v in first(t, "versions")]
    keys = list(fixed_keys) if fixed_keys else gen_vkeys(rng)
    if keys and not fixed_keys and rng.random() < 0.1:
        keys.append(rng.choice(keys))
    vers, abst = O(), []
    for k in keys:
        good = rng.choice(bodies)
        r0 = rng.random()
        if r0 < 0.86:
            vers.append((k, copy.deepcopy(good)))
            abst.append("(%s, BSome)" % coq_str(k))
        elif r0 < 0.98:
            vers.append((k, bad_body(rng, good)))
            abst.append("(%s, BNone)" % coq_str(k))
        else:
            vers.append((k, rng.choice([[1], ["x", "y"], [[]]])))        # non-empty array: the parse stops here
            abst.append("(%s, BSeq)" % coq_str(k))
    valid = [k for k in keys if vparse(k)]
    r = rng.random()
    if valid and r < 0.6:
        head = max(valid, key=lambda k: vparse(k)[0])
    elif valid and r < 0.75:
        head = rng.choice(valid)
    elif valid and r < 0.85:
        n = vparse(rng.choice(valid))[0]
        head = "v" + str(n).rjust(rng.choice([0, 2, 4]), "0")
    else:
        head = rng.choice(["v1", "v99", "v0", "v", "", "v3", "v4294967295"])
    fields = []
    for k, v in t:
        if k == "versions":
            fields.append((k, vers, "IVersions (VObj %s)" % coq_list(abst)))
        elif k == "head":
            fields.append((k, head, "IHead %s" % sval_term(head)))
        elif k == "manifest":
            fields.append((k, v, "IManifest CObj"))
        elif k == "fixity":
            fields.append((k, O(), "IFixity CObj"))
        else:
            name = {"id": "IId", "type": "IType", "digestAlgorithm": "IAlg", "contentDirectory": "ICdir"}[k]
            fields.append((k, v, "%s %s" % (name, sval_term(v))))
    rng.shuffle(fields)
    set_inventory(obj, jbytes(O([(k, v) for k, v, _ in fields])), rng)
    return "corr/versions", {"type": "visit", "items": coq_list(x for _, _, x in fields),
                             "keys": coq_list(coq_str(k) for k in keys), "w001": True,
                             "desc": {"keys": keys, "head": head}}


MISSING = object()
HDR = {
    "id": ["urn:x", "urn:x", "", "", "x y", 5, None, MISSING, 'a"b', "i" * 300, "é",
           # the scheme test of is_uri (serde.rs:1324-1336): members of the former uriparse class and their neighbours
           ":", "1:x", "::", "%3A:", "-:x", "+a:b", ".:", "a b:c", "\u00e9:x", "a\u00e9:x", "a:", "A1+.-:x", "a/b:c", "//h:1/p",
           "1a:x", "a_b:c", ":a:b"],
    "type": ["https://ocfl.io/1.0/spec/#inventory", "https://ocfl.io/1.0/spec/#inventory", "https://ocfl.io/1.1/spec/#inventory",
             "foo", "", 5, MISSING, 'q"'],
    "digestAlgorithm": ["KEEP", "KEEP", "KEEP", "md5", "sha1", "blake2b-512", "SHA512", "", 5, MISSING, "sha512/256", "sha\\512"],
    "head": ["KEEP", "KEEP", "KEEP", "v1", "v03", "v0", "v", "", 3, "v99", MISSING, "v4294967296", "v3\t", "\u00e91", "\u221a1"],
    "contentDirectory": ["KEEP", "KEEP", MISSING, "", ".", "..", "a/b", "/", 5, "c\\d", "other", "content"],
    "manifest": ["KEEP", "KEEP", "KEEP", "KEEP", 5, "x", [], MISSING],
    "versions": ["KEEP", "KEEP", "KEEP", "KEEP", 5, "x", [], MISSING],
    "fixity": [MISSING, MISSING, O(), 5, "x", []],
}
ITEM = {"id": "IId", "type": "IType", "digestAlgorithm": "IAlg", "head": "IHead", "contentDirectory": "ICdir"}


def fam_header(rng, obj):
    t = jload_pairs(open(os.path.join(obj, "inventory.json"), "rb").read())
    base = {k: v for k, v in t}
    fields = []
    for k in HDR:
        v = rng.choice(HDR[k]) if rng.random() < 0.45 else ("KEEP" if k in base else MISSING)
        if isinstance(v, str) and v == "KEEP":
            v = base.get(k, MISSING)
        if v is MISSING:
            continue
        if k in ITEM:
            fields.append((k, v, "%s %s" % (ITEM[k], sval_term(v))))
        elif k == "manifest":
            fields.append((k, v, "IManifest %s" % cval_term(v)))
        elif k == "versions":
            if isinstance(v, O):
                fields.append((k, v, "IVersions (VObj %s)" % coq_list("(%s, BSome)" % coq_str(vk) for vk, _ in v)))
            else:
                fields.append((k, v, "IVersions %s" % ("VSeq" if isinstance(v, list) else "VScalar")))
        else:
            fields.append((k, v, "IFixity %s" % cval_term(v)))
    if rng.random() < 0.2:
        k = rng.choice(["id", "head", "contentDirectory", "type"])
        v = rng.choice([x for x in HDR[k] if x is not MISSING and x != "KEEP"])
        fields.append((k, v, "%s %s" % (ITEM[k], sval_term(v))))
    if rng.random() < 0.15:
        fields.append((rng.choice(["extra", "Id", "x"]), rng.choice([1, "s", [], O()]), "IUnknown"))
    rng.shuffle(fields)
    set_inventory(obj, jbytes(O([(k, v) for k, v, _ in fields])), rng)
    return "corr/header", {"type": "visit", "items": coq_list(x for _, _, x in fields), "w001": False,
                           "desc": {"fields": [(k, v if not isinstance(v, (O, list)) else "<%s>" % type(v).__name__)
                                               for k, v, _ in fields]}}


# ---- cross-inventory family

ALGN = {512: ("sha512", 128), 256: ("sha256", 64)}


def dg(alg, d):
    return format(d, "x").rjust(ALGN[alg][1], "0")


def concrete_inventory(alg, head, versions, manifest, oid="urn:cross"):
    """abstract inventory -> JSON tree (valid by construction)"""
    inv = O([("id", oid), ("type", "https://ocfl.io/1.0/spec/#inventory"), ("digestAlgorithm", ALGN[alg][0]),
             ("head", "v%d" % head)])
    inv.append(("manifest", O([(dg(alg, d), ["v%d/content/c%d" % (v, p) for v, p in cps]) for d, cps in manifest])))
    vs = O()
    for v, st in versions:
        by = {}
        for p, d in st:
            by.setdefault(d, []).append("p%d" % p)
        vs.append(("v%d" % v, O([("created", "2021-01-%02dT00:00:00Z" % v), ("state", O([(dg(alg, d), ps) for d, ps in by.items()])),
                                 ("message", "m"), ("user", O([("name", "n"), ("address", "mailto:n@example.org")]))])))
    inv.append(("versions", vs))
    return inv


def ainv_term(alg, head, versions, manifest):
    return "(mkI %d %d %s %s)" % (
        alg, head,
        coq_list("(%d, %s)" % (v, coq_list("(%d, %d)" % e for e in st)) for v, st in versions),
        coq_list("(%d, %s)" % (d, coq_list("(%d, %d)" % c for c in cps)) for d, cps in manifest))


def gen_abs_inventory(rng, alg, head, truth, weird):
    """one inventory for versions 1..head; truth[v] = {path: content id}; content id c is stored
    under digest alg*100+c with content paths derived from the version where c first appears"""
    versions, used = [], {}
    for v in range(1, head + 1):
        st = dict(truth[v])
        if weird and rng.random() < 0.25 and st:
            p = rng.choice(list(st))
            r = rng.random()
            if r < 0.4:
                del st[p]
            elif r < 0.8:
                st[p] = rng.randint(1, 6)   # another content
            else:
                st[rng.randint(7, 9)] = st[p]
        ents = []
        for p, c in sorted(st.items()):
            d = alg * 100 + c
            ents.append((p, d))
            used.setdefault(d, v)
        versions.append((v, ents))
    manifest = []
    for d, v0 in sorted(used.items()):
        r = rng.random()
        c = d % 100
        if r < 0.55:
            cps = [(v0, c)]
        elif r < 0.7:
            cps = [(v0, c), (rng.randint(v0, head), 10 + c)]
        elif r < 0.8 and weird:
            cps = []                                               # "digest": []
        elif r < 0.9 and weird and head >= 2:
            cps = [(head, 20 + c), (head, 30 + c)]                 # content only in a later version
        else:
            cps = [(rng.randint(1, head), c)]
        manifest.append((d, cps))
    return versions, manifest


# dedicated members of two classes repaired in /repo, as exact cross-inventory cases (root sha512, v1 sha256):
#   (head, root versions, root manifest, [(dir, alg, head, versions, manifest)], E066 errors the repaired code must report)
CROSS_SCRIPTS = {
    # 7c90d82: a manifest entry "digest": [] used by a state; v1 declares its digest with [] too (equal sets, no E066) ...
    "empty-manifest-entry/both-empty": (2, [(1, [(1, 51210), (2, 51211)]), (2, [(1, 51210), (2, 51211)])],
                                        [(51210, [(1, 1)]), (51211, [])],
                                        [(1, 256, 1, [(1, [(1, 25620), (2, 25621)])], [(25620, [(1, 1)]), (25621, [])])], 0),
    # ... or stores it under a content path (E066)
    "empty-manifest-entry/root-empty": (2, [(1, [(1, 51210), (2, 51211)]), (2, [(1, 51210), (2, 51211)])],
                                        [(51210, [(1, 1)]), (51211, [])],
                                        [(1, 256, 1, [(1, [(1, 25620), (2, 25621)])], [(25620, [(1, 1)]), (25621, [(1, 2)])])], 1),
    "empty-manifest-entry/version-empty": (2, [(1, [(1, 51210), (2, 51211)]), (2, [(1, 51210), (2, 51211)])],
                                           [(51210, [(1, 1)]), (51211, [(1, 2)])],
                                           [(1, 256, 1, [(1, [(1, 25620), (2, 25621)])], [(25620, [(1, 1)]), (25621, [])])], 1),
    "empty-manifest-entry/version-empty-two-paths": (2, [(1, [(1, 51210), (2, 51211)]), (2, [(1, 51210), (2, 51211)])],
                                                     [(51210, [(1, 1)]), (51211, [(1, 2), (2, 3)])],
                                                     [(1, 256, 1, [(1, [(1, 25620), (2, 25621)])], [(25620, [(1, 1)]), (25621, [])])], 1),
    # 547c92e: both content paths of the state's digest lie in a later version: the empty filtered set is printed in the E066 message
    "empty-pps-debug/later-paths": (2, [(1, [(1, 51210)]), (2, [(1, 51210)])], [(51210, [(2, 1), (2, 2)])],
                                    [(1, 256, 1, [(1, [(1, 25620)])], [(25620, [(1, 1)])])], 1),
    "empty-pps-debug/later-paths-3": (3, [(1, [(1, 51210)]), (2, [(1, 51210)]), (3, [(1, 51210)])], [(51210, [(3, 1), (3, 2), (2, 3)])],
                                      [(2, 256, 2, [(1, [(1, 25620)]), (2, [(1, 25620)])], [(25620, [(1, 1)])]),
                                       (1, 256, 1, [(1, [(1, 25620)])], [(25620, [(1, 1)])])], None),
    # both at once: the empty filtered set against a digest declared with []
    "empty-pps-debug/later-paths-vs-empty-entry": (2, [(1, [(1, 51210)]), (2, [(1, 51210)])], [(51210, [(2, 1), (2, 2)])],
                                                   [(1, 256, 1, [(1, [(1, 25620)])], [(25620, [])])], 0),
}


def fam_cross_scripted(dest, name):
    head, rv, rm, dirs_spec, want = CROSS_SCRIPTS[name]
    rm_tree(dest)
    obj = os.path.join(dest, "obj")
    os.makedirs(obj)
    write_file(os.path.join(dest, "0=ocfl_1.1"), b"ocfl_1.1\n")
    write_file(os.path.join(obj, "0=ocfl_object_1.0"), b"ocfl_object_1.0\n")
    data = jbytes(concrete_inventory(512, head, rv, rm))
    for d in (obj, os.path.join(obj, "v%d" % head)):
        write_file(os.path.join(d, "inventory.json"), data)
        write_file(os.path.join(d, "inventory.json.sha512"), ("%s  inventory.json\n" % hexdigest("sha512", data)).encode())
    dirs = []
    for v, alg, ih, vv, vm in dirs_spec:
        vd = os.path.join(obj, "v%d" % v)
        data = jbytes(concrete_inventory(alg, ih, vv, vm))
        write_file(os.path.join(vd, "inventory.json"), data)
        write_file(os.path.join(vd, "inventory.json." + ALGN[alg][0]), ("%s  inventory.json\n" % hexdigest(ALGN[alg][0], data)).encode())
        dirs.append("(%d, %s)" % (v, ainv_term(alg, ih, vv, vm)))
    return "corr/cross-regress/" + name, {
        "type": "cross", "root": ainv_term(512, head, rv, rm), "dirs": coq_list(dirs), "want_e066": want,
        "desc": {"script": name, "head": head}}


def fam_cross(rng, dest):
    rm_tree(dest)
    obj = os.path.join(dest, "obj")
    os.makedirs(obj)
    write_file(os.path.join(dest, "0=ocfl_1.1"), b"ocfl_1.1\n")
    write_file(os.path.join(obj, "0=ocfl_object_1.0"), b"ocfl_object_1.0\n")
    head = rng.randint(2, 4)
    truth, cur = {}, {}
    for v in range(1, head + 1):
        for _ in range(rng.randint(1, 2)):
            cur[rng.randint(1, 4)] = rng.randint(1, 5)
        if len(cur) > 1 and rng.random() < 0.2:
            del cur[rng.choice(list(cur))]
        truth[v] = dict(cur)
    ralg = rng.choice([512, 256])
    weird = rng.random() < 0.6
    rv, rm = gen_abs_inventory(rng, ralg, head, truth, weird and rng.random() < 0.7)
    rt = concrete_inventory(ralg, head, rv, rm)
    data = jbytes(rt)
    for d in (obj, os.path.join(obj, "v%d" % head)):
        write_file(os.path.join(d, "inventory.json"), data)
        write_file(os.path.join(d, "inventory.json." + ALGN[ralg][0]), ("%s  inventory.json\n" % hexdigest(ALGN[ralg][0], data)).encode())
    dirs, foreign = [], []
    for v in range(head - 1, 0, -1):
        vd = os.path.join(obj, "v%d" % v)
        os.makedirs(vd)
        if rng.random() < 0.15:
            continue                                   # no inventory in this version directory (W010)
        alg = rng.choice([ralg, ralg, 512, 256])
        # the inventory of ANOTHER version (lower or higher head) in this directory: a valid inventory that
        # validate_inventory rejects with E040 (mod.rs:1008-1019) before the cross-inventory loop can see it
        ih = v
        if rng.random() < 0.22:
            ih = rng.choice([k for k in range(1, head + 1) if k != v])
            foreign.append((v, ih))
        vv, vm = gen_abs_inventory(rng, alg, ih, truth, weird and rng.random() < 0.6)
        data = jbytes(concrete_inventory(alg, ih, vv, vm))
        write_file(os.path.join(vd, "inventory.json"), data)
        write_file(os.path.join(vd, "inventory.json." + ALGN[alg][0]), ("%s  inventory.json\n" % hexdigest(ALGN[alg][0], data)).encode())
        dirs.append("(%d, %s)" % (v, ainv_term(alg, ih, vv, vm)))
    return "corr/cross" + ("-foreign-head" if foreign else ""), {
        "type": "cross", "root": ainv_term(ralg, head, rv, rm), "dirs": coq_list(dirs),
        "desc": {"head": head, "root_alg": ralg, "weird": weird, "foreign_heads(dir, head)": foreign}}


# ---- dedicated members of the known classes (few: some of them run into the time limit) and of the
# ---- classes repaired in /repo (family "regress": must pass)

REGRESS = ("blank-id", "version-gap", "wide-padding", "uri-colon-segment", "empty-manifest-entry")
# members of the former class uri-colon-segment (no valid scheme, ':' in the first path segment) - (field, value)
URI_ARGS = [("id", ":"), ("id", "1:x"), ("id", "::"), ("id", "%3A:"), ("id", "-:x"), ("id", "a b:c"), ("id", "\u00e9:x"), ("id", ".:/x"),
            ("address", ":"), ("address", "-:x"), ("address", "1:x"), ("address", "%3A:"), ("address", "+:"), ("address", ":?q#f")]
GAP_ARGS = ["v400000000", "v4294967295", "v00400000000", "v0004294967295", "v4294967294", "v1000000"]
WIDE_ARGS = [65536, 70000, 1 << 20]


def fam_known(rng, obj, which, arg=None):
    t = jload_pairs(open(os.path.join(obj, "inventory.json"), "rb").read())
    t = copy.deepcopy(t)

    def setk(k, v):
        for i, (kk, _) in enumerate(t):
            if kk == k:
                t[i] = (k, v)
    vers = first(t, "versions")
    if which == "blank-id":
        setk("id", "")
    elif which == "version-gap":
        body = vers[-1][1]
        vers.append((arg or rng.choice(GAP_ARGS), copy.deepcopy(body)))
    elif which == "wide-padding":
        vers[0] = ("v" + "0" * int(arg or rng.choice(WIDE_ARGS)) + "1", vers[0][1])
    elif which == "quadratic-path":
        st = first(vers[0][1], "state")
        st[0] = (st[0][0], ["/".join(["a"] * 150000)])
    elif which == "uri-colon-segment":
        field, value = arg or rng.choice(URI_ARGS)
        if field == "id":
            setk("id", value)
        else:
            body = vers[-1][1]
            if first(body, "user") is None:
                body.append(("user", O()))
            for i, (k, v) in enumerate(body):
                if k == "user":
                    body[i] = (k, O([("name", "n"), ("address", value)]))
    elif which == "empty-manifest-entry":
        # same digest algorithm in every inventory: the digests are compared, the E107-free ghost entry is only parsed
        man = first(t, "manifest")
        dgx = "ab" * (len(man[0][0]) // 2)
        man.append((dgx, []))
        for _, body in vers:
            first(body, "state").append((dgx, ["ghost.txt"]))
    set_inventory(obj, jbytes(t), rng)
    return ("regress/" if which in REGRESS else "known/") + which


# ---- inventories of one version in the directory of another (family "swap": must pass)

def version_dirs(obj):
    """[(number, directory name)] of the version directories that hold a regular inventory.json, ascending"""
    out = []
    try:
        names = os.listdir(obj)
    except OSError:
        return out
    for n in names:
        pv = vparse(n)
        p = os.path.join(obj, n)
        if pv and os.path.isdir(p) and not os.path.islink(p) and os.path.isfile(os.path.join(p, "inventory.json")):
            out.append((pv[0], n))
    return sorted(out)


def swap_shapes(obj):
    """every (shape, j, k) for an object with at least three version inventories"""
    vds = version_dirs(obj)
    if len(vds) < 3:
        return []
    nums = [n for n, _ in vds]
    head = nums[-1]
    out = [("pair", j, k) for j in nums if j != head for k in nums if k != j]
    out += [("root-into-old", j, 0) for j in nums if j != head]
    out += [("old-into-head", head, k) for k in nums if k != head]
    return out


def copy_inventory(src, dst, sidecars=True):
    shutil.copyfile(os.path.join(src, "inventory.json"), os.path.join(dst, "inventory.json"))
    if sidecars:
        for n in os.listdir(dst):
            if n.startswith("inventory.json."):
                os.remove(os.path.join(dst, n))
        for n in os.listdir(src):
            if n.startswith("inventory.json.") and os.path.isfile(os.path.join(src, n)):
                shutil.copyfile(os.path.join(src, n), os.path.join(dst, n))


def fam_swap(obj, shape, j, k):
    name = dict(version_dirs(obj))
    if shape == "pair":              # vK's inventory + sidecar in directory vJ (J below the head; K lower or higher)
        copy_inventory(os.path.join(obj, name[k]), os.path.join(obj, name[j]))
        return "swap/pair-" + ("lower-head" if k < j else "higher-head")
    if shape == "root-into-old":     # the root inventory + sidecar in an old version directory
        copy_inventory(obj, os.path.join(obj, name[j]))
        return "swap/root-into-old"
    copy_inventory(os.path.join(obj, name[k]), os.path.join(obj, name[j]), sidecars=False)   # head directory, its sidecar untouched
    return "swap/old-into-head"


def swap_expect(r):
    if r["vh"]["kind"] != "verdict" or r["vh"].get("nerr", 0) < 1:
        return "a verdict with validation errors (E040 / E064 ...) for the object, observed %r" % (r["vh"].get("kind"),)
    if r["cli"]["kind"] != "exit" or r["cli"].get("rc") != 2:
        return "the release CLI reports an invalid object (exit status 2), observed %r" % (r["cli"],)
    return None


def regress_expect(r):
    """model-free oracle for a must-pass member of a repaired class: the problem is reported as
    validation errors of the object, within the linear budget; None or a message"""
    vh, cli = r["vh"], r["cli"]
    which = r["kind"].split("/", 1)[1]
    if which == "uri-colon-segment":
        # not a URI: a warning, never an error of its own (the object may have other errors, e.g. ids that differ between inventories)
        if vh["kind"] != "verdict":
            return "a verdict for the object (harness: %s)" % vh["kind"]
        if cli["kind"] != "exit":
            return "the release CLI exits with a verdict, observed %r" % (cli,)
        field = (r.get("arg") or ["id"])[0]
        code = "W005" if field == "id" else "W009"
        if sum(w.get(code, 0) for w in vh.get("warns", {}).values()) < 1:
            return "%s for the %s that is not a URI, observed warnings %r" % (code, field, vh.get("warns"))
        return None
    if vh["kind"] != "verdict" or vh.get("nerr", 0) < 1:
        return "a verdict with validation errors for the object (harness: %s)" % vh["kind"]
    if cli["kind"] != "exit" or cli.get("rc") != 2:
        return "the release CLI reports an invalid object (exit status 2), observed %r" % (cli,)
    obj_codes = vh["codes"].get("object", {})
    if which == "blank-id" and obj_codes.get("E037", 0) < 1:
        return "E037 for the blank id, observed codes %r" % (obj_codes,)
    if which == "version-gap":
        nkeys = r.get("nkeys", 8)
        e010 = sum(c.get("E010", 0) for c in vh["codes"].values())
        if e010 < 1 or e010 > (MAX_LISTED * nkeys + 1) * max(1, len(vh["codes"])):
            return "between 1 and %d E010 errors per inventory with %d version keys, observed %d" % (MAX_LISTED * nkeys + 1, nkeys, e010)
    return None


def cross_script_expect(r):
    """model-free oracle for a scripted cross-inventory member of a repaired class: a verdict from both
    builds and exactly the E066 errors the repaired comparison has to report; None or a message"""
    vh, cli = r["vh"], r["cli"]
    if vh["kind"] != "verdict":
        return "a verdict for the object (harness: %s)" % vh["kind"]
    if cli["kind"] != "exit":
        return "the release CLI exits with a verdict, observed %r" % (cli,)
    want = r["corr"].get("want_e066")
    e066 = sum(c.get("E066", 0) for c in vh["codes"].values())
    if want is not None and e066 != want:
        return "%d E066 error(s) from the comparison of the content paths, observed %d (codes %r)" % (want, e066, vh["codes"])
    if (want or e066) and cli.get("rc") != 2:
        return "the release CLI reports an invalid object (exit status 2), observed %r" % (cli,)
    return None


# --------------------------------------------------------------------------- bases

def fixture_objects():
    out = []
    for sub in ("official-1.0/error", "official-1.0/valid", "official-1.0/warn"):
        d = os.path.join(FIX, sub)
        if os.path.isdir(d):
            for n in sorted(os.listdir(d)):
                p = os.path.join(d, n)
                if os.path.isdir(p):
                    out.append(("fx:" + sub.split("/")[1] + "/" + n, p))
    cust = os.path.join(FIX, "custom", "repos")
    if os.path.isdir(cust):
        for r in sorted(os.listdir(cust)):
            for p in hist.find_object_roots(os.path.join(cust, r)):
                out.append(("fx:custom/" + r + "/" + os.path.relpath(p, os.path.join(cust, r)).replace("/", "_"), p))
    return out


def library_objects(ctx):
    """objects written by the real library (a few short histories); returns {name: dir}"""
    out = {}
    os.makedirs(os.path.join(ctx.tmp, "bases"), exist_ok=True)
    cfgs = [("lib-sha512", dict(layout="0002", repo_spec="1.0", obj_spec="1.0", alg="sha512", cdir="content", pad=0)),
            ("lib-sha256", dict(layout="0002", repo_spec="1.1", obj_spec="1.1", alg="sha256", cdir="content", pad=0)),
            ("lib-padded", dict(layout="0002", repo_spec="1.1", obj_spec="1.0", alg="sha512", cdir="stuff", pad=3))]
    for name, cfg in cfgs:
        cfg = dict(cfg, ext_staging=False, fresh_handle=False)
        r = hist.Runner(ctx, cfg, "mk-" + name)
        try:
            oid = "obj-1"
            ops = [{"op": "new", "id": oid},
                   {"op": "cp_ext", "id": oid, "files": [["a.txt", 2]], "dst": "a.txt"},
                   {"op": "cp_ext", "id": oid, "files": [["c.txt", 3]], "dst": "dir/c.txt"},
                   {"op": "commit", "id": oid},
                   {"op": "cp_ext", "id": oid, "files": [["b.txt", 4]], "dst": "b.txt"},
                   {"op": "cp_ext", "id": oid, "files": [["a.txt", 1]], "dst": "a.txt"},
                   {"op": "commit", "id": oid},
                   {"op": "rm", "id": oid, "paths": ["dir/c.txt"]},
                   {"op": "cp_ext", "id": oid, "files": [["e.txt", 2]], "dst": "dir/sub/e.txt"},
                   {"op": "commit", "id": oid}]
            if name == "lib-padded":
                ops += [{"op": "upgrade_object", "id": oid, "spec": "1.1"}]
            for op in ops:
                _, res = r.step(op)
                if "ok" not in res:
                    raise common.BuildError("library history for the C17 base objects failed at %r: %r" % (op, res))
            roots = r.object_roots()
            if len(roots) != 1:
                raise common.BuildError("expected one object root, found %r" % (roots,))
            dst = os.path.join(ctx.tmp, "bases", name)
            shutil.copytree(roots[0], dst)
            out[name] = dst
        finally:
            r.close()
    return out


# --------------------------------------------------------------------------- one case (runs in a worker process)

def build_case(spec, dest):
    """materialise the object root of a case under dest/ (storage root dest, object dest/obj)"""
    rng = random.Random(spec["seed"])
    fam = spec["family"]
    corr = None
    if fam == "cross":
        kind, corr = fam_cross_scripted(dest, spec["script"]) if spec.get("script") else fam_cross(rng, dest)
        return kind, corr
    obj = new_root(dest, spec["base"])
    if fam == "pristine":
        kind = "pristine"
    elif fam == "bytes":
        kind = fam_bytes(rng, obj)
    elif fam == "grammar":
        kind = fam_grammar(rng, obj)
    elif fam == "edit":
        kind = fam_edit(rng, obj)
    elif fam == "structure":
        kind = fam_structure(rng, obj, allow_deep=spec.get("allow_deep", True))
    elif fam == "versions":
        kind, corr = fam_versions(rng, obj, spec.get("vkeys"))
    elif fam == "header":
        kind, corr = fam_header(rng, obj)
    elif fam in ("known", "regress"):
        kind = fam_known(rng, obj, spec["which"], spec.get("arg"))
    elif fam == "swap":
        kind = fam_swap(obj, spec["shape"], spec["j"], spec["k"])
    elif fam == "combo":
        kinds = []
        for _ in range(rng.randint(2, 4)):
            f = rng.choice([fam_edit, fam_edit, fam_structure, fam_bytes])
            kinds.append(f(rng, obj))
        kind = "combo/" + "+".join(k.split("/")[0] for k in kinds)
    else:
        raise ValueError(fam)
    return kind, corr


def snapshot_small(obj, limit=40000):
    """small files of the object root for the replay file"""
    out = {}
    for dp, ds, fs in os.walk(obj):
        for n in fs:
            p = os.path.join(dp, n)
            rel = os.path.relpath(p, obj)
            try:
                st = os.lstat(p)
                if stat.S_ISREG(st.st_mode) and st.st_size <= limit and len(out) < 60:
                    out[rel] = base64.b64encode(open(p, "rb").read()).decode()
                else:
                    out[rel] = "<%s %d bytes>" % ("file" if stat.S_ISREG(st.st_mode) else "special", st.st_size)
            except OSError:
                pass
    return out


def fam_is_regress(spec):
    return spec["family"] == "regress"


def do_case(spec):
    dest = os.path.join(spec["tmp"], "case-%06d" % spec["idx"])
    res = {"idx": spec["idx"], "family": spec["family"], "base": spec.get("base_name")}
    try:
        kind, corr = build_case(spec, dest)
        res["kind"] = kind
        res["corr"] = corr
        obj = os.path.join(dest, "obj")
        fixity = spec["seed"] % 4 != 0
        res["vh"] = run_vh(spec["vh"], dest, {"cmd": "validate_object_at", "path": "obj", "fixity": fixity})
        res["cli"] = run_cli(spec["rocfl"], dest, ["-p", "obj"] + ([] if fixity else ["-n"]))
        bad = failed(res["vh"]) or failed(res["cli"])
        if fam_is_regress(spec):
            t = jload_pairs(open(os.path.join(obj, "inventory.json"), "rb").read())
            res["nkeys"] = len(first(t, "versions") or [])
            res["arg"] = spec.get("arg")
        if bad or corr is not None:
            res["feats"] = features(obj)
        if bad:
            res["files"] = snapshot_small(obj)
    except Exception as e:            # a defect of this driver, not of rocfl
        res["driver_error"] = "%s: %s" % (type(e).__name__, e)
    finally:
        if not spec.get("keep"):
            rm_tree(dest)
    return res


def scan_object_roots(root):
    """model-free: directories holding a regular file named 0=ocfl_object_*, outermost only; the
    validator does not enter the storage root's own 'extensions' directory (mod.rs:1944-1949)"""
    out = []
    for d, dirs, files in os.walk(root):
        dirs[:] = [x for x in dirs if not (x == "extensions" and d == root) and not os.path.islink(os.path.join(d, x))]
        if d != root and any(f.startswith("0=ocfl_object_") and stat.S_ISREG(os.lstat(os.path.join(d, f)).st_mode)
                             for f in files):
            out.append(os.path.relpath(d, root))
            dirs[:] = []
    return sorted(out)


def do_repo(spec):
    """a repository of many mutated objects plus pristine bystanders, validated as a whole"""
    root = os.path.join(spec["tmp"], "repo-%04d" % spec["idx"])
    res = {"idx": spec["idx"], "n": len(spec["members"])}
    try:
        rm_tree(root)
        os.makedirs(root)
        write_file(os.path.join(root, "0=ocfl_1.1"), b"ocfl_1.1\n")
        bystanders = []
        for j, m in enumerate(spec["members"]):
            sub = os.path.join(root, "d%02d" % (j % 7), "o%03d" % j)
            tmp = os.path.join(spec["tmp"], "repo-%04d-m%03d" % (spec["idx"], j))
            build_case(m, tmp)
            os.makedirs(os.path.dirname(sub), exist_ok=True)
            os.rename(os.path.join(tmp, "obj"), sub)
            rm_tree(tmp)
            if m["family"] == "pristine":
                bystanders.append(os.path.relpath(sub, root))
        res["roots"] = scan_object_roots(root)
        res["bystanders"] = bystanders
        res["vh"] = run_vh(spec["vh"], root, {"cmd": "validate_repo", "fixity": True}, timeout=6 * T_LIMIT)
        res["cli"] = run_cli(spec["rocfl"], root, [], timeout=6 * T_LIMIT)
    except Exception as e:
        res["driver_error"] = "%s: %s" % (type(e).__name__, e)
    finally:
        rm_tree(root)
    return res


# --------------------------------------------------------------------------- the check

def tier_counts(ctx):
    q = dict(bytes=230, grammar=260, edit=400, structure=260, combo=120, versions=130, header=130, cross=110, repos=6, repo_size=24)
    if ctx.quick():
        return q
    t = {k: v * 20 for k, v in q.items()}
    t.update(repos=40, repo_size=40)
    return t


def snapshot_from(r):
    return r.get("files")


def failure_kinds(o):
    k = o["kind"]
    if k == "panic":
        return [o["panic"]]
    if k in ("timeout", "oom", "crash"):
        return [k]
    return []


def code_num(c):
    m = re.fullmatch(r"[EW](\d+)", c)
    return int(m.group(1)) if m else 0


def make_specs(ctx, bases, libs, vh, rocfl):
    rng = ctx.rng
    n = tier_counts(ctx)
    valid_like = [b for b in bases if b[0].startswith(("fx:valid", "fx:warn", "lib-")) or "algorithm_change" in b[0]
                  or "E066" in b[0] or "E092_algorithm" in b[0]]
    specs = []

    def add(fam, base=None, **kw):
        s = {"idx": len(specs), "family": fam, "seed": rng.getrandbits(48), "tmp": os.path.join(ctx.tmp, "cases"),
             "vh": vh, "rocfl": rocfl}
        if base is not None:
            s["base_name"], s["base"] = base
        s.update(kw)
        specs.append(s)
    known = ["quadratic-path"]
    if not ctx.quick():
        known = known + ["quadratic-path"]
    one_version = [b for b in bases if b[0] == "fx:valid/minimal_one_version_one_file"] or [("lib-sha512", libs["lib-sha512"])]
    for w in known:
        add("known", ("lib-sha512", libs["lib-sha512"]), which=w)
    # the repaired classes: every dedicated member, on two bases each (must pass)
    lib = lambda: (lambda nm: (nm, libs[nm]))(rng.choice(["lib-sha512", "lib-sha256", "lib-padded"]))
    for _ in range(2 if ctx.quick() else 6):
        add("regress", lib(), which="blank-id")
    for a in GAP_ARGS:
        for _ in range(1 if ctx.quick() else 3):
            add("regress", lib(), which="version-gap", arg=a)
    # repaired by 389bfd0: every listed member, in "id" and in a user "address" (must pass: verdict with W005 / W009)
    for a in URI_ARGS:
        for _ in range(1 if ctx.quick() else 3):
            add("regress", rng.choice(one_version + [lib()]), which="uri-colon-segment", arg=list(a))
    # repaired by 7c90d82 / 547c92e: the scripted cross-inventory members (exact abstraction; must pass with the model's E066 count)
    for name in CROSS_SCRIPTS:
        add("cross", script=name)
    for _ in range(2 if ctx.quick() else 6):
        add("regress", lib(), which="empty-manifest-entry")
    # an inventory found in the directory of another version: every pair for the library objects, a sample for the fixtures
    fx_swaps = []
    for b in bases:
        shapes = swap_shapes(b[1])
        if b[0].startswith("lib-"):
            for sh, j, k in shapes:
                add("swap", b, shape=sh, j=j, k=k)
        elif b in valid_like:
            fx_swaps += [(b, x) for x in shapes]
    for b, (sh, j, k) in (rng.sample(fx_swaps, min(len(fx_swaps), 16)) if ctx.quick() else fx_swaps):
        add("swap", b, shape=sh, j=j, k=k)
    for a in WIDE_ARGS:
        # a single version (no E013 that ends validation before the number is printed) and a library object
        add("regress", one_version[0], which="wide-padding", arg=a)
        add("regress", lib(), which="wide-padding", arg=a)
    for b in bases:
        add("pristine", b)
    for fam in ("bytes", "grammar", "edit", "structure", "combo"):
        for _ in range(n[fam]):
            pool = valid_like if (fam in ("edit", "combo") and rng.random() < 0.75) or rng.random() < 0.4 else bases
            add(fam, rng.choice(pool))
    for _ in range(n["versions"]):
        nm = rng.choice(["lib-sha512", "lib-sha256"])
        add("versions", (nm, libs[nm]))
    # every listed key set once (gaps, numeric maxima, padded keys at the maximum of their width), not only when drawn
    for ks in GAP_KEYS:
        nm = rng.choice(["lib-sha512", "lib-sha256"])
        add("versions", (nm, libs[nm]), vkeys=list(ks))
    for _ in range(n["header"]):
        nm = rng.choice(["lib-sha512", "lib-sha256"])
        add("header", (nm, libs[nm]))
    for _ in range(n["cross"]):
        add("cross")
    return specs


def pmap(fn, items, workers):
    with concurrent.futures.ProcessPoolExecutor(max_workers=workers) as ex:
        return list(ex.map(fn, items, chunksize=1))


def spec_public(s):
    return {k: s[k] for k in ("family", "seed", "base_name", "which", "arg", "shape", "j", "k", "allow_deep", "vkeys", "script") if k in s}


def evaluate(ctx, specs, results):
    """classification + correspondence of the single-object cases; returns statistics"""
    known_ids = {k["id"] for k in ctx.known}
    terms = []          # (case idx, tag, term)
    for r in results:
        if "driver_error" in r:
            continue
        fk_vh, fk_cli = failure_kinds(r["vh"]), failure_kinds(r["cli"])
        r["fk"] = sorted(set(fk_vh + fk_cli))
        if r["fk"]:
            for slug, term in class_terms(r.get("feats", []), fk_vh, True) + class_terms(r.get("feats", []), fk_cli, False):
                terms.append((r["idx"], "class:" + slug, term))
        c = r.get("corr")
        if c and c["type"] == "visit":
            if r["vh"]["kind"] in ("verdict", "panic"):
                root_codes = r["vh"].get("codes", {}).get("object", {})
                obs = coq_list("(%d, %d)" % (code_num(k), v) for k, v in sorted(root_codes.items()))
                terms.append((r["idx"], "corr:visit", "check_visit %s %s %s" % (c["items"], coq_bool(r["vh"]["kind"] == "panic"), obs)))
                if c.get("w001") and r["vh"]["kind"] == "verdict" and "BSeq" not in c["items"]:
                    w = "W001" in r["vh"].get("warns", {}).get("object", {})
                    terms.append((r["idx"], "corr:w001", "check_w001 %s %s" % (c["keys"], coq_bool(w))))
                if r["vh"]["kind"] == "verdict":
                    # the scheme test of is_uri on the "id" the visitor reads (W005 is reported only there, serde.rs:191-199)
                    w = "W005" in r["vh"].get("warns", {}).get("object", {})
                    terms.append((r["idx"], "corr:w005", "check_w005 %s %s" % (c["items"], coq_bool(w))))
            if r["cli"]["kind"] in ("exit", "panic"):
                terms.append((r["idx"], "corr:visit-cli", "check_visit_panic %s %s" % (c["items"], coq_bool(r["cli"]["kind"] == "panic"))))
        if r["family"] == "regress" and r["kind"].endswith("/uri-colon-segment") and r["vh"]["kind"] == "verdict" and r.get("arg"):
            code = "W005" if r["arg"][0] == "id" else "W009"
            w = any(code in x for x in r["vh"].get("warns", {}).values())
            terms.append((r["idx"], "corr:uri", "check_uri_warned %s %s" % (coq_str(r["arg"][1]), coq_bool(w))))
        if c and c["type"] == "cross":
            site = {"unwrap-err": 1, "unwrap-none": 2, "sub-overflow": 3}
            if r["vh"]["kind"] in ("verdict", "panic"):
                if r["vh"]["kind"] == "panic":
                    obs, e066, e040 = site.get(r["vh"]["panic"], 9), 0, 0
                else:
                    obs = 0
                    e066 = sum(v.get("E066", 0) for v in r["vh"]["codes"].values())
                    e040 = sum(v.get("E040", 0) for v in r["vh"]["codes"].values())
                terms.append((r["idx"], "corr:cross", "check_cross true %s %s %d %d %d" % (c["root"], c["dirs"], obs, e066, e040)))
            if r["cli"]["kind"] in ("exit", "panic"):
                obs = site.get(r["cli"]["panic"], 9) if r["cli"]["kind"] == "panic" else 0
                terms.append((r["idx"], "corr:cross-cli", "check_cross_panic false %s %s %d" % (c["root"], c["dirs"], obs)))
    vals = common.coq_eval("c17", IMPORTS, [t for _, _, t in terms], batch=120) if terms else []
    by = {}
    for (idx, tag, term), v in zip(terms, vals):
        by.setdefault(idx, []).append((tag, term, v))

    stats = {"families": {}, "kinds": {}, "vh_outcomes": {}, "cli_outcomes": {}, "corr_checked": 0, "corr_ok": 0,
             "known_hits_by_kind": {}, "driver_errors": 0, "predicted_panics_confirmed": 0, "regress": {}, "regress_max_t": {}}
    spec_by = {s["idx"]: s for s in specs}
    for r in results:
        s = spec_by[r["idx"]]
        if "driver_error" in r:
            stats["driver_errors"] += 1
            common.log("C17 driver error in case %s: %s" % (spec_public(s), r["driver_error"]))
            continue
        stats["families"][r["family"]] = stats["families"].get(r["family"], 0) + 1
        stats["kinds"][r["kind"]] = stats["kinds"].get(r["kind"], 0) + 1
        vo = r["vh"]["kind"] + (":" + r["vh"]["panic"] if r["vh"]["kind"] == "panic" else "") + \
            (":" + r["vh"]["err"] if r["vh"]["kind"] == "error" else "")
        co = r["cli"]["kind"] + (":%s" % r["cli"].get("rc") if r["cli"]["kind"] == "exit" else "") + \
            (":" + r["cli"]["panic"] if r["cli"]["kind"] == "panic" else "")
        stats["vh_outcomes"][vo] = stats["vh_outcomes"].get(vo, 0) + 1
        stats["cli_outcomes"][co] = stats["cli_outcomes"].get(co, 0) + 1
        sig = sorted(k for loc in r["vh"].get("codes", {}).values() for k in loc)
        ctx.count((r["family"], r["kind"], vo, co, sig), nontrivial=r["family"] != "pristine" and not r["kind"].endswith("/none"),
                  sample={"case": spec_public(s), "mutation": r["kind"], "harness": vo, "cli": co, "error_codes": sig[:12]})
        if r["vh"]["kind"] == "harness":
            raise common.BuildError("harness problem in case %r: %r" % (spec_public(s), r["vh"]))
        evs = by.get(r["idx"], [])
        msg = failed(r["vh"]) or failed(r["cli"])
        explained = True
        if r["family"] == "regress":
            stats["regress"][r["kind"]] = stats["regress"].get(r["kind"], 0) + 1
            stats["regress_max_t"][r["kind"]] = max(stats["regress_max_t"].get(r["kind"], 0), r["vh"].get("t", 0), r["cli"].get("t", 0))
            want = None if msg else regress_expect(r)
            if msg or want:
                # the regression test of a fix commit: never excused by a known class
                ctx.violation("impl-violation", {
                    "input": spec_public(s), "mutation": r["kind"], "files": r.get("files"),
                    "observed": {"harness_debug": r["vh"], "cli_release": r["cli"]},
                    "expected": "repaired class %s: %s" % (r["kind"], want or ("a verdict; observed: " + msg))})
                continue
        if r["family"] == "cross" and s.get("script"):
            stats["regress"][r["kind"]] = stats["regress"].get(r["kind"], 0) + 1
            want = None if msg else cross_script_expect(r)
            if msg or want:
                ctx.violation("impl-violation", {
                    "input": spec_public(s), "mutation": r["kind"], "files": r.get("files"),
                    "observed": {"harness_debug": r["vh"], "cli_release": r["cli"]},
                    "expected": "repaired class %s: %s" % (r["kind"], want or ("a verdict; observed: " + msg))})
                continue
        if r["family"] == "swap" and not msg:
            want = swap_expect(r)
            if want:
                ctx.violation("impl-violation", {
                    "input": spec_public(s), "mutation": r["kind"], "files": snapshot_from(r),
                    "observed": {"harness_debug": r["vh"], "cli_release": r["cli"]}, "expected": want})
                continue
        if msg:
            # every failure kind must be covered by a classifier that holds on this input and is a recorded known finding
            need = NEED
            hits = set()
            for fk in r["fk"]:
                ok_slugs = {tag[6:] for tag, _, v in evs if tag.startswith("class:") and v == "true"} & need.get(fk, set())
                ok_slugs &= known_ids
                if not ok_slugs:
                    explained = False
                hits |= ok_slugs
            if explained:
                for h in sorted(hits):
                    ctx.known_hit(h)
                    stats["known_hits_by_kind"][h + "<-" + r["kind"]] = stats["known_hits_by_kind"].get(h + "<-" + r["kind"], 0) + 1
            else:
                ctx.violation("impl-violation", {
                    "input": spec_public(s), "mutation": r["kind"], "files": r.get("files"),
                    "observed": {"harness_debug": r["vh"], "cli_release": r["cli"]},
                    "classifiers": [(tag, v) for tag, _, v in evs if tag.startswith("class:")],
                    "expected": "a verdict (validation errors) or an error for this object; observed: " + msg})
        for tag, term, v in evs:
            if tag.startswith("corr:"):
                stats["corr_checked"] += 1
                if v == "true":
                    stats["corr_ok"] += 1
                    if msg:
                        stats["predicted_panics_confirmed"] += 1
                elif not (msg and not explained):
                    common.corr_break(ctx, "Corr.CheckVCode %s (Model/VCode.v vs validate/serde.rs, validate/mod.rs)" % tag,
                                      {"input": spec_public(s), "mutation": r["kind"], "desc": (r.get("corr") or {}).get("desc"),
                                       "term": term[:3000], "observed": {"harness_debug": r["vh"], "cli_release": r["cli"]}})
    return stats


def run_repos(ctx, specs, results, bases, libs, vh, rocfl, stats):
    n = tier_counts(ctx)
    rng = ctx.rng
    ok_members = []
    for r in results:
        if "driver_error" in r or r["family"] in ("pristine", "known", "regress", "swap"):
            continue
        if failed(r["vh"]) or failed(r["cli"]) or r["vh"].get("t", 0) > 3 or "path-max" in r["kind"] or "many-files" in r["kind"]:
            continue
        ok_members.append(r["idx"])
    spec_by = {s["idx"]: s for s in specs}
    good = [b for b in bases if b[0].startswith("fx:valid")] + [(k, v) for k, v in libs.items()]
    rspecs = []
    for i in range(n["repos"]):
        members = []
        picks = rng.sample(ok_members, min(len(ok_members), n["repo_size"]))
        for idx in picks:
            m = dict(spec_by[idx])
            m["allow_deep"] = False
            members.append(m)
        for pos in (0, len(members) // 2, len(members)):
            b = rng.choice(good)
            members.insert(pos, {"family": "pristine", "seed": 0, "base_name": b[0], "base": b[1]})
        rspecs.append({"idx": i, "members": members, "tmp": os.path.join(ctx.tmp, "repos"), "vh": vh, "rocfl": rocfl})
    # one repository with members of the repaired classes between untouched objects: before b116ae5 the panic at
    # the blank id took the whole repository run down (as did the panics repaired by 547c92e, 7c90d82, 389bfd0); now every
    # object must get its result (judged like the others)
    lib512 = {"base_name": "lib-sha512", "base": libs["lib-sha512"]}
    rspecs.append({"idx": len(rspecs), "tmp": os.path.join(ctx.tmp, "repos"), "vh": vh, "rocfl": rocfl,
                   "members": [{"family": "pristine", "seed": 0, "base_name": good[0][0], "base": good[0][1]},
                               dict(lib512, family="regress", which="blank-id", seed=1),
                               dict(lib512, family="regress", which="version-gap", arg="v4294967295", seed=2),
                               {"family": "pristine", "seed": 0, "base_name": good[len(good) // 2][0], "base": good[len(good) // 2][1]},
                               dict(lib512, family="regress", which="wide-padding", arg=70000, seed=3),
                               dict(lib512, family="regress", which="version-gap", arg="v400000000", seed=4),
                               dict(lib512, family="regress", which="uri-colon-segment", arg=["id", ":"], seed=7),
                               dict(lib512, family="regress", which="uri-colon-segment", arg=["address", "-:x"], seed=8),
                               dict(lib512, family="regress", which="empty-manifest-entry", seed=9),
                               {"family": "cross", "seed": 10, "script": "empty-manifest-entry/root-empty"},
                               {"family": "cross", "seed": 11, "script": "empty-pps-debug/later-paths"},
                               dict(lib512, family="swap", shape="pair", j=2, k=1, seed=5),
                               dict(lib512, family="swap", shape="root-into-old", j=1, k=0, seed=6),
                               {"family": "pristine", "seed": 0, "base_name": good[-1][0], "base": good[-1][1]}]})
    os.makedirs(os.path.join(ctx.tmp, "repos"), exist_ok=True)
    out = pmap(do_repo, rspecs, min(common.NPROC, 8))
    known_ids = {k["id"] for k in ctx.known}
    stats["repos"] = {"validated": 0, "objects": 0, "bystanders_ok": 0}
    for rs, r in zip(rspecs, out):
        if "driver_error" in r:
            stats["driver_errors"] += 1
            common.log("C17 driver error in repository %d: %s" % (r["idx"], r["driver_error"]))
            continue
        detail = {"input": {"repository_members": [spec_public(m) for m in rs["members"]]},
                  "observed": {"harness_debug": r["vh"] if "objects" not in r["vh"] else dict(r["vh"], objects=r["vh"]["objects"][:50]),
                               "cli_release": r["cli"]}}
        msg = failed(r["vh"]) or failed(r["cli"])
        ctx.count(("repo", r["idx"], r["vh"]["kind"], r["cli"].get("rc")), nontrivial=True,
                  sample={"repository_objects": len(r.get("roots", [])), "harness": r["vh"]["kind"], "cli": r["cli"]})
        if msg:
            ctx.violation("impl-violation", dict(detail, expected="every object of the repository gets a result; observed: " + msg))
            continue
        if r["vh"]["kind"] != "verdict":
            ctx.violation("impl-violation", dict(detail, expected="validate_repo returns an iterator over all objects"))
            continue
        objs = r["vh"]["objects"]
        stats["repos"]["validated"] += 1
        stats["repos"]["objects"] += len(objs)
        if len(objs) != len(r["roots"]):
            ctx.violation("impl-violation", dict(detail, object_roots_on_disk=r["roots"],
                                                 expected="one result (verdict or error) per object root: %d roots, %d results"
                                                 % (len(r["roots"]), len(objs))))
            continue
        paths = {o.get("path"): o for o in objs if "path" in o}
        for b in r["bystanders"]:
            if b not in paths or paths[b]["nerr"] != 0:
                ctx.violation("impl-violation", dict(detail, bystander=b, expected="the untouched valid object is still validated and valid"))
            else:
                stats["repos"]["bystanders_ok"] += 1


def resolve_bases(ctx):
    libs = library_objects(ctx)
    bases = fixture_objects() + sorted(libs.items())
    return bases, libs


def run(ctx):
    proof = common.proof_stage(ctx)
    vh = common.build_harness()
    rocfl = common.build_rocfl_release()
    ok, log = common.coq_make(["theories/Corr/CheckVCode.vo"])
    if not ok:
        raise common.BuildError("Corr/CheckVCode.v does not build:\n" + log[-3000:])
    bases, libs = resolve_bases(ctx)
    os.makedirs(os.path.join(ctx.tmp, "cases"), exist_ok=True)
    specs = make_specs(ctx, bases, libs, vh, rocfl)
    t0 = time.time()
    results = pmap(do_case, specs, common.NPROC)
    t_cases = time.time() - t0
    stats = evaluate(ctx, specs, results)
    run_repos(ctx, specs, results, bases, libs, vh, rocfl, stats)
    if stats["driver_errors"] > max(3, len(specs) // 50):
        raise common.BuildError("C17 driver: %d cases could not be built/run" % stats["driver_errors"])
    # the pristine valid objects must validate cleanly (sanity of the set-up, not of the property)
    ctx.coverage["traces_validated_against_impl"] = stats["corr_checked"]
    ctx.coverage["distribution"] = {k: stats[k] for k in ("families", "vh_outcomes", "cli_outcomes", "known_hits_by_kind", "repos",
                                                          "regress", "regress_max_t")
                                    if k in stats}
    ctx.coverage["mutation_kinds"] = stats["kinds"]
    ctx.coverage["correspondence"] = {"checked": stats["corr_checked"], "agree": stats["corr_ok"],
                                      "failures_predicted_by_model": stats["predicted_panics_confirmed"]}
    ctx.coverage["limits"] = {"wall_clock_s": T_LIMIT, "address_space_bytes": AS_LIMIT, "cases_wall_s": round(t_cases, 1)}
    ctx.assumptions.append("partial: panic freedom, time and memory are run-time facts of the real process; the theorems cover the "
                           "arithmetic and guard logic of the modelled fragments only, everything else is shown on the executed inputs")
    ctx.assumptions.append("serde_json's recursion limit (128) turns deep nesting into a parse error (observed on the nested inputs, not proved)")
    ctx.assumptions.append("debug harness (overflow checks on) and release CLI are both run on every input; a failure is attributed to a "
                           "known class (quadratic-path only) by the Coq classifier of Model/KnownC17.v evaluated on features extracted from "
                           "the input by the driver")
    ctx.assumptions.append("uriparse 0.6.4 is third-party code: the theorems about is_uri quantify over every total answer function of the "
                           "parser and use a panic set read off its source (uri_try_from_panics, an approximation from above); that the real "
                           "parser panics nowhere else is shown on the executed inputs only")
    return common.finish_with_proof(
        ctx, proof,
        rule="(every pair of version inventories swapped between version directories of the library objects: must-pass) "
             "(members of the classes repaired in /repo - blank id, version gaps up to u32::MAX, padding wider than 65535, manifest entry "
             "with no content paths, empty set printed in an E066 message, id / address without scheme and with ':' in the first segment "
             "- are must-pass inputs: E037 / at most 100 E010 per version key / a verdict / the model's E066 count / W005, W009, else violation) "
             "object roots = official fixtures and library-written objects, mutated (random bytes, grammar-based JSON with duplicate keys/"
             "deep nesting/huge numbers/lone surrogates/1 MB strings, single edits of every JSON node with field-specific absurd values, "
             "directory-structure edits: missing/extra/empty/special files, deep trees, odd version directories) plus three families whose "
             "abstraction is exact (versions block, header fields, cross-inventory); each validated by debug harness and release CLI under "
             "20 s / 2 GiB; distinct = distinct (family, mutation kind, harness outcome, CLI outcome, set of error codes); pristine copies are trivial")


def replay(ctx, body):
    """re-run the input of a replay file; exit 1 when it still fails"""
    inp = body.get("input") or {}
    if "family" not in inp:
        return run(ctx)
    vh = common.build_harness()
    rocfl = common.build_rocfl_release()
    bases, libs = resolve_bases(ctx)
    byname = dict(bases)
    spec = dict(inp, idx=0, tmp=os.path.join(ctx.tmp, "cases"), vh=vh, rocfl=rocfl)
    if "base_name" in spec:
        spec["base"] = byname[spec["base_name"]]
    os.makedirs(spec["tmp"], exist_ok=True)
    r = do_case(spec)
    print(json.dumps({"harness_debug": r.get("vh"), "cli_release": r.get("cli"), "mutation": r.get("kind")}, indent=1, default=str))
    bad = "driver_error" in r or failed(r["vh"]) or failed(r["cli"])
    if bad:
        print("VIOLATION property=%s replay=%s" % (ctx.prop, "(replayed)"), flush=True)
    shutil.rmtree(ctx.tmp, ignore_errors=True)
    return 1 if bad else 0
