"""C18 - diff, log and ls -l tell the true history of an object.

Stage 1 (proof): Props/C18.v (diff characterisation, apply, self, show, order independence,
  file log, last_update, commit metadata).
Stage 2 (correspondence): objects with generated histories are built through the real library
  (vh hist); diff for ALL ordered version pairs (and one missing version), diff_staged before
  every commit, versions, file_versions for every path that ever existed and one that never did,
  get_object (last_update) for every version are compared with the Gallina model inside Coq
  (Corr/CheckDiff.v; reports compared as sets, Renamed as a pair of sets).
Stage 3 (direct search): a model-free oracle computed by the driver from the states it
  committed itself (content identity, not digests) states the property on the same outputs.
"""
import calendar
import concurrent.futures
import hashlib
import json
import random
import re
import time

from vplib import common, hist
from vplib.common import coq_str, coq_opt, coq_list

# no path is a directory prefix of another one
PATHS = ["a.txt", "b.txt", "dir/c.txt", "dir/d.txt", "dir/sub/e.txt", "x y.txt", "f", "\u00fc.txt",
         "dir2/a.txt", "z/deep/er/g.bin", "dir/sub/f", "UPPER.TXT"]
NEVER = "never/existed.txt"
CONTENTS = [b"", b"A", b"hello world\n", b"HELLO WORLD\n", b"dup-content", bytes(range(256)) * 3, b"another", b"a"]
NAMES_POOL = ["Ada", "user \"q\" \\ back", "\u00dcml\u00e4ut \u2603", "x", "  spaced  ", "line\nbreak", "a/b:c", ""]
ADDR_POOL = ["mailto:ada@example.org", "https://orcid.org/0000-0002-1825-0097", "urn:x:\u00e9", ""]
MSG_POOL = ["initial", "second\nline", "\u2603 snow", "", "tab\there", "x" * 300, "{\"json\": true}"]
OFFSETS = ["Z", "+00:00", "+02:00", "-05:30", "+13:45"]
MAX_REPLAYS = 5


# --------------------------------------------------------------------------- plans (pure, ctx.rng only)

def gen_created(rng):
    r = rng.random()
    if r < 0.12:
        return None                                   # Local::now()
    y, mo, d = rng.randint(1971, 2099), rng.randint(1, 12), rng.randint(1, 28)
    h, mi, s = rng.randint(0, 23), rng.randint(0, 59), rng.randint(0, 59)
    nd = rng.choice([0, 0, 3, 6, 9, 1])
    frac = ("." + "".join(rng.choice("0123456789") for _ in range(nd))) if nd else ""
    return "%04d-%02d-%02dT%02d:%02d:%02d%s%s" % (y, mo, d, h, mi, s, frac, rng.choice(OFFSETS))


def gen_meta(rng):
    name = rng.choice(NAMES_POOL + [None]) if rng.random() < 0.9 else None
    address = None if name is None else rng.choice(ADDR_POOL + [None, None])
    return {"name": name, "address": address, "message": rng.choice(MSG_POOL + [None]), "created": gen_created(rng)}


class Sim:
    """driver-side logical state of the object being planned: path -> content index"""

    def __init__(self, rng):
        self.rng = rng
        self.state = {}
        self.ever = {}          # path -> set of contents it ever had
        self.ops = []

    def free(self):
        return [p for p in PATHS if p not in self.state]

    def used_contents(self):
        return sorted(set(self.state.values()))

    def pick_content(self, avoid=None):
        rng = self.rng
        pool = [c for c in range(len(CONTENTS)) if c != avoid]
        used = [c for c in self.used_contents() if c != avoid]
        if used and rng.random() < 0.45:
            return rng.choice(used)                   # same content under several names
        return rng.choice(pool)

    # primitive operations (exact source/target paths: their effect is unambiguous)
    def put(self, p, c):
        self.ops.append(["cp_ext", p, c])
        self.state[p] = c
        self.ever.setdefault(p, set()).add(c)

    def mv(self, p, q):
        self.ops.append(["mv", p, q])
        self.state[q] = self.state.pop(p)
        self.ever.setdefault(q, set()).add(self.state[q])

    def cp(self, p, q):
        self.ops.append(["cp", p, q])
        self.state[q] = self.state[p]
        self.ever.setdefault(q, set()).add(self.state[q])

    def rm(self, p):
        self.ops.append(["rm", p])
        del self.state[p]

    # shapes
    def add(self):
        f = self.free()
        if not f:
            return False
        self.put(self.rng.choice(f), self.pick_content())
        return True

    def modify(self):
        if not self.state:
            return False
        p = self.rng.choice(sorted(self.state))
        self.put(p, self.pick_content(avoid=self.state[p]))
        return True

    def delete(self):
        if not self.state:
            return False
        self.rm(self.rng.choice(sorted(self.state)))
        return True

    def readd(self):
        gone = [p for p in sorted(self.ever) if p not in self.state]
        if not gone:
            return False
        p = self.rng.choice(gone)
        c = self.rng.choice(sorted(self.ever[p])) if self.rng.random() < 0.6 else self.pick_content()
        self.put(p, c)
        return True

    def revert(self):
        cand = [p for p in sorted(self.state) if self.ever.get(p, set()) - {self.state[p]}]
        if not cand:
            return False
        p = self.rng.choice(cand)
        self.put(p, self.rng.choice(sorted(self.ever[p] - {self.state[p]})))
        return True

    def rename11(self):
        f = self.free()
        if not self.state or not f:
            return False
        self.mv(self.rng.choice(sorted(self.state)), self.rng.choice(f))
        return True

    def rename1n(self):
        f = self.free()
        if not self.state or len(f) < 2:
            return False
        p = self.rng.choice(sorted(self.state))
        n = self.rng.randint(2, min(3, len(f)))
        for q in self.rng.sample(f, n):
            self.cp(p, q)
        self.rm(p)
        return True

    def same_content_groups(self):
        g = {}
        for p, c in sorted(self.state.items()):
            g.setdefault(c, []).append(p)
        return [ps for ps in g.values() if len(ps) >= 2]

    def renamen1(self):
        f = self.free()
        gs = self.same_content_groups()
        if not gs or not f:
            return self.dup()
        ps = self.rng.choice(gs)
        take = ps if self.rng.random() < 0.6 else ps[:-1]     # sometimes one name of the content stays
        if len(take) < 2:
            take = ps
        c = self.state[take[0]]
        q = self.rng.choice(f)
        if self.rng.random() < 0.5:
            self.mv(take[0], q)
            for p in take[1:]:
                self.rm(p)
        else:
            for p in take:
                self.rm(p)
            self.put(q, c)
        return True

    def renamenm(self):
        f = self.free()
        gs = self.same_content_groups()
        if not gs or len(f) < 2:
            return self.dup()
        ps = self.rng.choice(gs)
        qs = self.rng.sample(f, min(len(f), self.rng.randint(2, 3)))
        for q in qs:
            self.cp(ps[0], q)
        for p in ps:
            self.rm(p)
        return True

    def swap(self):
        ps = sorted(self.state)
        pairs = [(p, q) for p in ps for q in ps if p < q and self.state[p] != self.state[q]]
        f = self.free()
        if not pairs or not f:
            return False
        p, q = self.rng.choice(pairs)
        t = f[0]
        self.mv(p, t)
        self.mv(q, p)
        self.mv(t, q)
        return True

    def dup(self):
        f = self.free()
        if not self.state or not f:
            return False
        self.cp(self.rng.choice(sorted(self.state)), self.rng.choice(f))
        return True

    def noop(self):
        f = self.free()
        if not f:
            return False
        p = self.rng.choice(f)
        self.put(p, self.pick_content())
        self.rm(p)
        self.ever[p] = self.ever.get(p, set())
        return True

    def move_and_replace(self):
        """rename a file and put new content under its old name (rename + re-add in one version)"""
        f = self.free()
        if not self.state or not f:
            return False
        p = self.rng.choice(sorted(self.state))
        c = self.state[p]
        self.mv(p, self.rng.choice(f))
        self.put(p, self.pick_content(avoid=c))
        return True


SHAPES = [("add", 16), ("modify", 12), ("delete", 10), ("readd", 9), ("revert", 6), ("rename11", 10),
          ("rename1n", 8), ("renamen1", 8), ("renamenm", 5), ("swap", 6), ("dup", 8), ("noop", 2),
          ("move_and_replace", 4)]


def gen_plan(rng, oid, max_versions):
    sim = Sim(rng)
    nv = rng.randint(1, max_versions)
    versions = []
    names = [s for s, w in SHAPES for _ in range(w)]
    for v in range(1, nv + 1):
        sim.ops = []
        shapes = []
        if v == 1:
            for _ in range(rng.randint(1, 5)):
                sim.add()
            if rng.random() < 0.5:
                sim.dup()
            shapes.append("init")
        k = rng.choice([1, 1, 2, 2, 3]) if v > 1 else rng.choice([0, 0, 1])
        tries = 0
        while k > 0 and tries < 20:
            tries += 1
            s = rng.choice(names)
            if getattr(sim, s)():
                shapes.append(s)
                k -= 1
        if not sim.ops:
            sim.add() or sim.delete()
        versions.append({"ops": sim.ops, "shapes": shapes, "meta": gen_meta(rng),
                         "refused_first": rng.random() < 0.08, "state": dict(sim.state)})
    tail = None
    if rng.random() < 0.4:
        sim.ops = []
        for _ in range(rng.randint(1, 2)):
            getattr(sim, rng.choice(names))()
        if sim.ops:
            tail = {"ops": sim.ops, "state": dict(sim.state)}
    return {"id": oid, "shuffle": rng.randrange(1 << 30), "versions": versions, "tail": tail}


# --------------------------------------------------------------------------- execution against the real library

def ts_ns(s):
    """RFC 3339 instant -> nanoseconds since the epoch"""
    m = re.fullmatch(r"(\d{4})-(\d\d)-(\d\d)[Tt ](\d\d):(\d\d):(\d\d)(?:\.(\d+))?([Zz]|[+-]\d\d:\d\d)", s)
    if not m:
        return None
    y, mo, d, h, mi, sec = (int(m.group(i)) for i in range(1, 7))
    frac = (m.group(7) or "")[:9].ljust(9, "0")
    off = 0
    z = m.group(8)
    if z not in ("Z", "z"):
        off = (int(z[1:3]) * 3600 + int(z[4:6]) * 60) * (1 if z[0] == "+" else -1)
    return (calendar.timegm((y, mo, d, h, mi, sec)) - off) * 10 ** 9 + int(frac)


def op_cmd(oid, op):
    k = op[0]
    if k == "cp_ext":
        return {"op": "cp_ext", "id": oid, "files": [[op[1].split("/")[-1], CONTENTS[op[2]]]], "dst": op[1], "recursive": False}
    if k == "mv":
        return {"op": "mv_int", "id": oid, "src": [op[1]], "dst": op[2]}
    if k == "cp":
        return {"op": "cp_int", "id": oid, "version": None, "src": [op[1]], "dst": op[2], "recursive": False}
    if k == "rm":
        return {"op": "rm", "id": oid, "paths": [op[1]], "recursive": False}
    raise ValueError(k)


def state_of(r):
    """get_object / get_staged_object result -> ({path: digest lower}, {path: last_update})"""
    st = r["ok"]["state"]
    return {p: e["digest"].lower() for p, e in st.items()}, {p: e["last_update"] for p, e in st.items()}


def run_object(R, plan):
    """build one object and take every observation; returns a record (no judgement here)"""
    s, h, oid = R.s, R.h, plan["id"]
    rec = {"plan": plan, "op_errors": [], "staged": [], "commits": [], "refused": []}
    c, r = R.step({"op": "new", "id": oid})
    if "ok" not in r:
        rec["op_errors"].append([c, r])
    for vi, ver in enumerate(plan["versions"], 1):
        for op in ver["ops"]:
            c, r = R.step(op_cmd(oid, op))
            if "ok" not in r:
                rec["op_errors"].append([{k: (v if k != "src" else "...") for k, v in c.items()}, r])
        rec["staged"].append({"after_version": vi - 1, "obj": s.call("get_staged_object", h=h, id=oid),
                              "diff": s.call("diff_staged", h=h, id=oid)})
        m = ver["meta"]
        if ver["refused_first"]:
            c, r = R.step({"op": "commit", "id": oid, "name": None, "address": "mailto:nobody@example.org",
                           "message": "must be refused", "created": None})
            rec["refused"].append({"version": vi, "result": r, "versions_after": s.call("versions", h=h, id=oid)})
        t0 = time.time()
        c, r = R.step({"op": "commit", "id": oid, "name": m["name"], "address": m["address"],
                       "message": m["message"], "created": m["created"]})
        rec["commits"].append({"result": r, "t0": t0, "t1": time.time()})
    if plan["tail"]:
        for op in plan["tail"]["ops"]:
            c, r = R.step(op_cmd(oid, op))
            if "ok" not in r:
                rec["op_errors"].append([{k: (v if k != "src" else "...") for k, v in c.items()}, r])
        rec["staged"].append({"after_version": len(plan["versions"]), "obj": s.call("get_staged_object", h=h, id=oid),
                              "diff": s.call("diff_staged", h=h, id=oid)})
    else:
        rec["staged"].append({"after_version": len(plan["versions"]), "obj": None,
                              "diff": s.call("diff_staged", h=h, id=oid)})
    if R.cfg.get("fresh_handle"):
        R.reopen()
    n = len(plan["versions"])
    rec["versions"] = s.call("versions", h=h, id=oid)
    rec["objects"] = [s.call("get_object", h=h, id=oid, version=v) for v in range(1, n + 1)]
    rec["object_missing"] = s.call("get_object", h=h, id=oid, version=n + 1)
    rec["object_head"] = s.call("get_object", h=h, id=oid, version=None)
    rec["diffs"] = []
    for left in [None] + list(range(1, n + 2)):
        for right in range(1, n + 2):
            rec["diffs"].append([left, right, s.call("diff", h=h, id=oid, left=left, right=right)])
    rec["diffs"].append([None, n + 2, s.call("diff", h=h, id=oid, left=None, right=n + 2)])
    paths = set()
    for ver in plan["versions"]:
        paths |= set(ver["state"])
        for op in ver["ops"]:
            paths |= {x for x in op[1:] if isinstance(x, str)}
    rec["fv"] = [[p, s.call("file_versions", h=h, id=oid, path=p)] for p in sorted(paths) + [NEVER]]
    return rec


def run_repo(ctx, cfg, name, plans):
    R = hist.Runner(ctx, cfg, name)
    try:
        recs = [run_object(R, p) for p in plans]
        h = R.h
        missing = {"diff": R.s.call("diff", h=h, id="no-such-object", left=None, right=1),
                   "versions": R.s.call("versions", h=h, id="no-such-object"),
                   "file_versions": R.s.call("file_versions", h=h, id="no-such-object", path="a.txt"),
                   "diff_staged": R.s.call("diff_staged", h=h, id="no-such-object")}
        return recs, missing
    finally:
        R.close()


# --------------------------------------------------------------------------- model-free oracle

def canon(entries):
    """observed report -> (set of canonical entries, list length, all paths mentioned)"""
    out, mentioned = set(), []
    for e in entries:
        if "a" in e:
            out.add(("a", e["a"])); mentioned.append(e["a"])
        elif "m" in e:
            out.add(("m", e["m"])); mentioned.append(e["m"])
        elif "d" in e:
            out.add(("d", e["d"])); mentioned.append(e["d"])
        else:
            o, r = e["r"]
            out.add(("r", frozenset(o), frozenset(r))); mentioned += list(o) + list(r)
    return out, len(entries), mentioned


def expected_diff(L, R):
    """the report between two states {path: content id}, from the statement of the property"""
    out = set()
    lo = [p for p in L if p not in R]
    ro = [p for p in R if p not in L]
    for p in L:
        if p in R and L[p] != R[p]:
            out.add(("m", p))
    for c in set(L[p] for p in lo) | set(R[p] for p in ro):
        o = frozenset(p for p in lo if L[p] == c)
        r = frozenset(p for p in ro if R[p] == c)
        if o and r:
            out.add(("r", o, r))
        else:
            out |= {("d", p) for p in o} | {("a", p) for p in r}
    return out


def oracle_diff(L, R, res, same):
    """None or a message: does the observed report tell the truth about L -> R ?"""
    if "ok" not in res:
        return "diff of two existing versions failed: %s" % hist.res_class(res)
    got, n, mentioned = canon(res["ok"])
    if same:
        return None if n == 0 else "a version diffed with itself is not empty"
    if n != len(got):
        return "an entry is reported twice"
    if len(mentioned) != len(set(mentioned)):
        return "a path is mentioned by more than one entry"
    removed = {e[1] for e in got if e[0] == "d"} | {p for e in got if e[0] == "r" for p in e[1]}
    added = {e[1] for e in got if e[0] == "a"} | {p for e in got if e[0] == "r" for p in e[2]}
    if not removed <= set(L):
        return "a deleted/renamed-from path is not in the left state"
    if (set(L) - removed) | added != set(R):
        return "applying the report to the left state does not give the right state"
    if added & (set(L) - removed):
        return "an added path already exists"
    if {e[1] for e in got if e[0] == "m"} != {p for p in L if p in R and L[p] != R[p]}:
        return "Modified is not exactly the paths in both states with different content"
    for e in got:
        if e[0] == "r":
            cs = {L[p] for p in e[1]} | {R[p] for p in e[2]}
            if len(cs) != 1 or not e[1] or not e[2]:
                return "a rename pairs paths of different content"
    if got != expected_diff(L, R):
        return "report differs from the added/deleted/renamed sets of the two states"
    return None


def expected_fv(S, p):
    """S[0] = {} ; versions V where the entry of p differs from V-1"""
    return [V for V in range(1, len(S)) if S[V].get(p) != S[V - 1].get(p)]


def expected_lu(S, V, p):
    u = V
    while u > 1 and S[u - 1].get(p) == S[V][p]:
        u -= 1
    return u


# --------------------------------------------------------------------------- Coq terms

def coq_entries(entries, pidx):
    out = []
    for e in entries:
        if "a" in e:
            out.append("Added %d" % pidx(e["a"]))
        elif "m" in e:
            out.append("Modified %d" % pidx(e["m"]))
        elif "d" in e:
            out.append("Deleted %d" % pidx(e["d"]))
        else:
            out.append("Renamed %s %s" % (coq_list([str(pidx(p)) for p in e["r"][0]]), coq_list([str(pidx(p)) for p in e["r"][1]])))
    return coq_list(out)


def coq_res(r, f):
    if "ok" in r:
        return "(Ok %s)" % f(r["ok"])
    if "panic" in r:
        return "Panic"
    return "Err"


def coq_state(st, pidx, didx, rnd):
    items = [(pidx(p), didx(d)) for p, d in st.items()]
    rnd.shuffle(items)                       # the HashMap order is arbitrary: hand the model an arbitrary order too
    return coq_list(["(%d, %d)" % x for x in items])


def coq_ostr(x):
    return coq_opt(x, coq_str)


# --------------------------------------------------------------------------- judgement

def judge(ctx, cfg, rec, stats, terms, term_owner):
    """direct oracle on one object's observations + queue the Coq correspondence terms"""
    plan = rec["plan"]
    oid = plan["id"]
    n = len(plan["versions"])
    inp = {"config": cfg, "plan": plan}
    alg = hashlib.sha512 if cfg["alg"] == "sha512" else hashlib.sha256
    dig = [alg(c).hexdigest() for c in CONTENTS]

    def bad(query, observed, msg):
        stats["_bad"].add(oid)
        stats["violations_found"] += 1
        if len(ctx.violations) >= MAX_REPLAYS:        # one failing input is enough; keep replays/ small
            return
        ctx.violation("impl-violation", {"input": dict(inp, query=query), "observed": observed, "expected": msg})

    if rec["op_errors"]:
        bad("staging operations of the plan", rec["op_errors"][:3], "every planned operation succeeds (driver-side state would be unknown otherwise)")
        return
    for i, c in enumerate(rec["commits"], 1):
        if "ok" not in c["result"]:
            bad("commit of version %d" % i, c["result"], "commit succeeds")
            return

    # ---- ground truth: states committed by the driver (content ids) vs states read back
    S = [{}] + [v["state"] for v in plan["versions"]]
    G, LU = [{}], [{}]
    for V, o in enumerate(rec["objects"], 1):
        if "ok" not in o:
            bad("get_object version %d" % V, o, "every committed version can be read")
            return
        st, lu = state_of(o)
        G.append(st)
        LU.append(lu)
        if st != {p: dig[c] for p, c in S[V].items()}:
            bad("get_object version %d" % V, st, "state = the paths and contents committed: %r" % {p: dig[c][:12] for p, c in S[V].items()})
            return
    if hist.res_class(rec["object_missing"]) != "err:NotFound":
        bad("get_object version %d (does not exist)" % (n + 1), rec["object_missing"], "NotFound")
    if "ok" not in rec["object_head"] or state_of(rec["object_head"]) != (G[n], LU[n]):
        bad("get_object head", rec["object_head"], "head = last committed version")

    # numbering of paths and digests for the model
    allp = sorted(set(p for st in G for p in st) | set(p for p, _ in rec["fv"]))
    pmap = {p: i + 1 for i, p in enumerate(allp)}
    dmap = {}

    def pidx(p):
        if p not in pmap:
            pmap[p] = len(pmap) + 1
        return pmap[p]

    def didx(d):
        d = d.lower()
        if d not in dmap:
            dmap[d] = len(dmap) + 1
        return dmap[d]

    rnd = random.Random(plan["shuffle"])
    hterm = coq_list([coq_state(G[V], pidx, didx, rnd) for V in range(1, n + 1)])

    # ---- log
    vs = rec["versions"]
    commits_t, rows_t = [], []
    if "ok" not in vs or len(vs["ok"]) != n:
        bad("versions", vs, "log lists every version: %d entries" % n)
    else:
        for V, (row, ver, com) in enumerate(zip(vs["ok"], plan["versions"], rec["commits"]), 1):
            m = ver["meta"]
            obs_t = ts_ns(row["created"])
            msg = None
            if row["num"] != V:
                msg = "versions in ascending order"
            elif (row["name"], row["address"], row["message"]) != (m["name"], m["address"], m["message"]):
                msg = "name/address/message as given at commit: %r" % ((m["name"], m["address"], m["message"]),)
            elif obs_t is None:
                msg = "a readable timestamp"
            elif m["created"] is not None and obs_t != ts_ns(m["created"]):
                msg = "the timestamp given at commit: %s" % m["created"]
            elif m["created"] is None and not (int(com["t0"] - 2) * 10 ** 9 <= obs_t <= int(com["t1"] + 2) * 10 ** 9):
                msg = "the time of the commit (no timestamp was given)"
            stats["log_rows"] += 1
            ctx.count(("log", m["name"], m["address"], m["message"], m["created"] is None), nontrivial=True,
                      sample={"query": "versions", "given": m, "observed": row})
            if msg:
                bad("versions, entry %d" % V, row, msg)
            given_t = ts_ns(m["created"]) if m["created"] is not None else None
            commits_t.append("(%s, %s, %s, %s, %d)" % (coq_ostr(m["name"]), coq_ostr(m["address"]), coq_ostr(m["message"]),
                                                       coq_opt(given_t, str), obs_t or 0))
            rows_t.append("(%d, (%s, %s, %s, %d))" % (row["num"], coq_ostr(row["name"]), coq_ostr(row["address"]),
                                                      coq_ostr(row["message"]), obs_t or 0))
        terms.append("check_log %s %s" % (coq_list(commits_t), coq_list(rows_t)))
        term_owner.append((oid, "log", inp, vs))
    for rf in rec["refused"]:
        stats["refused_commits"] += 1
        va = rf["versions_after"]
        ok = hist.res_class(rf["result"]) == "err:InvalidValue" and \
            (hist.res_class(va) == "err:NotFound" if rf["version"] == 1 else ("ok" in va and len(va["ok"]) == rf["version"] - 1))
        if not ok:
            bad("commit with an address but no name before version %d" % rf["version"], rf,
                "refused (InvalidValue) and no version is created")
        terms.append("check_refused None (Some (b \"x\")) %s" % common.coq_bool("ok" not in rf["result"]))
        term_owner.append((oid, "refused", inp, rf["result"]))

    # ---- diff for all ordered pairs
    dterms = []
    for left, right, res in rec["diffs"]:
        l_eff = left if left is not None else right - 1
        exists = (left is None and right == 1 and n >= 1) or (1 <= l_eff <= n and 1 <= right <= n)
        if left is not None and left == right and not (1 <= right <= n):
            exists = False
        msg = None
        if exists:
            L = S[l_eff] if l_eff >= 1 else {}
            msg = oracle_diff(L, S[right], res, same=(left == right))
            if not msg and left is None and "ok" in res:
                # show = diff against the preceding version
                twin = [x for x in rec["diffs"] if x[0] == right - 1 and x[1] == right]
                if right > 1 and twin and "ok" in twin[0][2] and canon(twin[0][2]["ok"])[0] != canon(res["ok"])[0]:
                    msg = "show (left omitted) differs from the diff against the preceding version"
                if right == 1 and canon(res["ok"])[0] != {("a", p) for p in S[1]}:
                    msg = "the first version is not reported as all Adds"
            if "ok" in res:
                got = canon(res["ok"])[0]
                for e in got:
                    k = e[0]
                    if k == "r":
                        k = "r %s-%s" % ("1" if len(e[1]) == 1 else "n", "1" if len(e[2]) == 1 else "n")
                    stats["kinds"][k] = stats["kinds"].get(k, 0) + 1
                if not got:
                    stats["kinds"]["(empty)"] = stats["kinds"].get("(empty)", 0) + 1
                key = ("diff", tuple(sorted(L.items())), tuple(sorted(S[right].items())), left is None)
                ctx.count(key, nontrivial=(L != S[right]),
                          sample={"query": "diff", "left": left, "right": right, "left_state": L, "right_state": S[right],
                                  "observed": res["ok"]})
        else:
            stats["missing_version_diffs"] += 1
            if left is not None and left == right:
                # early return of diff_versions answers before any lookup (modelled; not a statement of the property)
                pass
            elif hist.res_class(res) != "err:NotFound":
                msg = "NotFound for a version that does not exist"
        stats["diffs"] += 1
        if msg:
            bad({"cmd": "diff", "left": left, "right": right}, res, msg)
        dterms.append("(%s, %d, %s)" % (coq_opt(left, str), right, coq_res(res, lambda es: coq_entries(es, pidx))))
    terms.append("check_diffs %s %s" % (hterm, coq_list(dterms)))
    term_owner.append((oid, "diff", inp, [[a, c] for a, c, _ in rec["diffs"]]))
    terms.append("check_apply %s %s" % (hterm, coq_list(dterms)))
    term_owner.append((oid, "apply", inp, [[a, c] for a, c, _ in rec["diffs"]]))

    # ---- diff_staged
    sterms = []
    for sg in rec["staged"]:
        k = sg["after_version"]
        stats["staged_diffs"] += 1
        if sg["obj"] is None:
            if sg["diff"] != {"ok": []}:
                bad({"cmd": "diff_staged", "after_version": k, "staged": None}, sg["diff"], "nothing staged: empty report")
            sterms.append("(%s, None, %s)" % (coq_list([coq_state(G[V], pidx, didx, rnd) for V in range(1, k + 1)]),
                                              coq_res(sg["diff"], lambda es: coq_entries(es, pidx))))
            continue
        if "ok" not in sg["obj"]:
            bad({"cmd": "get_staged_object", "after_version": k}, sg["obj"], "the staged version can be read")
            continue
        want = plan["versions"][k]["state"] if k < n else plan["tail"]["state"]
        sst, _ = state_of(sg["obj"])
        if sst != {p: dig[c] for p, c in want.items()}:
            bad({"cmd": "get_staged_object", "after_version": k}, sst, "staged state = committed state + staged operations")
            continue
        msg = oracle_diff(S[k], want, sg["diff"], same=False)
        if msg:
            bad({"cmd": "diff_staged", "after_version": k}, sg["diff"], "staged changes against the last version: " + msg)
        ctx.count(("staged", tuple(sorted(S[k].items())), tuple(sorted(want.items()))), nontrivial=(S[k] != want))
        sterms.append("(%s, Some %s, %s)" % (coq_list([coq_state(G[V], pidx, didx, rnd) for V in range(1, k + 1)]),
                                             coq_state(sst, pidx, didx, rnd),
                                             coq_res(sg["diff"], lambda es: coq_entries(es, pidx))))
    terms.append("check_staged %s" % coq_list(sterms))
    term_owner.append((oid, "diff_staged", inp, [sg["diff"] for sg in rec["staged"]]))

    # ---- file_versions
    fterms = []
    for p, res in rec["fv"]:
        exp = expected_fv(S, p)
        stats["file_logs"] += 1
        msg = None
        if not exp:
            if hist.res_class(res) != "err:NotFound":
                msg = "NotFound: the path never existed"
        elif "ok" not in res:
            msg = "versions %r" % exp
        else:
            got = [row["num"] for row in res["ok"]]
            if got != exp:
                msg = "exactly the versions where the path appeared, changed content or disappeared: %r" % exp
            elif "ok" in vs and any(row != vs["ok"][row["num"] - 1] for row in res["ok"] if 1 <= row["num"] <= len(vs["ok"])):
                msg = "each listed version carries that version's metadata"
        hp = tuple(st.get(p) for st in S[1:])
        ctx.count(("fv", hp), nontrivial=len(exp) > 1, sample={"query": "file_versions", "path": p, "content_per_version": hp, "observed": res})
        stats["fv_len"][len(exp)] = stats["fv_len"].get(len(exp), 0) + 1
        if msg:
            bad({"cmd": "file_versions", "path": p}, res, msg)
        fterms.append("(%d, %s)" % (pidx(p), coq_res(res, lambda rows: coq_list([str(x["num"]) for x in rows]))))
    terms.append("check_fvs %s %s" % (hterm, coq_list(fterms)))
    term_owner.append((oid, "file_versions", inp, rec["fv"]))

    # ---- last_update
    lterms = []
    for V in range(1, n + 1):
        for p in S[V]:
            exp = expected_lu(S, V, p)
            stats["last_updates"] += 1
            stats["lu_age"][V - exp] = stats["lu_age"].get(V - exp, 0) + 1
            ctx.count(("lu", tuple(st.get(p) for st in S[1:V + 1])), nontrivial=(exp != V))
            if LU[V].get(p) != exp:
                bad({"cmd": "get_object", "version": V, "path": p}, LU[V].get(p),
                    "last_update = v%d, the version that last changed the file" % exp)
        lterms.append("(%d, Ok %s)" % (V, coq_list(["(%d, %d)" % (pidx(p), u) for p, u in LU[V].items()])))
    lterms.append("(%d, %s)" % (n + 1, coq_res(rec["object_missing"], lambda o: "[]")))
    terms.append("check_lus %s %s" % (hterm, coq_list(lterms)))
    term_owner.append((oid, "last_update", inp, LU[1:]))
    for ver in plan["versions"]:
        for sname in ver["shapes"]:
            stats["shapes"][sname] = stats["shapes"].get(sname, 0) + 1


def evaluate(ctx, repos):
    """repos: list of (cfg, [plans]); runs them, judges, evaluates the model; fills ctx"""
    stats = {"objects": 0, "versions": 0, "diffs": 0, "missing_version_diffs": 0, "staged_diffs": 0, "file_logs": 0,
             "last_updates": 0, "log_rows": 0, "refused_commits": 0, "kinds": {}, "fv_len": {}, "lu_age": {}, "shapes": {},
             "violations_found": 0, "_bad": set()}
    results = []
    with concurrent.futures.ThreadPoolExecutor(max_workers=min(common.NPROC, 12)) as ex:
        futs = [ex.submit(run_repo, ctx, cfg, "r%d" % i, plans) for i, (cfg, plans) in enumerate(repos)]
        for f in futs:
            results.append(f.result())
    terms, owner = [], []
    for (cfg, plans), (recs, missing) in zip(repos, results):
        for k, v in missing.items():
            want = "ok" if k == "diff_staged" else "err:NotFound"
            if hist.res_class(v) != want or (k == "diff_staged" and v["ok"] != []):
                ctx.violation("impl-violation", {"input": {"config": cfg, "query": k + " on an object that does not exist"},
                                                 "observed": v, "expected": "NotFound (diff_staged: empty)"})
        for rec in recs:
            stats["objects"] += 1
            stats["versions"] += len(rec["plan"]["versions"])
            judge(ctx, cfg, rec, stats, terms, owner)
    res = common.coq_eval("c18", ["Base.Bytes", "Model.Diff", "Corr.CheckDiff"], terms, batch=40)
    n_corr = 0
    bad_objects = stats.pop("_bad")
    for t, (oid, what, inp, obs), r in zip(terms, owner, res):
        n_corr += 1
        if r not in ("[]", "true"):
            if oid not in bad_objects:       # otherwise the failing input is already recorded as a violation
                common.corr_break(ctx, "Corr.CheckDiff %s (model Diff.v vs the library)" % what,
                                  {"input": inp, "object": oid, "failing_case_indices": r, "observed": obs})
    stats["coq_terms"] = n_corr
    stats["model_disagreements"] = sum(1 for r in res if r not in ("[]", "true"))
    return stats


RULE = ("objects built through the library from generated plans: 1-%d versions, each version 1-3 shapes out of add, modify, "
        "delete, re-add, revert, rename 1-1/1-n/n-1/n-m, swap, duplicate, no-op, move-and-replace over 12 paths and 8 contents "
        "(contents reused so that several names share a digest); rotating layouts/algorithms/padding; per object: diff for all "
        "ordered pairs incl. left omitted and a missing version, diff_staged before every commit, versions, file_versions per "
        "path + a path that never existed, get_object per version.  distinct = distinct (left state, right state) for diffs, "
        "distinct content history of a path for file logs / last_update, distinct metadata for log rows; non-trivial = states differ / "
        "more than one log entry / last_update older than the listed version")


def make_repos(ctx, n_objects, max_versions, per_repo=10):
    n_repos = (n_objects + per_repo - 1) // per_repo
    cfgs = hist.configurations(ctx.rng, n_repos)
    repos, k = [], 0
    for cfg in cfgs:
        plans = []
        for _ in range(per_repo):
            if k >= n_objects:
                break
            plans.append(gen_plan(ctx.rng, hist.obj_id(cfg, k), max_versions))
            k += 1
        repos.append((cfg, plans))
    return repos


def run(ctx):
    proof = common.proof_stage(ctx)
    common.build_harness()
    ok, log = common.coq_make(["theories/Corr/CheckDiff.vo"])
    if not ok:
        raise common.BuildError("Corr/CheckDiff.v does not build:\n" + log[-3000:])
    n_objects = 150 if ctx.quick() else 3000
    repos = make_repos(ctx, n_objects, 6)
    stats = evaluate(ctx, repos)
    ctx.coverage["traces_validated_against_impl"] = stats["coq_terms"]
    ctx.coverage["distribution"] = stats
    ctx.assumptions.append("digests enter the model as numbers assigned by the driver (equal number <=> equal hex digest ignoring case, "
                           "as HexDigest::eq); paths as numbers (equal number <=> equal logical path string)")
    ctx.assumptions.append("timestamps are compared as instants (nanoseconds); a commit without a timestamp is checked to carry the wall-clock time of the commit (+-2 s)")
    return common.finish_with_proof(ctx, proof, rule=RULE % 6)


def replay(ctx, body):
    """re-run the object of a replay file (input.config + input.plan) with every query"""
    proof = common.proof_stage(ctx)
    common.build_harness()
    common.coq_make(["theories/Corr/CheckDiff.vo"])
    inp = body.get("input", {})
    if "plan" not in inp:
        return run(ctx)
    stats = evaluate(ctx, [(inp["config"], [inp["plan"]])])
    ctx.coverage["distribution"] = stats
    return common.finish_with_proof(ctx, proof, rule="replay of one recorded object plan")
