"""C19 - every committed object is found, exactly once, under any layout.

Stage 1 (proof): Props/C19.v.
Stage 2 (correspondence): repositories are built with the real library from hostile id
  sets under every layout of hist.LAYOUTS and without layout; after every commit/purge the
  on-disk tree is abstracted into a Model/Listing.v [tree] term and list_objects(None|glob),
  list_staged_objects, get_object and purge_object (result class, objects left, eviction of the
  handle's id->path cache as seen by later lookups) of the real library are compared, inside Coq
  (Corr/CheckListing.v), with the model's answers - defects included.  A hand-written
  repository with unusual inventory spellings exercises the regex pre-filter, its JSON decoding
  and the raw-text fallback for strings that do not decode (fs.rs:1066-1070).
  Ids that need a JSON escape (quote, backslash, control characters) are ordinary MUST-PASS inputs
  since /repo 5a727de: found by id with and without layout, listed once, globs tested on the id itself.
Stage 3 (direct search): model-free oracle on the same answers: listed ids == the driver's
  own record of committed ids (as a multiset), glob listing == the ids the glob matches,
  staged listing == ids with staged changes, committed ids open, never-committed / purged /
  staged-only ids are NotFound.
"""
import concurrent.futures
import hashlib
import json
import os
import re
import subprocess

from vplib import common, hist

# --------------------------------------------------------------------------- ids

# Rust's char::is_whitespace (White_Space).  Since /repo 031a721 create_object stores the id exactly as
# given (only an id that is blank after trimming is refused), so ` lead` and `lead` are different objects.
RUST_WS = set("\t\n\x0b\x0c\r \x85\xa0\u1680\u2000\u2001\u2002\u2003\u2004\u2005\u2006\u2007\u2008\u2009\u200a"
              "\u2028\u2029\u202f\u205f\u3000")


def rust_trim(s):
    i, j = 0, len(s)
    while i < j and s[i] in RUST_WS:
        i += 1
    while j > i and s[j - 1] in RUST_WS:
        j -= 1
    return s[i:j]


POOL = {
    "benign": ["obj-1", "obj-2", "Object_3", "x", "urn-uuid-0001"],
    "glob": ["a*b", "ob?", "[abc]", "{x,y}", "a[b", "star*", "q?q", "br{ace", "!neg", "a-b,c", "*", "?", "\\*"],
    "escape": ['id"q', 'id"r', "back\\slash", "\\", '"', "tab\there", "nl\nhere", "ctl\x01x", "a\\nb",
               'x"id":"y', "bell\x07", "q\"\\"],
    "plainodd": ["\x7f", "100%", "a%2fb", "semi;colon", "dollar$", "'single'", "<tag>", "a=b&c", "#hash", "~tilde", "+plus"],
    "slash": ["a/b", "a/b/c", "urn/x/y", "/lead", "trail/", "a//b"],
    "space": ["has space", " lead", "trail ", "  both  ", "\u00a0nbsp", "in\u3000side", "tab\tend\t", "two  spaces"],
    "case": ["AbC", "abc", "ABC", "aBc"],
    "reserved": ["extensions", "Extensions", "extensions ", "0=ocfl_1.1", "0=ocfl_1.0", "ocfl_layout.json",
                 "inventory.json", "0=ocfl_object_1.0", "v1", "rocfl-staging"],
    "long": ["L" * 200, "long-" + "x" * 300, "m" * 101, "n" * 100, "y" * 255],
    "unicode": ["ob\u00fc", "\u65e5\u672c\u8a9e", "emoji\U0001F600", "e\u0301", "\u00e9", "\u00dcber", "\u0130stanbul"],
}
DIRECT = ("0002", "0006", "0007")


def id_ok_for(layout, x):
    """ids the layout can map safely (C11/C12 own the rest)"""
    if not rust_trim(x):
        return False
    if layout in DIRECT:
        if "/" in x or rust_trim(x) in (".", "..") or "\x00" in x:
            return False
        if layout in ("0006", "0007") and ":" in x:
            return False
        if layout == "0007" and any(ord(c) > 126 or ord(c) < 32 for c in x):
            return False        # map_object_id of 0007 panics on non-ASCII ids (C11's subject)
    return True


def to_layout_id(layout, x):
    return "p:" + x if layout in ("0006", "0007") else x


def id_class(x):
    for k, v in POOL.items():
        if x in v or (x.startswith("p:") and x[2:] in v):
            return k
    return "derived"


# --------------------------------------------------------------------------- globs

META = set("*?[]{}\\")


def glob_tokens(rng, ids):
    """a glob of the subset literal / * / ? / backslash-escape, as a token list"""
    base = rng.choice(ids) if ids else "x"
    toks = [("lit", c) for c in base]
    k = rng.random()
    n = len(toks)
    if k < 0.18:
        pass
    elif k < 0.26:
        toks = [("star",)]
    elif k < 0.50:
        i = rng.randint(0, n)
        j = rng.randint(i, n)
        toks[i:j] = [("star",)]
    elif k < 0.68 and n:
        toks[rng.randrange(n)] = ("any",)
    elif k < 0.84 and n:
        toks[rng.randrange(n)] = ("any",)
        i = rng.randint(0, len(toks))
        toks[i:i] = [("star",)]
    elif k < 0.92:
        toks = toks[: rng.randint(0, n)] + [("star",)]
    else:
        toks = [("star",)] + toks[rng.randint(0, n):]
    out = []
    for t in toks:                       # never two stars in a row (that is globset's recursive **)
        if t[0] == "star" and out and out[-1][0] == "star":
            continue
        out.append(t)
    return out


def glob_text(toks):
    s = ""
    for t in toks:
        if t[0] == "star":
            s += "*"
        elif t[0] == "any":
            s += "?"
        else:
            s += ("\\" + t[1]) if t[1] in META else t[1]
    return s


def glob_match_chars(toks, s):
    """the documented meaning: ? = one character, * = any sequence"""
    rx = "".join(".*" if t[0] == "star" else "." if t[0] == "any" else re.escape(t[1]) for t in toks)
    return re.fullmatch(rx, s, re.S) is not None


def glob_match_bytes(toks, s):
    """what globset does: a byte regex (dot_matches_new_line: LF is a byte like any other)"""
    rx = b"".join(b".*" if t[0] == "star" else b"." if t[0] == "any" else re.escape(t[1].encode("utf-8"))
                  for t in toks)
    return re.fullmatch(rx, s.encode("utf-8"), re.S) is not None


# --------------------------------------------------------------------------- Coq terms

def cq(data):
    """Coq [bytes] term of a str/bytes (string literals for printable runs)"""
    bs_ = data.encode("utf-8") if isinstance(data, str) else bytes(data)
    if not bs_:
        return "(@nil ascii)"
    parts, run, raw = [], bytearray(), []

    def flush_run():
        if run:
            parts.append('b "%s"' % run.decode("ascii").replace('"', '""'))
            run.clear()

    def flush_raw():
        if raw:
            parts.append("bs [%s]" % "; ".join(str(c) for c in raw))
            raw.clear()

    for c in bs_:
        if 32 <= c < 127:
            flush_raw()
            run.append(c)
        else:
            flush_run()
            raw.append(c)
    flush_run()
    flush_raw()
    return "(" + " ++ ".join(parts) + ")"


def cq_path(parts):
    return "[" + "; ".join(cq(p) for p in parts) + "]"


def cq_pid(p, i):
    return "(%s, %s)" % (cq_path(p), cq(i))


def split_path(rel):
    """std::path::Path::components of a storage-root relative path, as the model's list of Normal
    components: empty and `.` components vanish; a path that is absolute or has a `..` component is no
    relative descendant (fs.rs:1240-1250: never looked up, never created) = the model's empty path"""
    if rel.startswith("/"):
        return []
    parts = [c for c in rel.split("/") if c not in ("", ".")]
    return [] if ".." in parts else parts


def abstract_tree(d, deep=False):
    """the directory tree below d as a Listing.tree term: every name; contents only of inventory.json
    files; directories below an object root are cut to [Dir []] (the walk never descends, only
    [extensions] is kept for the mutable-HEAD inventory path) - unless deep: then the directories
    inside an object are kept too (a lookup through a layout path may land there)"""
    try:
        names = sorted(os.listdir(d))
    except OSError:
        return "(Dir [])"
    has_decl = any(n.startswith("0=ocfl_object_") and os.path.isfile(os.path.join(d, n)) for n in names)
    ents = []
    for n in names:
        p = os.path.join(d, n)
        if os.path.isdir(p) and not os.path.islink(p):
            if has_decl and n != "extensions" and not deep:
                sub = "(Dir [])"
            else:
                sub = abstract_tree(p, deep)
        else:
            content = b""
            if n == "inventory.json":
                try:
                    content = open(p, "rb").read()
                except OSError:
                    content = b""
            sub = "(File %s)" % cq(content)
        ents.append("(%s, %s)" % (cq(n), sub))
    return "(Dir [%s])" % "; ".join(ents)


# --------------------------------------------------------------------------- case generation

def gen_case(rng, k, layout):
    pool_all = [x for v in POOL.values() for x in v]
    usable = [x for x in pool_all if id_ok_for(layout, x)]
    n = rng.randint(3, 8)
    # weight the hostile classes, keep a few benign ids in every case
    chosen = []
    for cls in rng.sample(list(POOL.keys()), k=min(len(POOL), rng.randint(3, 6))):
        cand = [x for x in POOL[cls] if id_ok_for(layout, x)]
        if cand:
            chosen += rng.sample(cand, k=min(len(cand), rng.randint(1, 2)))
    chosen += rng.sample(POOL["benign"], k=2)
    rng.shuffle(chosen)
    raw_ids = []
    seen = set()
    for x in chosen:
        if x in seen:
            continue
        seen.add(x)
        raw_ids.append(to_layout_id(layout, x))
        if len(raw_ids) >= n:
            break
    cfg = {
        "layout": layout,
        "repo_spec": rng.choice(["1.0", "1.1"]),
        "alg": "sha256",
        "cdir": "content",
        "pad": 0,
        "ext_staging": rng.random() < 0.3,
        "fresh_handle": rng.random() < 0.4,
    }
    cfg["obj_spec"] = cfg["repo_spec"] if rng.random() < 0.7 else "1.0"
    ops = []
    state = {}                      # id -> 'committed' | 'staged' | 'purged'
    roots = {}                      # no layout: id -> chosen object_root
    free_roots = []                 # no layout: roots of purged objects (to be reused)

    def pick_root(tid, reuse=0.5):
        if layout != "none":
            return None
        r = rng.random()
        h = hashlib.md5(tid.encode("utf-8")).hexdigest()
        if free_roots and r < reuse:
            return free_roots.pop(rng.randrange(len(free_roots)))
        if r < 0.6:
            return "objs/" + h[:8]
        if r < 0.7:
            return "o" + h[:6]                                  # directly below the storage root
        if r < 0.8:
            return "deep/%s/%s/%s/%s" % (h[0], h[1], h[2], h[3:9])
        if r < 0.87:
            return "a/extensions/" + h[:6]                      # a directory NAMED extensions on the way
        if r < 0.9:
            return "x%s/extensions" % h[:5]                     # the object root itself is NAMED extensions
        return "Objs/" + h[:8].upper()

    for raw in raw_ids:
        tid = raw
        r = rng.random()
        if r < 0.70:
            ops.append({"op": "create", "raw": raw, "id": tid, "root": pick_root(tid), "pretty": rng.random() < 0.4})
            state[tid] = "committed"
        elif r < 0.85:
            ops.append({"op": "stage", "raw": raw, "id": tid})
            state[tid] = "staged"
        else:
            ops.append({"op": "create", "raw": raw, "id": tid, "root": pick_root(tid), "pretty": rng.random() < 0.4})
            ops.append({"op": "stage_update", "id": tid})
            state[tid] = "committed"
        if ops[-1].get("root"):
            roots[tid] = ops[-1]["root"]
    for _ in range(rng.randint(2, 6)):
        com = [i for i, s in state.items() if s == "committed"]
        pur = [i for i, s in state.items() if s == "purged"]
        stg = [i for i, s in state.items() if s == "staged"]
        r = rng.random()
        fresh = [to_layout_id(layout, x) for x in usable if to_layout_id(layout, x) not in state]
        if r < 0.40 and com:
            tid = rng.choice(com)
            ops.append({"op": "purge", "id": tid})
            state[tid] = "purged"
            if tid in roots:
                free_roots.append(roots.pop(tid))
        elif r < 0.52 and pur and fresh:
            # an object that was never there takes the place (without layout: the very root) of a purged one
            tid = rng.choice(fresh)
            ops.append({"op": "create", "raw": tid, "id": tid, "root": pick_root(tid, reuse=0.9), "pretty": rng.random() < 0.4})
            state[tid] = "committed"
            if ops[-1].get("root"):
                roots[tid] = ops[-1]["root"]
        elif r < 0.65 and pur:
            tid = rng.choice(pur)
            ops.append({"op": "create", "raw": tid, "id": tid, "root": pick_root(tid), "pretty": rng.random() < 0.4})
            state[tid] = "committed"
            if ops[-1].get("root"):
                roots[tid] = ops[-1]["root"]
        elif r < 0.80 and stg:
            tid = rng.choice(stg)
            ops.append({"op": "commit_staged", "id": tid, "root": pick_root(tid), "pretty": rng.random() < 0.4})
            state[tid] = "committed"
            if ops[-1].get("root"):
                roots[tid] = ops[-1]["root"]
        elif com:
            tid = rng.choice(com)
            ops.append({"op": rng.choice(["update", "stage_update"]), "id": tid, "pretty": rng.random() < 0.4})
    # probes: ids never committed
    probes = []
    cand = [to_layout_id(layout, x) for x in usable if to_layout_id(layout, x) not in state]
    probes += rng.sample(cand, k=min(len(cand), 3))
    for tid in list(state)[:4]:
        body = tid[2:] if layout in ("0006", "0007") else tid
        esc = json.dumps(body, ensure_ascii=False)[1:-1]
        cut = esc.split('"')[0]
        for v in (cut, body.upper(), body + "x", body[:-1], " " + body, body + " ", rust_trim(body)):
            if v and v != body and id_ok_for(layout, v) and rust_trim(v):
                probes.append(to_layout_id(layout, v))
    probes = [p for p in dict.fromkeys(probes) if p not in state][:8]
    globs = [glob_tokens(rng, list(state) + probes) for _ in range(4)]
    return {"k": k, "cfg": cfg, "ops": ops, "probes": probes, "globs": globs}


SCRIPT_IDS = [("A1", "B1"), ("a*b", "a?b"), ("has space", " has space"), ("ob\u00fc", "OB\u00dc"), ("extensions", "Extensions"),
              ("urn/x/y", "urn/x")]
SCRIPT_ROOTS = ["reuse/x", "r1", "a/extensions/o1", "b/extensions", "deep/1/2/3/x", "Objs/X"]


def scripted_case(rng, k, n):
    """no layout: A is committed at root R and looked up, A is purged, B (never there before) is committed at R;
    the handle must then report A as not found and B at R - with one handle for everything (odd n) or a fresh
    handle per call (even n).  R runs through roots below / named `extensions`."""
    a, b_ = SCRIPT_IDS[n % len(SCRIPT_IDS)]
    root = SCRIPT_ROOTS[(n // 2) % len(SCRIPT_ROOTS)]
    cfg = {"layout": "none", "repo_spec": "1.1", "obj_spec": "1.1", "alg": "sha256", "cdir": "content", "pad": 0,
           "ext_staging": n % 3 == 0, "fresh_handle": n % 2 == 0}
    ops = [{"op": "create", "raw": "keep", "id": "keep", "root": "objs/keep", "pretty": False},
           {"op": "create", "raw": a, "id": a, "root": root, "pretty": n % 4 < 2},
           {"op": "update", "id": a, "pretty": False},
           {"op": "purge", "id": a},
           {"op": "create", "raw": b_, "id": b_, "root": root, "pretty": False},
           {"op": "purge", "id": b_},
           {"op": "create", "raw": a, "id": a, "root": "again/" + root, "pretty": True}]
    probes = [a + "x", b_.upper(), "nope"]
    globs = [glob_tokens(rng, [a, b_, "keep"]) for _ in range(4)]
    return {"k": k, "cfg": cfg, "ops": ops, "probes": probes, "globs": globs, "scripted": True}


def refused_root_case(rng, k, n):
    """no layout: A is committed at root R; the commit of B (never there before) at the SAME root R - or at a root
    inside A, or outside the storage root - is refused; B must then be not found (and A still found at R) through
    the same handle (odd n) as through a fresh one (even n); B is then committed at a free root and found there."""
    a, b_ = SCRIPT_IDS[n % len(SCRIPT_IDS)]
    root = SCRIPT_ROOTS[(n // 2) % len(SCRIPT_ROOTS)]
    bad = [root, root + "/v1/content/in", root + "/inner", "../outside-" + str(n)][(n // 2) % 4]
    cfg = {"layout": "none", "repo_spec": "1.1", "obj_spec": "1.1", "alg": "sha256", "cdir": "content", "pad": 0,
           "ext_staging": n % 3 == 0, "fresh_handle": n % 2 == 0}
    ops = [{"op": "create", "raw": "keep", "id": "keep", "root": "objs/keep", "pretty": False},
           {"op": "create", "raw": a, "id": a, "root": root, "pretty": False},
           {"op": "create", "raw": b_, "id": b_, "root": bad, "pretty": False},          # refused: B stays staged
           {"op": "update", "id": a, "pretty": False},
           {"op": "commit_staged", "id": b_, "root": bad, "pretty": False},              # refused again
           {"op": "commit_staged", "id": b_, "root": "free/" + root, "pretty": True},
           {"op": "update", "id": b_, "pretty": False}]
    probes = [a + "x", "nope"]
    globs = [glob_tokens(rng, [a, b_, "keep"]) for _ in range(4)]
    return {"k": k, "cfg": cfg, "ops": ops, "probes": probes, "globs": globs, "scripted": True}


def large_case(rng, k, n):
    """an object with hundreds of files (compact root inventory of 70-200 KB on ONE line, or pretty printed) next to
    small ones: listed by every glob that matches its id, found by id with and without a layout, purged when asked"""
    lay = ("none", "0004", "0002", "none")[n % 4]
    cfg = {"layout": lay, "repo_spec": "1.1", "obj_spec": "1.1", "alg": ("sha512", "sha256")[(n // 4) % 2], "cdir": "content", "pad": 0,
           "ext_staging": n % 3 == 0, "fresh_handle": n % 2 == 0}
    big, small = "big-%d" % n, "small-%d" % n
    root = (lambda x: "objs/" + x) if lay == "none" else (lambda x: None)
    ops = [{"op": "create", "raw": small, "id": small, "root": root(small), "pretty": False},
           {"op": "create", "raw": big, "id": big, "root": root(big), "pretty": n % 8 >= 6, "bulk": (420, 900)[n % 2]},
           {"op": "update", "id": big, "pretty": False},
           {"op": "purge", "id": small},
           {"op": "purge", "id": big}]
    globs = [glob_tokens(rng, [big, small]) for _ in range(3)] + [[("star",)]]
    return {"k": k, "cfg": cfg, "ops": ops, "probes": ["big", "nope"], "globs": globs, "scripted": True}


def occupied_case(rng, k, n):
    """flat layouts: ids whose layout path exists without being an object - the storage root's `extensions`
    directory and files, and (0002, ids with `/`) a directory other objects are stored beneath.  get_object
    or a directory inside another object (its version directory holds an inventory file).  get_object of such
    an id is NotFound (fs.rs:239-247, 253-256), it is listed nowhere, and committing it is refused."""
    layout = ("0002", "0006")[n % 2]
    pre = "p:" if layout == "0006" else ""
    cfg = {"layout": layout, "repo_spec": ("1.1", "1.0")[(n // 2) % 2], "obj_spec": "1.0", "alg": "sha256", "cdir": "content",
           "pad": 0, "ext_staging": n % 3 == 0, "fresh_handle": n % 4 < 2}
    ops = [{"op": "create", "raw": pre + "keep", "id": pre + "keep", "root": None, "pretty": False}]
    if layout == "0002":
        ops += [{"op": "create", "raw": "dir/sub/obj", "id": "dir/sub/obj", "root": None, "pretty": n % 4 == 0},
                {"op": "create", "raw": "dir/other", "id": "dir/other", "root": None, "pretty": False}]
    squat = [pre + x for x in ("extensions", "0=ocfl_1.1", "0=ocfl_1.0", "ocfl_layout.json", "extensions/rocfl-staging")]
    if layout == "0002":
        squat += ["dir", "dir/sub", "dir/sub/obj/v1", "dir/sub/obj/inner"]
    rng.shuffle(squat)
    # creating them must fail at the commit (the object stays staged only)
    ops += [{"op": "create", "raw": x, "id": x, "root": None, "pretty": False} for x in squat[:3]]
    ops += [{"op": "purge", "id": squat[0]}, {"op": "update", "id": pre + "keep", "pretty": False}]
    probes = [x for x in squat if x not in [o["id"] for o in ops]] + [pre + "nope"]
    globs = [glob_tokens(rng, [pre + "keep", "dir/sub/obj", pre + "extensions"]) for _ in range(4)]
    return {"k": k, "cfg": cfg, "ops": ops, "probes": probes, "globs": globs, "scripted": True, "deep": True}


ESC_SETS = [['id"q', "id\\", "plain-1"], ['q"\\', "q\\", "tab\there"], ['x"id":"y', "x\\", "nl\nhere"],
            ["back\\slash", "back", "ctl\x01x"], ['"', "\\", "bell\x07"], ["a\\nb", "a\nb", 'id"r']]


def escape_case(rng, k, n):
    """regression of /repo 5a727de: ids that are spelled with JSON escapes in the inventory, each next to the id that
    is the escaped text cut at its first quote (what the pre-filter compared before the repair) - both committed, or the
    cut text only probed.  Every id is found by get_object (scan without layout, layout path otherwise), listed once,
    matched by globs on the id itself; purge removes exactly the named one; the cut text of a purged twin is not found."""
    lay = ("none", "none", "0003", "0004")[n % 4]
    ids = ESC_SETS[((n // 4) * 2 + n % 2) % len(ESC_SETS)]
    esc_id, twin, other = ids
    twin_committed = n % 3 != 2
    cfg = {"layout": lay, "repo_spec": "1.1", "obj_spec": ("1.1", "1.0")[(n // 8) % 2], "alg": "sha256", "cdir": "content", "pad": 0,
           "ext_staging": n % 3 == 0, "fresh_handle": (n // 4 + n) % 2 == 0}
    root = (lambda j: "objs/e%d" % j) if lay == "none" else (lambda j: None)
    ops = [{"op": "create", "raw": "keep", "id": "keep", "root": root(0), "pretty": False},
           {"op": "create", "raw": esc_id, "id": esc_id, "root": root(1), "pretty": n % 4 >= 2}]
    if twin_committed:
        ops.append({"op": "create", "raw": twin, "id": twin, "root": root(2), "pretty": n % 8 >= 4})
    ops += [{"op": "create", "raw": other, "id": other, "root": root(3), "pretty": True},
            {"op": "update", "id": esc_id, "pretty": n % 2 == 0},
            {"op": "purge", "id": twin if twin_committed else esc_id},
            {"op": "update", "id": other, "pretty": False},
            {"op": "purge", "id": esc_id},
            {"op": "create", "raw": esc_id, "id": esc_id, "root": root(4), "pretty": False}]
    cuts = [json.dumps(x, ensure_ascii=False)[1:-1].split('"')[0] for x in ids]
    used = {o["id"] for o in ops}
    probes = [c for c in dict.fromkeys(cuts + [twin, json.dumps(esc_id)[1:-1], esc_id + "x", "nope"]) if c and c not in used]
    lit = lambda x: [("lit", c) for c in x]
    special = [j for j, c in enumerate(esc_id) if c in '"\\' or ord(c) < 32]
    g1 = lit(esc_id)
    g2 = lit(esc_id)
    g2[special[0]] = ("any",)
    g3 = lit(esc_id[: special[0] + 1]) + [("star",)]
    g4 = lit(twin) + [("star",)]
    return {"k": k, "cfg": cfg, "ops": ops, "probes": probes[:6], "globs": [g1, g2, g3, g4], "scripted": True}


def gen_cases(ctx):
    keys = ["none", "0003", "0004", "0002", "none", "0006", "0007", "0003b", "0004b", "none"]
    n = 170 if ctx.quick() else 4000
    cases = [gen_case(ctx.rng, k, keys[k % len(keys)]) for k in range(n)]
    m = 12 if ctx.quick() else 72
    cases += [scripted_case(ctx.rng, n + j, j) for j in range(m)]
    m2 = 8 if ctx.quick() else 48
    cases += [occupied_case(ctx.rng, n + m + j, j) for j in range(m2)]
    m3 = 8 if ctx.quick() else 48
    cases += [refused_root_case(ctx.rng, n + m + m2 + j, j) for j in range(m3)]
    m4 = 4 if ctx.quick() else 16
    cases += [large_case(ctx.rng, n + m + m2 + m3 + j, j) for j in range(m4)]
    m5 = 12 if ctx.quick() else 96
    return cases + [escape_case(ctx.rng, n + m + m2 + m3 + m4 + j, j) for j in range(m5)]


# --------------------------------------------------------------------------- running a case

def layout_paths(vh, cases):
    """real StorageLayout::map_object_id for every id a case may look up (input of the model)"""
    lines, idx = [], []
    for c in cases:
        lay = hist.LAYOUTS[c["cfg"]["layout"]]
        if lay is None:
            continue
        ids = list(dict.fromkeys([o["id"] for o in c["ops"]] + c["probes"]))
        lines.append(json.dumps({"ext": lay["ext"], "config": lay["config"], "ids": ids}))
        idx.append((c, ids))
    if not lines:
        return
    p = subprocess.run([vh, "layout"], input="\n".join(lines) + "\n", capture_output=True, text=True, timeout=600)
    outs = [json.loads(l) for l in p.stdout.splitlines() if l.strip()]
    if len(outs) != len(lines):
        raise common.BuildError("harness layout produced %d results for %d lines" % (len(outs), len(lines)))
    for (c, ids), o in zip(idx, outs):
        if o.get("new") != "ok":
            raise common.BuildError("layout of hist.LAYOUTS rejected: %r" % (o,))
        c["lmap"] = {i: r["ok"] for i, r in zip(ids, o["paths"]) if "ok" in r}


class CaseRun:
    def __init__(self, ctx, case):
        self.ctx, self.case, self.cfg = ctx, case, case["cfg"]
        self.r = hist.Runner(ctx, self.cfg, "c19-%d" % case["k"])
        self.committed = {}        # id -> True   (the driver's own record)
        self.staged = set()
        self.purged = set()
        self.checkpoints = []
        # What the driver knows of the handle's id->path cache (no layout; fs.rs:48-50).  A new handle
        # has an empty cache.  An entry is written when a scan finds the id (get_object, but also the
        # lookups inside new/cp/commit: after such a call the entry of THAT id is unknown unless already
        # present) and is removed by purge (fs.rs:580-583).
        self.cache_sim = {}        # id -> root the handle's cache holds for certain
        self.cache_unknown = set() # ids whose entry may or may not exist
        self.pending_purge = []    # purge calls since the last checkpoint (compared with Listing.purge_object)
        self.nfile = 0
        self.events = []

    def cache_reset(self):
        self.cache_sim = {}
        self.cache_unknown = set()

    def cache_touch(self, oid):
        if oid not in self.cache_sim:
            self.cache_unknown.add(oid)

    def cache_view(self, oid):
        """the cache restricted to oid, or None when unknown"""
        if oid in self.cache_sim:
            return {oid: self.cache_sim[oid]}
        return None if oid in self.cache_unknown else {}

    def call(self, cmd, **kw):
        if self.cfg["fresh_handle"]:
            self.r.reopen()
            self.cache_reset()
        return self.r.s.call(cmd, h="A", **kw)

    def step(self, op):
        if self.cfg["fresh_handle"]:
            self.cache_reset()
        elif op.get("id") is not None and op["op"] != "purge":
            self.cache_touch(op["id"])
        return self.r.step(op)[1]

    def add_file(self, tid, bulk=0):
        self.nfile += 1
        if bulk:
            # many files at once: the compact (one-line) root inventory grows beyond the buffer sizes of line-oriented readers
            files = {"sub%d/file-%04d.txt" % (k % 7, k): b"bulk %d %d" % (self.nfile, k) for k in range(bulk)}
            return self.step({"op": "cp_ext", "id": tid, "files": [], "dir": ["bulk%d" % self.nfile, files], "dst": "bulk%d" % self.nfile,
                              "recursive": True})
        return self.step({"op": "cp_ext", "id": tid, "files": [["f%d.txt" % self.nfile, b"content %d" % self.nfile]],
                          "dst": "f%d.txt" % self.nfile})

    def commit(self, tid, root, pretty):
        op = {"op": "commit", "id": tid, "pretty": bool(pretty)}
        if root:
            op["object_root"] = root
        return self.step(op)

    def apply(self, op):
        o, tid = op["op"], op["id"]
        ok = lambda r: "ok" in r
        ev = {"op": op, "res": []}
        self.events.append(ev)
        if o in ("create", "stage"):
            r = self.step({"op": "new", "id": op["raw"]})
            ev["res"].append(hist.res_class(r))
            if not ok(r):
                return False
            r = self.add_file(tid, op.get("bulk", 0))
            ev["res"].append(hist.res_class(r))
            if not ok(r):
                return False
            self.staged.add(tid)
            if o == "stage":
                return False
        if o in ("update", "stage_update"):
            r = self.add_file(tid)
            ev["res"].append(hist.res_class(r))
            if not ok(r):
                return False
            self.staged.add(tid)
            if o == "stage_update":
                return False
        if o in ("create", "update", "commit_staged"):
            r = self.commit(tid, op.get("root"), op.get("pretty"))
            ev["res"].append(hist.res_class(r))
            if "panic" in r:
                ev["panic"] = r
            if ok(r):
                self.committed[tid] = True
                self.purged.discard(tid)
                self.staged.discard(tid)
                return True
            return False
        if o == "purge":
            nolayout = self.cfg["layout"] == "none"
            before = abstract_tree(self.r.root, self.case.get("deep", False))
            view = self.cache_view(tid) if nolayout and not self.cfg["fresh_handle"] else {}
            r = self.step({"op": "purge", "id": tid})
            ev["res"].append(hist.res_class(r))
            if "panic" in r:
                ev["panic"] = r
            # purge_object either evicts the entry (fs.rs:580-583) or found none (scan: NotFound);
            # an error of the staging store's purge (repo.rs:524-526) comes before the main store is asked
            if ok(r) or hist.res_class(r) == "err:IllegalState":
                self.cache_sim.pop(tid, None)
                self.cache_unknown.discard(tid)
            else:
                self.cache_touch(tid)
            self.pending_purge.append({"kind": "purge", "id": tid, "ok": ok(r), "raw": hist.res_class(r), "tree_before": before,
                                       "cache": view, "coq": view is not None})
            if ok(r):
                if tid in self.committed:
                    del self.committed[tid]
                    self.purged.add(tid)
                self.staged.discard(tid)     # purge also drops the staged version
                return True
            if hist.res_class(r) == "err:IllegalState":
                # the staged version is purged first (repo.rs:524-526); the refusal comes from the main
                # store's guard on the object root (fs.rs:588)
                self.staged.discard(tid)
            return False
        return False

    def rel(self, absolute, base):
        return split_path(os.path.relpath(absolute, base))

    def list_q(self, staged, toks):
        cmd = "list_staged" if staged else "list_objects"
        g = glob_text(toks) if toks is not None else None
        r = self.call(cmd, glob=g)
        q = {"kind": cmd, "glob": g, "toks": toks, "raw": hist.res_class(r)}
        base = self.r.staging_root if staged else self.r.root
        if "ok" in r:
            q["items"] = [(self.rel(x["ok"]["object_root"], base), x["ok"]["id"]) for x in r["ok"] if "ok" in x]
            q["errors"] = len([x for x in r["ok"] if "ok" not in x])
            q["error_samples"] = [x for x in r["ok"] if "ok" not in x][:2]
        else:
            q["items"], q["errors"], q["failed"] = [], 0, r
        return q

    def get_q(self, oid, live_cache):
        r = self.call("get_object", id=oid)
        q = {"kind": "get", "id": oid, "raw": hist.res_class(r), "cache": dict(live_cache) if live_cache is not None else None}
        if "ok" in r:
            q["obs"] = ("found", self.rel(r["ok"]["object_root"], self.r.root), r["ok"]["id"])
        else:
            kind = r.get("err", {}).get("kind")
            q["obs"] = {"NotFound": ("notfound",), "CorruptObject": ("corrupt",), "General": ("generr",),
                        "Io": ("generr",)}.get(kind, ("other", r))
        return q

    def checkpoint(self, final):
        case, cfg = self.case, self.cfg
        nolayout = cfg["layout"] == "none"
        one_handle = not cfg["fresh_handle"]
        cp = {"committed": sorted(self.committed), "staged": sorted(self.staged), "purged": sorted(self.purged),
              "queries": [], "final": final}
        purges, self.pending_purge = self.pending_purge, []
        # the state the queries run on (nothing below mutates the repository)
        cp["tree"] = abstract_tree(self.r.root, case.get("deep", False))
        cp["stree"] = abstract_tree(self.r.staging_root) if os.path.isdir(self.r.staging_root) else "(Dir [])"
        qs = cp["queries"]
        if len(purges) == 1:
            qs.append(purges[0])      # cp["tree"] is the repository right after that purge
        qs.append(self.list_q(False, None))
        for toks in case["globs"]:
            qs.append(self.list_q(False, toks))
        qs.append(self.list_q(True, None))
        qs.append(self.list_q(True, case["globs"][0]))
        ids = list(self.committed) + sorted(self.staged - set(self.committed)) + sorted(self.purged) + case["probes"]
        ids = list(dict.fromkeys(ids))[:14]
        for oid in ids:
            if nolayout and one_handle:
                known_cache = self.cache_view(oid)
                q = self.get_q(oid, known_cache)
                q["coq"] = known_cache is not None
                if q["obs"][0] == "found" and oid not in self.cache_sim:
                    # either the entry existed (then it is the path just used) or the scan wrote it
                    self.cache_sim[oid] = q["obs"][1]
                    self.cache_unknown.discard(oid)
            else:
                q = self.get_q(oid, {})
                q["coq"] = True
            qs.append(q)
        if final:
            # validate_repo walks the storage hierarchy with the same skip rule (validate/mod.rs:1941-1950):
            # it must visit exactly the committed objects (direct oracle only, the validator is C06/C07's model)
            r = self.call("validate_repo", fixity=False)
            q = {"kind": "validate_repo", "raw": hist.res_class(r)}
            if "ok" in r:
                q["ids"] = [o["ok"].get("id") for o in r["ok"]["objects"] if "ok" in o]
                q["paths"] = [o["ok"].get("path") for o in r["ok"]["objects"] if "ok" in o]
                q["errors"] = len([o for o in r["ok"]["objects"] if "ok" not in o])
            else:
                q["ids"], q["paths"], q["errors"], q["failed"] = [], [], 0, r
            qs.append(q)
        if nolayout and one_handle and final:
            # exact cache: reopen, then a sequence of lookups (with repeats) threaded through the model
            self.r.reopen()
            self.cache_reset()
            seq = ids + ids[:6]
            for oid in seq:
                q = self.get_q(oid, self.cache_sim)
                q["coq"] = True
                if q["obs"][0] == "found" and oid not in self.cache_sim:
                    self.cache_sim[oid] = q["obs"][1]
                qs.append(q)
        self.checkpoints.append(cp)

    def run(self):
        try:
            n = len(self.case["ops"])
            did = False
            for k, op in enumerate(self.case["ops"]):
                did = self.apply(op) or op["op"] in ("purge",)
                if did or k == n - 1:
                    self.checkpoint(final=(k == n - 1))
            if not self.checkpoints or not self.checkpoints[-1]["final"]:
                self.checkpoint(final=True)
        finally:
            self.r.close()
        return self


# --------------------------------------------------------------------------- judging

def obs_term(o):
    if o[0] == "found":
        return "(OFound %s %s)" % (cq_path(o[1]), cq(o[2]))
    return {"notfound": "ONotFound", "corrupt": "OCorrupt", "generr": "OGenErr"}.get(o[0], "OGenErr")


class Names:
    """let-bound byte strings of one Coq term (long ids are written once)"""

    def __init__(self):
        self.m = {}

    def ref(self, x):
        if len(x.encode("utf-8")) <= 6:
            return cq(x)
        if x not in self.m:
            self.m[x] = "x%d" % len(self.m)
        return self.m[x]

    def lets(self):
        return "".join("let %s := %s in " % (v, cq(k)) for k, v in self.m.items())


def checkpoint_term(case, cp):
    """one Coq term per checkpoint: [names_unique t; q...] (one bit per query)"""
    nm = Names()
    lmap = case.get("lmap")
    lay = "None" if case["cfg"]["layout"] == "none" else \
        "(Some [%s])" % "; ".join("(%s, %s)" % (nm.ref(i), cq_path(split_path(p))) for i, p in sorted(lmap.items()))
    bits = ["names_unique t"]
    t0 = ""
    for q in cp["queries"]:
        if q["kind"] == "validate_repo":
            continue
        if q["kind"] == "purge":
            c = q["cache"] or {}
            cache = "[%s]" % "; ".join("(%s, %s)" % (nm.ref(i), cq_path(p)) for i, p in c.items())
            t0 = "let t0 := %s in " % q["tree_before"]
            bits.append("check_purge lay %s t0 %s %s t" % (cache, nm.ref(q["id"]), "true" if q["ok"] else "false"))
        elif q["kind"] in ("list_objects", "list_staged"):
            tr = "s" if q["kind"] == "list_staged" else "t"
            g = "None" if q["glob"] is None else "(Some %s)" % nm.ref(q["glob"])
            bits.append("check_list %s %s [%s] %d" % (
                tr, g, "; ".join("(%s, %s)" % (cq_path(p), nm.ref(i)) for p, i in q["items"]), q["errors"]))
        else:
            c = q["cache"] or {}
            cache = "[%s]" % "; ".join("(%s, %s)" % (nm.ref(i), cq_path(p)) for i, p in c.items())
            ident = nm.ref(q["id"])
            o = q["obs"]
            ot = "(OFound %s %s)" % (cq_path(o[1]), nm.ref(o[2])) if o[0] == "found" else obs_term(o)
            bits.append("check_get lay %s t %s %s" % (cache, ident, ot))
    return "%slet t := %s in let s := %s in %slet lay := (%s : option (list (bytes * path))) in [%s]" % (
        nm.lets(), cp["tree"], cp["stree"], t0, lay, "; ".join(bits))


def needs_escape(i):
    return any(c in '"\\' or ord(c) < 32 for c in i)


def multiset(xs):
    d = {}
    for x in xs:
        d[x] = d.get(x, 0) + 1
    return d


def direct_oracle(case, cp):
    """model-free statement of the property on every query of a checkpoint: q['msg'] = None | text"""
    committed, staged = cp["committed"], cp["staged"]
    for q in cp["queries"]:
        msg = None
        if q["kind"] == "purge":
            # the effect of a purge is judged on the listings and lookups that follow it
            if q["raw"] == "panic":
                msg = "purge_object panicked"
        elif q["kind"] == "validate_repo":
            got = [i for i in q["ids"]]
            q["want"], q["got"] = committed, got
            if "failed" in q:
                msg = "validate_repo failed: %r" % (q["failed"],)
            elif q["errors"]:
                msg = "validate_repo yielded %d error item(s)" % q["errors"]
            else:
                # (an object visited with id None - the validator could not read the id - counts as extra:
                # since /repo 2f36fc5 the validator reads ids spelled with JSON escapes)
                mg, mw = multiset(got), multiset(committed)
                q["extra"] = [i for i in mg for _ in range(mg[i] - mw.get(i, 0))]
                q["missing"] = [i for i in mw if mw[i] > mg.get(i, 0)]
            if msg is None and (q.get("extra") or q.get("missing")):
                msg = "objects visited by validate_repo differ from the reference record: missing %r, extra %r" % (
                    q["missing"], q["extra"])
        elif q["kind"] in ("list_objects", "list_staged"):
            truth = staged if q["kind"] == "list_staged" else committed
            toks = q["toks"]
            want = [i for i in truth if toks is None or glob_match_chars(toks, i)]
            got = [i for _, i in q["items"]]
            q["want"], q["got"] = want, got
            if "failed" in q:
                msg = "the listing call failed: %r" % (q["failed"],)
            elif q["errors"]:
                msg = "the listing yielded %d error item(s)" % q["errors"]
            elif multiset(got) != multiset(want):
                mg, mw = multiset(got), multiset(want)
                q["extra"] = [i for i in mg for _ in range(mg[i] - mw.get(i, 0))]
                q["missing"] = [i for i in mw if mw[i] > mg.get(i, 0)]
                msg = "listed ids differ from the reference record: missing %r, extra %r" % (q["missing"], q["extra"])
        else:
            oid, o = q["id"], q["obs"]
            if o[0] == "other":
                msg = "get_object answered with an unexpected result class: %r" % (o[1],)
            elif oid in committed:
                if o[0] != "found":
                    msg = "committed object is not found (%s)" % o[0]
                elif o[2] != oid:
                    msg = "get_object(%r) returned object %r" % (oid, o[2])
            elif o[0] != "notfound":
                msg = "an id that is not committed (never / purged / staged only) is reported as %s%s" % (
                    o[0], " id=%r" % (o[2],) if o[0] == "found" else "")
        q["msg"] = msg
    return any(q["msg"] for q in cp["queries"])


def judge_checkpoint(ctx, case, cp, bits, stats, known_ids):
    """bits = None: the checkpoint was not evaluated in Coq (only possible when the direct oracle holds everywhere)"""
    layout = case["cfg"]["layout"]
    nolayout = layout == "none"
    committed, staged = cp["committed"], cp["staged"]
    base = {"layout": layout, "fresh_handle": case["cfg"]["fresh_handle"], "ext_staging": case["cfg"]["ext_staging"],
            "case": case["k"], "committed": committed, "staged": staged, "purged": cp["purged"]}
    if bits is not None:
        uniq = bits[0]
        if not uniq:
            common.corr_break(ctx, "abstracted tree has duplicate names (driver bug)", dict(base))
    pos = 1
    esc_ids = [i for i in list(committed) + list(staged) if needs_escape(i)]

    def report(q, slugs, model_ok):
        msg = q["msg"]
        stats["queries"] += 1
        key = (layout, case["cfg"]["fresh_handle"], q["kind"], q.get("glob"), q.get("id"), tuple(committed), tuple(staged))
        ctx.count(key, nontrivial=True, sample={"layout": layout, "query": {k: v for k, v in q.items() if k in ("kind", "glob", "id", "raw")},
                                                 "committed": committed, "direct_oracle": msg or "holds", "model_agrees": model_ok})
        if not msg and model_ok:
            return
        detail = dict(base, query={k: v for k, v in q.items() if k not in ("toks", "tree_before")}, replay_case=case)
        if msg:
            slug = next((x for x in slugs if x in known_ids), None)
            if slug:
                ctx.known_hit(slug)
                stats["known:" + slug] = stats.get("known:" + slug, 0) + 1
                if not model_ok:
                    common.corr_break(ctx, "Corr.CheckListing: the model does not reproduce a known finding", detail)
            else:
                ctx.violation("impl-violation", dict(detail, input={"case": case["k"], "ops": case["ops"]},
                                                     observed=q.get("items", q.get("obs")), expected=msg))
        else:
            common.corr_break(ctx, "Corr.CheckListing case (model Listing.v vs fs.rs)", detail)

    for q in cp["queries"]:
        if q["kind"] == "validate_repo":
            stats["validate_repo"] += 1
            report(q, [], True)
        elif q["kind"] == "purge":
            stats["purge"] += 1
            if bits is None:
                report(q, [], True)
                continue
            model_ok = bits[pos]
            pos += 1
            if not q["coq"]:
                model_ok = True          # cache entry of the live handle unknown for this id
                stats["purge_uncompared"] += 1
            report(q, [], model_ok)
        elif q["kind"] in ("list_objects", "list_staged"):
            is_staged = q["kind"] == "list_staged"
            toks = q["toks"]
            stats["list_staged" if is_staged else ("list_glob" if toks is not None else "list_all")] += 1
            if toks is not None and esc_ids:
                stats["list_glob_over_escape_ids"] += 1
                if any(glob_match_chars(toks, i) for i in esc_ids):
                    stats["list_glob_matching_escape_id"] += 1
            if bits is None:
                report(q, [], True)
                continue
            model_ok = bits[pos]
            pos += 1
            truth = staged if is_staged else committed
            slugs = []
            if q["msg"]:
                if toks is not None:
                    want_b = [i for i in truth if glob_match_bytes(toks, i)]
                    if multiset(q["got"]) == multiset(want_b) and any(t[0] == "any" for t in toks) and \
                            any(ord(ch) > 127 for i in truth for ch in i):
                        slugs.append("glob-qmark-one-byte")
            report(q, slugs, model_ok)
        else:
            oid = q["id"]
            stats["get_committed" if oid in committed else "get_absent"] += 1
            if needs_escape(oid):
                stats["get_escape_id_nolayout" if nolayout else "get_escape_id_layout"] += 1
            elif nolayout and esc_ids:
                stats["get_other_id_next_to_escape_ids"] += 1
            if bits is None:
                report(q, [], True)
                continue
            model_ok = bits[pos]
            pos += 1
            if not q["coq"]:
                model_ok = True          # cache of the live handle unknown for this id: direct oracle only
                stats["get_live_uncompared"] += 1
            report(q, [], model_ok)


# --------------------------------------------------------------------------- hand-written inventories

CRAFT = [
    ("c1", '{"id":"c1",'),
    ("c2", '{ "id" : "c2" ,'),
    ("c3", '{"id"\t:\t"c3",'),
    ("c4", '{\n"id"\n:\n"c4",'),
    ("c5", '{\r\n  "id": "c5",\r\n'),
    ("c6", '{"id":"c6\\u0041",'),
    ("c7", '{"id":"c7\\/x",'),
    ("c8", '{"id"\u00a0:"c8",'),
    ("c9", '{"id":"c9 \u00e9 \u00fc",'),
    ("c10", '{"id":"\\u00e9\\u20ac",'),
    ("c11", '{"id":"",'),
    ("c12", '{"id":"a\\"id\\":\\"zz",'),
    ("c13", '\n \n{   "id"\u2003:  "c13",'),
    ("c14", '{"id":\u3000"c14",'),
    ("c15", '{"id":"c15\\tx\\\\y",'),
    # since 5a727de the captured JSON string is decoded (fs.rs:1068) ...
    ("c18", '{"id":"c18\\ud83d\\ude00",'),       # a surrogate pair
    ("c20", '{"id":"c20\\\\",'),                 # the id ends with a backslash
    ("c21", '{"id":"c21\\"",'),                  # the id ends with a quote
    ("c22", '{ "id" :\t"c22\\u0022x\\u005c",'),   # quote and backslash as \u escapes
    # ... and a string that does not decode is compared as the raw text between the quotes (fs.rs:1069);
    # the full parse of such an inventory fails: an error item where the matcher accepts the raw text
    ("c16", '{"id":"c16\tx",'),                  # a raw TAB inside the string
    ("c17", '{"id":"c17\\qx",'),                 # an unknown escape
    ("c19", '{"id":"c19\\ud800",'),              # a lone surrogate
    ("c23", '{"id":"c23\\u00",'),                # a short \u escape: the quote ends the capture
]


def crafted_repo(ctx):
    """a repository without layout whose inventories are a real rocfl inventory with the id member
    re-spelled by hand; returns (tree term, queries)"""
    cfg = {"layout": "none", "repo_spec": "1.1", "obj_spec": "1.1", "alg": "sha256", "cdir": "content", "pad": 0,
           "ext_staging": True, "fresh_handle": True}
    r = hist.Runner(ctx, cfg, "c19-craft")
    qs = []
    try:
        for op in ({"op": "new", "id": "SEED"}, {"op": "cp_ext", "id": "SEED", "files": [["a.txt", b"A"]], "dst": "a.txt"},
                   {"op": "commit", "id": "SEED", "pretty": False, "object_root": "seed"}):
            if "ok" not in r.step(op)[1]:
                raise common.BuildError("cannot build the seed object of the crafted repository")
        seed = os.path.join(r.root, "seed")
        text = open(os.path.join(seed, "inventory.json"), encoding="utf-8").read()
        head = '{"id":"SEED",'
        if not text.startswith(head):
            raise common.BuildError("rocfl's compact inventory no longer starts with the id member: %r" % text[:40])
        for name, spelled in CRAFT:
            d = os.path.join(r.root, "crafted", name)
            os.makedirs(d)
            open(os.path.join(d, "0=ocfl_object_1.1"), "w").write("ocfl_object_1.1\n")
            open(os.path.join(d, "inventory.json"), "w", encoding="utf-8").write(spelled + text[len(head):])
        tree = abstract_tree(r.root)

        def lst(g):
            r.reopen()
            x = r.s.call("list_objects", h="A", glob=g)
            items = [(split_path(os.path.relpath(i["ok"]["object_root"], r.root)), i["ok"]["id"]) for i in x["ok"] if "ok" in i]
            return {"kind": "list_objects", "glob": g, "items": items, "errors": len([i for i in x["ok"] if "ok" not in i])}

        for g in [None, "*", "c*", "c?", "c1", "c6A", "c6\\\\u0041", "c7*", "c8", "c9*", "a*", "a\\\\", "SEED", "?", "*\u00e9*", "c1?",
                  "c16*", "c1??", "c17*", "c17\\\\qx", "c18?", "c18????", "c18*", "c19*", "c2?", "c20\\\\", "c20?", 'c21"', "c21?", 'c22"x\\\\',
                  "c22?x?", "c22*", "c23*", "c23", 'a"*', "a?id*"]:
            qs.append(lst(g))
        for oid in ["SEED", "c1", "c2", "c3", "c4", "c5", "c6A", "c6\\u0041", "c7/x", "c7\\/x", "c8", "c9 \u00e9 \u00fc",
                    "\u00e9\u20ac", "a\\", 'a"id":"zz', "c13", "c14", "c15\tx\\y", "c15\\tx\\\\y", "nope",
                    "c16\tx", "c16\\tx", "c17\\qx", "c17qx", "c18\U0001F600", "c18\\ud83d\\ude00", "c19\\ud800", "c19", "c20\\", "c20\\\\",
                    'c21"', "c21\\", 'c21\\"', 'c22"x\\', "c22\\u0022x\\u005c", "c23\\u00", "c23"]:
            r.reopen()
            x = r.s.call("get_object", h="A", id=oid)
            if "ok" in x:
                obs = ("found", split_path(os.path.relpath(x["ok"]["object_root"], r.root)), x["ok"]["id"])
            else:
                obs = {"NotFound": ("notfound",), "CorruptObject": ("corrupt",)}.get(x.get("err", {}).get("kind"), ("generr",))
            qs.append({"kind": "get", "id": oid, "obs": obs, "cache": {}})
    finally:
        r.close()
    bits = []
    for q in qs:
        if q["kind"] == "list_objects":
            g = "None" if q["glob"] is None else "(Some %s)" % cq(q["glob"])
            bits.append("check_list t %s [%s] %d" % (g, "; ".join(cq_pid(p, i) for p, i in q["items"]), q["errors"]))
        else:
            bits.append("check_get None [] t %s %s" % (cq(q["id"]), obs_term(q["obs"])))
    return "let t := %s in [%s]" % (tree, "; ".join(bits)), qs


# --------------------------------------------------------------------------- entry points

IMPORTS = ["Base.Bytes", "Model.Listing", "Model.KnownC19", "Corr.CheckListing"]


def parse_bits(s):
    return [x == "true" for x in re.findall(r"true|false", s)]


def execute(ctx, cases, vh, with_crafted=True):
    layout_paths(vh, cases)
    stats = {"queries": 0, "list_all": 0, "list_glob": 0, "list_staged": 0, "get_committed": 0, "get_absent": 0,
             "get_live_uncompared": 0, "get_escape_id_nolayout": 0, "get_escape_id_layout": 0, "get_other_id_next_to_escape_ids": 0,
             "list_glob_over_escape_ids": 0, "list_glob_matching_escape_id": 0, "purge": 0, "purge_uncompared": 0, "validate_repo": 0, "checkpoints": 0, "create_failed": 0,
             "cases": len(cases), "scripted_cases": len([c for c in cases if c.get("scripted")])}
    import time
    t0 = time.time()
    with concurrent.futures.ThreadPoolExecutor(max_workers=max(4, common.NPROC)) as ex:
        runs = list(ex.map(lambda c: CaseRun(ctx, c).run(), cases))
    common.log("C19: %d cases executed in %.1fs" % (len(cases), time.time() - t0))
    terms, owners, skipped = [], [], []
    for run in runs:
        for n, cp in enumerate(run.checkpoints):
            deviates = direct_oracle(run.case, cp)
            # every deviating checkpoint, every final one, and a third of the others are evaluated in Coq
            if deviates or cp["final"] or (run.case["k"] + n) % 3 == 0 or not ctx.quick():
                terms.append(checkpoint_term(run.case, cp))
                owners.append((run, cp))
            else:
                skipped.append((run, cp))
    craft_qs = None
    if with_crafted:
        t, craft_qs = crafted_repo(ctx)
        terms.append(t)
    t0 = time.time()
    res = common.coq_eval("c19", IMPORTS, terms, batch=max(8, len(terms) // (2 * common.NPROC) + 1), hoist_lets=True)
    common.log("C19: %d Coq terms (%.1f MB) evaluated in %.1fs" % (len(terms), sum(len(t) for t in terms) / 1e6, time.time() - t0))
    known_ids = {k["id"] for k in ctx.known}
    lay_dist, cls_dist, op_dist = {}, {}, {}
    for run in runs:
        lay_dist[run.cfg["layout"]] = lay_dist.get(run.cfg["layout"], 0) + 1
        for ev in run.events:
            op_dist[ev["op"]["op"]] = op_dist.get(ev["op"]["op"], 0) + 1
            cls = id_class(ev["op"].get("raw", ev["op"]["id"]))
            cls_dist[cls] = cls_dist.get(cls, 0) + 1
            if ev["op"]["op"] in ("create",) and ev["res"] and ev["res"][-1] != "ok":
                stats["create_failed"] += 1
            if "panic" in ev:
                ctx.violation("impl-violation", {"input": {"case": run.case["k"], "ops": run.case["ops"]}, "replay_case": run.case,
                                                 "observed": ev["panic"], "expected": "no panic"})
    for (run, cp), r in zip(owners, res):
        bits = parse_bits(r)
        n_expected = 1 + sum(0 if q["kind"] == "validate_repo" else 1 for q in cp["queries"])
        if len(bits) != n_expected:
            raise common.BuildError("unexpected Coq output for a C19 checkpoint: %s" % r[:300])
        stats["checkpoints"] += 1
        judge_checkpoint(ctx, run.case, cp, bits, stats, known_ids)
    for run, cp in skipped:
        stats["checkpoints_direct_only"] = stats.get("checkpoints_direct_only", 0) + 1
        judge_checkpoint(ctx, run.case, cp, None, stats, known_ids)
    if craft_qs is not None:
        bits = parse_bits(res[-1])
        if len(bits) != len(craft_qs):
            raise common.BuildError("unexpected Coq output for the crafted repository: %s" % res[-1][:300])
        for q, okb in zip(craft_qs, bits):
            ctx.count(("craft", q["kind"], q.get("glob"), q.get("id")), nontrivial=True)
            if not okb:
                common.corr_break(ctx, "Corr.CheckListing crafted inventory (regex pre-filter / id parse vs fs.rs:39-40, 1056-1085)",
                                  {"query": q, "crafted": CRAFT})
        stats["crafted_queries"] = len(craft_qs)
    ctx.coverage["traces_validated_against_impl"] = stats["checkpoints"]
    ctx.coverage["distribution"] = {"stats": stats, "layouts": lay_dist, "id_classes_of_ops": cls_dist, "ops": op_dist}
    return stats


RULE = ("id-set cases: 3-8 ids drawn from a hostile pool (glob metacharacters, quotes/backslash/control characters, '/', "
        "white space at the ends (ids are kept as given), case twins, reserved names such as extensions, long, unicode) adapted to the layout; "
        "every layout key of hist.LAYOUTS and none; create / stage-only / update / purge / re-create (roots reused, roots "
        "below a directory named extensions and roots named extensions when there is no layout); one handle or a fresh handle per call; "
        "scripted cases without layout (A committed and looked up, purged, a new id B committed at the same root, "
        "purged, A committed elsewhere; one handle or fresh handles); scripted flat-layout cases (0002/0006) whose ids map onto the "
        "storage root's extensions directory and files or, with `/` in the id, onto a directory other objects are stored beneath "
        "or a directory inside an object; scripted escape cases (with and without layout: an id with a quote / backslash / control character "
        "next to the id that is its escaped text cut at the first quote, both committed or the cut text only probed; globs that spell the id "
        "literally, with ? for the escaped character, with a star after it); every purge is compared with the model's purge_object (result, objects left); at the end validate_repo must visit exactly "
        "the committed objects; after every "
        "commit and purge: list_objects(None), 4 generated globs, list_staged, get_object of committed, staged-only, purged and "
        "never-committed ids; distinct = distinct (layout, handle mode, query, reference state)")


def run(ctx):
    proof = common.proof_stage(ctx)
    vh = common.build_harness()
    ok, log = common.coq_make(["theories/Corr/CheckListing.vo"])
    if not ok:
        raise common.BuildError("Corr/CheckListing.v does not build:\n" + log[-3000:])
    cases = gen_cases(ctx)
    execute(ctx, cases, vh)
    ctx.assumptions.append("the glob matcher (globset) and the layout mapping (StorageLayout::map_object_id) are inputs of the model: "
                           "theorems quantify over them, the correspondence uses the real mapping and a Gallina matcher for the generated glob subset")
    ctx.assumptions.append("inventory parsing is modelled for inventories whose first member is the id (what rocfl writes); the rest of the inventory is not interpreted")
    ctx.assumptions.append("the id pre-filter (regex + serde_json decoding of the captured string + raw-text fallback, fs.rs:39-40, 1056-1090) is modelled on "
                           "valid UTF-8 text; the theorems cover inventories written by rocfl's serialiser (any id bytes), hand-written spellings "
                           "(whitespace, \\u escapes, surrogate pairs, strings that do not decode) are correspondence-checked on the crafted repository")
    ctx.assumptions.append("one handle without layout: get_object and purge_object are compared with the model only where the handle's cache "
                           "entry for that id is known to the driver (empty after open, removed by purge, written by a get_object that found "
                           "the id; unknown after new/cp/commit of that id until the next successful get_object); the direct oracle applies always")
    return common.finish_with_proof(ctx, proof, rule=RULE)


def replay(ctx, body):
    """re-run the single case stored in a replay file"""
    case = body.get("replay_case")
    if not case:
        return run(ctx)
    proof = common.proof_stage(ctx)
    vh = common.build_harness()
    ok, log = common.coq_make(["theories/Corr/CheckListing.vo"])
    if not ok:
        raise common.BuildError("Corr/CheckListing.v does not build:\n" + log[-3000:])
    case = json.loads(json.dumps(case))
    case["globs"] = [[tuple(t) for t in g] for g in case["globs"]]
    case.pop("lmap", None)
    execute(ctx, [case], vh, with_crafted=False)
    return common.finish_with_proof(ctx, proof, rule="replay of one C19 case")
