"""C20 - the command line does what the library does and its exit status is truthful.

Stage 1 (proof): Props/C20.v (decision logic of main / validate / ls, option mapping).
Stage 2 (correspondence): every generated history is replayed through the RELEASE binary
  (argv rendered from the abstract library call, mirroring Model/Cli.v argv_to_call) and
  through the library harness, in two scratch repositories.  Coq evaluates, per invocation,
  argv_to_call(options) = the library calls made, and cli_exit(library outcome) = exit status.
Stage 3 (direct search, model-free): repository trees equal, cat stdout byte-identical,
  one listing entry per library result, exit status 0 iff the library succeeded,
  validate verdicts under generated -p/-n/-l/-e/-w options vs the library's results.
"""
import copy
import hashlib
import json
import os
import random
import re
import shutil
import subprocess
import time

from vplib import common, hist
from vplib.common import coq_str, coq_bool

KNOWN_ROOT = "validate-root-suppression"
SUBCOMMANDS = ["init", "new", "cp", "mv", "rm", "reset", "commit", "upgrade", "purge", "ls", "cat",
               "log", "show", "diff", "status", "validate", "info"]

LAYOUT_COQ = {
    None: "LyNone",
    "0002-flat-direct-storage-layout": "LyFlatDirect",
    "0004-hashed-n-tuple-storage-layout": "LyHashedNTuple",
    "0003-hash-and-id-n-tuple-storage-layout": "LyHashedNTupleObjectId",
    "0006-flat-omit-prefix-storage-layout": "LyFlatOmitPrefix",
    "0007-n-tuple-omit-prefix-storage-layout": "LyNTupleOmitPrefix",
}
SPEC_COQ = {"1.0": "Ocfl1_0", "1.1": "Ocfl1_1"}
ALG_COQ = {"sha256": "Sha256", "sha512": "Sha512"}
LEVEL_COQ = {"info": "LvInfo", "warn": "LvWarn", "error": "LvError"}
SORT_COQ = {"default": "FDefault", "name": "FName", "version": "FVersion", "updated": "FUpdated",
            "physical": "FPhysical", "digest": "FDigest", "none": "FNone"}

# option spellings (short, long) per sub-command; `log --header` has no usable short form (-h is help)
FLAGS = {
    "init": {"v": ("-v", "--spec-version"), "c": ("-c", "--config-file"), "l": ("-l", "--layout")},
    "new": {"v": ("-v", "--spec-version"), "d": ("-d", "--digest-algorithm"), "c": ("-c", "--content-directory"),
            "z": ("-z", "--zero-padding")},
    "cp": {"r": ("-r", "--recursive"), "i": ("-i", "--internal"), "v": ("-v", "--version")},
    "mv": {"i": ("-i", "--internal")},
    "rm": {"r": ("-r", "--recursive")},
    "reset": {"r": ("-r", "--recursive")},
    "commit": {"p": ("-p", "--pretty-print"), "n": ("-n", "--user-name"), "a": ("-a", "--user-address"),
               "m": ("-m", "--message"), "c": ("-c", "--created"), "r": ("-r", "--object-root")},
    "upgrade": {"v": ("-v", "--spec-version"), "p": ("-p", "--pretty-print"), "n": ("-n", "--user-name"),
                "a": ("-a", "--user-address"), "m": ("-m", "--message"), "c": ("-c", "--created")},
    "purge": {"f": ("-f", "--force")},
    "ls": {"D": ("-D", "--logical-dirs"), "l": ("-l", "--long"), "p": ("-p", "--physical"), "d": ("-d", "--digest"),
           "H": ("-H", "--header"), "t": ("-t", "--tsv"), "S": ("-S", "--staged"), "v": ("-v", "--version"),
           "s": ("-s", "--sort"), "r": ("-r", "--reverse"), "o": ("-o", "--objects")},
    "cat": {"S": ("-S", "--staged"), "v": ("-v", "--version")},
    "log": {"c": ("-c", "--compact"), "h": ("--header", "--header"), "t": ("-t", "--tsv"), "r": ("-r", "--reverse"),
            "n": ("-n", "--num")},
    "show": {"S": ("-S", "--staged"), "m": ("-m", "--minimal")},
    "diff": {}, "status": {},
    "validate": {"p": ("-p", "--paths"), "n": ("-n", "--no-fixity-check"), "l": ("-l", "--level"),
                 "w": ("-w", "--suppress-warning"), "e": ("-e", "--suppress-error")},
    "info": {"S": ("-S", "--staged")},
}


# --------------------------------------------------------------------------- Coq term builders

def cb(s):
    return coq_str(s)


def copt(x, f=None):
    if x is None:
        return "None"
    return "(Some %s)" % (f(x) if f else cb(x))


def clist(xs, f=None):
    return "[" + "; ".join((f(x) if f else cb(x)) for x in xs) + "]"


def cnum(n):
    return "%d" % n


def code_num(c):
    return int(c[1:])


def coq_globals(g):
    return "(mkG %s %s %s %s %s)" % (copt(g.get("root")), copt(g.get("staging")), copt(g.get("bucket")),
                                     copt(g.get("region")), copt(g.get("endpoint")))


def coq_subcmd(o):
    """Coq term of type subcmd for an options dict (what is typed on the command line)"""
    s = o["sub"]
    if s == "init":
        return "(SInit %s %s %s)" % (copt(o["v"], SPEC_COQ.get), copt(o["c"]), copt(o["l"], lambda x: LAYOUT_COQ[x if x != "none" else None]))
    if s == "new":
        return "(SNew %s %s %s %s %s)" % (copt(o["v"], SPEC_COQ.get), copt(o["d"], ALG_COQ.get), copt(o["c"]),
                                          copt(o["z"], cnum), cb(o["id"]))
    if s == "cp":
        return "(SCp %s %s %s %s %s %s)" % (coq_bool(o["r"]), coq_bool(o["i"]), copt(o["v"]), cb(o["id"]),
                                            clist(o["src"]), cb(o["dst"]))
    if s == "mv":
        return "(SMv %s %s %s %s)" % (coq_bool(o["i"]), cb(o["id"]), clist(o["src"]), cb(o["dst"]))
    if s in ("rm", "reset"):
        return "(%s %s %s %s)" % ("SRm" if s == "rm" else "SReset", coq_bool(o["r"]), cb(o["id"]), clist(o["paths"]))
    if s == "commit":
        return "(SCommit %s %s %s %s %s %s %s)" % (coq_bool(o["p"]), copt(o["n"]), copt(o["a"]), copt(o["m"]),
                                                   copt(o["c"]), copt(o["r"]), cb(o["id"]))
    if s == "upgrade":
        return "(SUpgrade %s %s %s %s %s %s %s)" % (SPEC_COQ[o["v"]], coq_bool(o["p"]), copt(o["n"]), copt(o["a"]),
                                                    copt(o["m"]), copt(o["c"]), copt(o["id"]))
    if s == "purge":
        return "(SPurge %s %s %s)" % (coq_bool(o["f"]), coq_bool(o.get("answer") == "y"), cb(o["id"]))
    if s == "ls":
        lo = "(mkLs %s %s %s %s %s %s %s %s %s %s %s)" % (
            coq_bool(o["D"]), coq_bool(o["l"]), coq_bool(o["p"]), coq_bool(o["d"]), coq_bool(o["H"]), coq_bool(o["t"]),
            coq_bool(o["S"]), copt(o["v"]), copt(o["s"], SORT_COQ.get), coq_bool(o["r"]), coq_bool(o["o"]))
        return "(SLs %s %s %s)" % (lo, copt(o["id"]), copt(o["path"]))
    if s == "cat":
        return "(SCat %s %s %s %s)" % (coq_bool(o["S"]), copt(o["v"]), cb(o["id"]), cb(o["path"]))
    if s == "log":
        return "(SLog %s %s %s %s %s %s %s)" % (coq_bool(o["c"]), coq_bool(o["h"]), coq_bool(o["t"]), coq_bool(o["r"]),
                                                copt(o["n"], cnum), cb(o["id"]), copt(o["path"]))
    if s == "show":
        return "(SShow %s %s %s %s)" % (coq_bool(o["S"]), coq_bool(o["m"]), cb(o["id"]), copt(o["v"]))
    if s == "diff":
        return "(SDiff %s %s %s)" % (cb(o["id"]), cb(o["left"]), cb(o["right"]))
    if s == "status":
        return "(SStatus %s)" % copt(o["id"])
    if s == "validate":
        return "(SValidate %s %s %s %s %s %s)" % (
            coq_bool(o["p"]), coq_bool(o["n"]), copt(o["l"], LEVEL_COQ.get),
            clist(o["w"], lambda c: cnum(code_num(c))), clist(o["e"], lambda c: cnum(code_num(c))), clist(o["ids"]))
    if s == "info":
        return "(SInfo %s %s)" % (coq_bool(o["S"]), copt(o["id"]))
    raise ValueError(s)


def coq_vref(v):
    return "VHead" if v is None else "(VNumber %s)" % cb(v)


def coq_calls(o, root, staging):
    """Coq term (list lib_call): the library calls the DRIVER makes through the harness for the
    abstract call the options were rendered from.  Written from the harness side
    (harness/src/hist.rs), independently of Model/Cli.v."""
    s = o["sub"]
    if s == "init":
        spec = o["call"]["spec"]
        lay = o["call"]["layout"]
        return "[InitFsRepo %s %s %s %s %s]" % (cb(root), copt(staging), SPEC_COQ[spec],
                                                LAYOUT_COQ[lay["ext"] if lay else None], copt(o["c"]))
    c = o["call"]
    k = c["cmd"]
    if k == "new":
        return "[CreateObject %s %s %s %s %d]" % (cb(c["id"]), copt(c.get("spec"), SPEC_COQ.get), ALG_COQ[c["alg"]],
                                                  cb(c["cdir"]), c["pad"])
    if k == "cp_ext":
        return "[CopyFilesExternal %s %s %s %s]" % (cb(c["id"]), clist(c["src"]), cb(c["dst"]), coq_bool(c["recursive"]))
    if k == "cp_int":
        return "[CopyFilesInternal %s %s %s %s %s]" % (cb(c["id"]), coq_vref(o["v"]), clist(c["src"]), cb(c["dst"]),
                                                       coq_bool(c["recursive"]))
    if k == "mv_ext":
        return "[MoveFilesExternal %s %s %s]" % (cb(c["id"]), clist(c["src"]), cb(c["dst"]))
    if k == "mv_int":
        return "[MoveFilesInternal %s %s %s]" % (cb(c["id"]), clist(c["src"]), cb(c["dst"]))
    if k == "rm":
        return "[RemoveFiles %s %s %s]" % (cb(c["id"]), clist(c["paths"]), coq_bool(c["recursive"]))
    if k == "reset":
        return "[ResetFiles %s %s %s]" % (cb(c["id"]), clist(c["paths"]), coq_bool(c["recursive"]))
    if k == "reset_all":
        return "[ResetAll %s]" % cb(c["id"])
    if k == "commit":
        return "[CommitMetaWithUser %s %s; Commit %s %s %s %s %s %s %s]" % (
            copt(c.get("name")), copt(c.get("address")), cb(c["id"]), copt(c.get("name")), copt(c.get("address")),
            copt(c.get("message")), copt(c.get("created")), copt(c.get("object_root")), coq_bool(c.get("pretty", False)))
    if k == "upgrade_object":
        return "[CommitMetaWithUser %s %s; UpgradeObject %s %s %s %s %s %s %s]" % (
            copt(c.get("name")), copt(c.get("address")), cb(c["id"]), SPEC_COQ[c["spec"]], copt(c.get("name")),
            copt(c.get("address")), copt(c.get("message")), copt(c.get("created")), coq_bool(c.get("pretty", False)))
    if k == "upgrade_repo":
        return "[UpgradeRepo %s]" % SPEC_COQ[c["spec"]]
    if k == "purge":
        return "[PurgeObject %s]" % cb(c["id"])
    if k == "nocall":
        return "[]"
    if k in ("list_objects", "list_staged"):
        return "[%s %s]" % ("ListObjects" if k == "list_objects" else "ListStagedObjects", copt(c.get("glob")))
    if k == "get_object":
        return "[GetObject %s %s]" % (cb(c["id"]), coq_vref(o["v"]))
    if k == "get_staged_object":
        return "[GetStagedObject %s]" % cb(c["id"])
    if k == "cat":
        return "[LogicalPathTryFrom %s; GetObjectFile %s %s %s]" % (cb(c["path"]), cb(c["id"]), cb(c["path"]), coq_vref(o["v"]))
    if k == "cat_staged":
        return "[LogicalPathTryFrom %s; GetStagedObjectFile %s %s]" % (cb(c["path"]), cb(c["id"]), cb(c["path"]))
    if k == "versions":
        return "[ListObjectVersions %s]" % cb(c["id"])
    if k == "file_versions":
        return "[LogicalPathTryFrom %s; ListFileVersions %s %s]" % (cb(c["path"]), cb(c["id"]), cb(c["path"]))
    if k == "show":
        return "[GetObjectDetails %s %s; DiffVersions %s None RFromDetails]" % (cb(c["id"]), coq_vref(o["v"]), cb(c["id"]))
    if k == "show_staged":
        pre = "" if c.get("minimal") else "GetStagedObjectDetails %s; " % cb(c["id"])
        return "[%sDiffStaged %s]" % (pre, cb(c["id"]))
    if k == "diff":
        return "[DiffVersions %s (Some %s) (RGiven %s)]" % (cb(c["id"]), cb(o["left"]), cb(o["right"]))
    if k == "validate_objects":
        ctor = "ValidateObjectAt" if c["paths"] else "ValidateObject"
        return clist(c["ids"], lambda x: "%s %s %s" % (ctor, cb(x), coq_bool(c["fixity"])))
    if k == "validate_repo":
        return "[ValidateRepo %s]" % coq_bool(c["fixity"])
    if k == "describe_repo":
        return "[DescribeRepo]"
    if k == "describe_object":
        return "[DescribeObject %s]" % cb(c["id"])
    if k == "describe_staged_object":
        return "[DescribeStagedObject %s]" % cb(c["id"])
    raise ValueError(k)


def coq_lib_result(r):
    if "ok" in r:
        return "LOk"
    if r.get("err", {}).get("kind") == "CopyMoveError":
        return "(LErr (ECopyMove %d))" % max(1, r["err"].get("msg", "").count("\n") + 1)
    return "(LErr EOther)"


def coq_vresult(v):
    return "(mkVR %s %s)" % (clist(v["errors"], lambda e: cnum(code_num(e[0]))),
                             clist(v["warnings"], lambda w: cnum(code_num(w[0]))))


def coq_vobj(r):
    return "(VRes %s)" % coq_vresult(r["ok"]) if "ok" in r else "VErr"


def coq_vflags(o):
    return "(mkVF %s %s %s %s %s)" % (coq_bool(o["p"]), coq_bool(o["n"]), LEVEL_COQ[o["l"] or "info"],
                                      clist(o["w"], lambda c: cnum(code_num(c))), clist(o["e"], lambda c: cnum(code_num(c))))


# --------------------------------------------------------------------------- options <-> argv

def opts_of_call(c, rng):
    """abstract library call (harness command dict) -> options typed on the command line.
    This is the inverse of Model/Cli.v calls_of; a default value is omitted at random."""
    k = c["cmd"]
    coin = lambda: rng.random() < 0.5
    if k == "new":
        return {"sub": "new", "v": c.get("spec"),
                "d": None if c["alg"] == "sha512" and coin() else c["alg"],
                "c": None if c["cdir"] == "content" and coin() else c["cdir"],
                "z": None if c["pad"] == 0 and coin() else c["pad"], "id": c["id"], "call": c}
    if k == "cp_ext":
        return {"sub": "cp", "r": c["recursive"], "i": False, "v": None, "id": c["id"], "src": c["src"], "dst": c["dst"], "call": c}
    if k == "cp_int":
        v = c.get("version")
        vt = None if v is None else (rng.choice(["%d", "v%d"]) % v)
        return {"sub": "cp", "r": c["recursive"], "i": True, "v": vt, "id": c["id"], "src": c["src"], "dst": c["dst"], "call": c}
    if k in ("mv_ext", "mv_int"):
        return {"sub": "mv", "i": k == "mv_int", "id": c["id"], "src": c["src"], "dst": c["dst"], "call": c}
    if k in ("rm", "reset"):
        return {"sub": k, "r": c["recursive"], "id": c["id"], "paths": c["paths"], "call": c}
    if k == "reset_all":
        return {"sub": "reset", "r": c.get("recursive_flag", False), "id": c["id"], "paths": [], "call": c}
    if k == "commit":
        return {"sub": "commit", "p": c.get("pretty", False), "n": c.get("name"), "a": c.get("address"),
                "m": c.get("message"), "c": c.get("created"), "r": c.get("object_root"), "id": c["id"], "call": c}
    if k == "upgrade_object":
        return {"sub": "upgrade", "v": c["spec"], "p": c.get("pretty", False), "n": c.get("name"), "a": c.get("address"),
                "m": c.get("message"), "c": c.get("created"), "id": c["id"], "call": c}
    if k == "upgrade_repo":
        return {"sub": "upgrade", "v": c["spec"], "p": False, "n": None, "a": None, "m": None, "c": None, "id": None, "call": c}
    if k == "purge":
        ans = c.get("answer")
        return {"sub": "purge", "f": ans is None, "answer": ans, "id": c["id"], "call": c}
    if k == "nocall" and c.get("of") == "purge":
        return {"sub": "purge", "f": False, "answer": "n", "id": c["id"], "call": c}
    raise ValueError(k)


def ls_opts(**kw):
    o = {"sub": "ls", "D": False, "l": False, "p": False, "d": False, "H": False, "t": False, "S": False, "v": None,
         "s": None, "r": False, "o": False, "id": None, "path": None}
    o.update(kw)
    return o


def argv_of_opts(g, o, rng, extra_globals=()):
    """the argv handed to the release binary"""
    a = []
    for key, names in (("root", ("-r", "--root")), ("staging", ("-s", "--staging-root")), ("bucket", ("-b", "--bucket")),
                       ("region", ("-R", "--region")), ("endpoint", ("-e", "--endpoint"))):
        if g.get(key) is not None:
            a += [rng.choice(names), g[key]]
    a += list(extra_globals)
    sub = o["sub"]
    a.append(sub)
    F = FLAGS[sub]
    groups = []

    def fl(key):
        return rng.choice(F[key])

    def boolean(key):
        if o.get(key):
            groups.append([fl(key)])

    def valued(key, fmt=str):
        if o.get(key) is not None:
            groups.append([fl(key), fmt(o[key])])

    pos = []
    if sub == "init":
        valued("v"); valued("c"); valued("l")
    elif sub == "new":
        valued("v"); valued("d"); valued("c"); valued("z"); pos = [o["id"]]
    elif sub == "cp":
        boolean("r"); boolean("i"); valued("v"); pos = [o["id"]] + list(o["src"]) + ["--", o["dst"]]
    elif sub == "mv":
        boolean("i"); pos = [o["id"]] + list(o["src"]) + ["--", o["dst"]]
    elif sub in ("rm", "reset"):
        boolean("r"); pos = [o["id"]] + list(o["paths"])
    elif sub == "commit":
        boolean("p")
        for k in "namcr":
            valued(k)
        pos = [o["id"]]
    elif sub == "upgrade":
        valued("v"); boolean("p")
        for k in "namc":
            valued(k)
        pos = [o["id"]] if o["id"] is not None else []
    elif sub == "purge":
        boolean("f"); pos = [o["id"]]
    elif sub == "ls":
        for k in "DlpdHtSro":
            boolean(k)
        valued("v"); valued("s")
        pos = [x for x in (o["id"], o["path"]) if x is not None]
    elif sub == "cat":
        boolean("S"); valued("v"); pos = [o["id"], o["path"]]
    elif sub == "log":
        for k in "chtr":
            boolean(k)
        valued("n"); pos = [o["id"]] + ([o["path"]] if o["path"] is not None else [])
    elif sub == "show":
        boolean("S"); boolean("m"); pos = [o["id"]] + ([o["v"]] if o["v"] is not None else [])
    elif sub == "diff":
        pos = [o["id"], o["left"], o["right"]]
    elif sub == "status":
        pos = [o["id"]] if o["id"] is not None else []
    elif sub == "validate":
        boolean("p"); boolean("n"); valued("l")
        for c in o["w"]:
            groups.append([fl("w"), c])
        for c in o["e"]:
            groups.append([fl("e"), c])
        pos = list(o["ids"])
    elif sub == "info":
        boolean("S"); pos = [o["id"]] if o["id"] is not None else []
    else:
        raise ValueError(sub)
    rng.shuffle(groups)
    for grp in groups:
        a += grp
    return a + pos


# --------------------------------------------------------------------------- running the binary

class Cli:
    def __init__(self, ctx):
        self.home = os.path.join(ctx.tmp, "home")
        os.makedirs(os.path.join(self.home, "cfg"), exist_ok=True)
        keep = ("PATH", "TZ", "LANG", "LC_ALL", "TMPDIR")
        self.env = {k: v for k, v in os.environ.items() if k in keep}
        # no user configuration: config::config_path() = $XDG_CONFIG_HOME/rocfl/config.toml (directories crate)
        self.env.update(HOME=self.home, XDG_CONFIG_HOME=os.path.join(self.home, "cfg"),
                        XDG_DATA_HOME=os.path.join(self.home, "data"))
        self.n = 0
        self.subs = {}

    def run(self, argv, cwd=None, stdin=b""):
        self.n += 1
        p = subprocess.run([common.ROCFL_BIN] + argv, env=self.env, cwd=cwd or self.home, input=stdin,
                           stdout=subprocess.PIPE, stderr=subprocess.PIPE, timeout=300)
        return p.returncode, p.stdout, p.stderr


def cli_panicked(rc, err):
    return rc == 101 or rc < 0 or b"panicked at" in err


# --------------------------------------------------------------------------- contents, histories

def content_bytes(tag):
    """file contents by tag (JSON-able in replay files)"""
    if isinstance(tag, (bytes, bytearray)):
        return bytes(tag)
    if isinstance(tag, int):
        return hist.CONTENTS[tag]
    if tag == "bin256":
        return bytes(range(256)) * 2 + bytes(reversed(range(256)))
    if tag == "empty":
        return b""
    if tag == "crlf":
        return b"line1\r\nline2\n\r\x00\xff\xfe\x1b[31mred\x1b[0m no newline at end"
    if tag == "large":
        out, h = [], b"seed"
        while sum(len(x) for x in out) < 2 * 1024 * 1024 + 17:
            h = hashlib.sha512(h).digest()
            out.append(h * 64)
        return b"".join(out)[:2 * 1024 * 1024 + 17]
    if tag.startswith("rand:"):
        _, seed, n = tag.split(":")
        return random.Random(int(seed)).randbytes(int(n))
    raise ValueError(tag)


SPECIAL_FILES = [["bin256.bin", "bin256"], ["empty.bin", "empty"], ["large.bin", "large"], ["crlf.txt", "crlf"]]


def gen_ops(rng, cfg, length):
    """hist.gen_history plus option-rich steps of this check"""
    ops = hist.gen_history(rng, cfg, length)
    ids = [hist.obj_id(cfg, k) for k in range(2)]
    for op in ops:
        if op["op"] == "new" and rng.random() < 0.3:
            op["spec"] = None
        if op["op"] == "new" and rng.random() < 0.3:
            op.update(alg="sha512", cdir="content", pad=0)
        if op["op"] == "commit" and rng.random() < 0.5:
            v = rng.randrange(5)
            if v == 0:
                op["created"] = None
            elif v == 1:
                op.update(name=None, address=None, message=None)
            elif v == 2:
                op["name"] = None               # address without name: CommitMeta::with_user refuses
            elif v == 3:
                op["pretty"] = True
            else:
                op.update(pretty=False, message="méssage with  spaces")
        if op["op"] == "reset_all" and rng.random() < 0.5:
            op["recursive_flag"] = True
        if op["op"] == "purge" and rng.random() < 0.5:
            op["answer"] = rng.choice(["y", "n", "y"])
    extra = []
    oid = rng.choice(ids)
    extra.append([{"op": "cp_ext", "id": oid, "files": SPECIAL_FILES + [["r.bin", "rand:%d:%d" % (rng.randrange(10 ** 6), rng.randrange(1, 5000))]],
                   "dst": "special/", "recursive": False, "special": True},
                  {"op": "commit", "id": oid}])
    extra.append([{"op": "cp_ext", "id": rng.choice(ids), "files": [],
                   "dir": ["tree", {"t1.txt": 2, "in/t2.txt": 3, "in/deep/t3.txt": "rand:%d:300" % rng.randrange(10 ** 6)}],
                   "dst": rng.choice(["rd", "rd/", "/"]), "recursive": rng.random() < 0.6}])
    extra.append([{"op": "cp_ext", "id": rng.choice(ids), "files": [["ok1.txt", 2], ["ok2.txt", 3]], "dst": "part/",
                   "recursive": False, "missing": rng.randrange(3)}])
    if rng.random() < 0.5:
        extra.append([{"op": "mv_ext", "id": rng.choice(ids), "files": [["mv1.txt", 4], ["mv2.txt", "crlf"]], "dst": "moved/",
                       "missing": rng.choice([None, 0, 2])}])
    if cfg["repo_spec"] == "1.0" and rng.random() < 0.7:
        extra.append([{"op": "upgrade_repo", "spec": "1.1"}, {"op": "upgrade_object", "id": rng.choice(ids), "spec": "1.1"}])
    if rng.random() < 0.4:
        extra.append([{"op": "cp_int", "id": rng.choice(ids), "version": rng.choice([1, 2, 3]), "src": ["special/bin256.bin", "a.txt"],
                       "dst": "copied/", "recursive": False}])
    for grp in extra:
        pos = rng.randrange(min(3, len(ops)), len(ops) + 1)
        for j, op in enumerate(grp):
            ops.insert(min(len(ops), pos + j * rng.randrange(1, 4)), op)
    return ops


def concretize(runner, op):
    """abstract op -> harness command (the abstract library call) with sources materialised in the runner's scratch"""
    op2 = copy.deepcopy(op)
    if "files" in op2:
        op2["files"] = [[n, content_bytes(c)] for n, c in op2["files"]]
    if "dir" in op2:
        dn, files = op2["dir"]
        op2["dir"] = [dn, {k: content_bytes(v) for k, v in files.items()}]
    o = op2["op"]
    if o == "purge" and op2.get("answer") == "n":
        return {"cmd": "nocall", "of": "purge", "id": op2["id"], "h": runner.h}
    cmd = runner.concrete(op2)
    if op.get("missing") is not None:
        cmd["src"].insert(op["missing"], os.path.join(runner.sc.src, "does-not-exist-%d" % op["missing"]))
    if o == "purge" and op.get("answer"):
        cmd["answer"] = op["answer"]
    if o == "reset_all" and op.get("recursive_flag"):
        cmd["recursive_flag"] = True
    return cmd


# --------------------------------------------------------------------------- repository trees

NOW_YEAR = time.gmtime().tm_year


def _norm_inventory(raw):
    """(parsed inventory with implicit `created` timestamps masked, tainted?, pretty?)"""
    try:
        inv = json.loads(raw.decode("utf-8"))
    except (ValueError, UnicodeDecodeError):
        return None, False, None
    tainted = False
    vs = inv.get("versions") if isinstance(inv, dict) else None
    if isinstance(vs, dict):
        for v in vs.values():
            c = v.get("created") if isinstance(v, dict) else None
            if isinstance(c, str) and c[:4].isdigit() and int(c[:4]) >= NOW_YEAR - 1:
                v["created"] = "NOW"          # no -c / created given: the wall clock of each side
                tainted = True
    return inv, tainted, b"\n" in raw.strip()


def _snap(root):
    s = hist.snapshot(root, with_bytes=lambda rel: os.path.basename(rel).startswith("inventory.json"))
    return {k: v for k, v in s.items()
            if not hist.under(k, "extensions/rocfl-staging") and not hist.under(k, "extensions/rocfl-locks")
            and not k.endswith(".lock")}


def tree_differences(root_a, root_b):
    """model-free comparison of two directory trees; inventories as parsed JSON minus implicit
    timestamps, sidecars against their own inventory.  Returns a list of messages."""
    a, b = _snap(root_a), _snap(root_b)
    out = []
    for k in sorted(set(a) | set(b)):
        x, y = a.get(k), b.get(k)
        if x is None or y is None:
            out.append("%s: only in %s" % (k, "library repository" if y is None else "CLI repository"))
            continue
        if x[:4] == y[:4]:
            continue
        base = os.path.basename(k)
        if x[0] == "f" and y[0] == "f" and base == "inventory.json":
            ia, ta, pa = _norm_inventory(x[4])
            ib, tb, pb = _norm_inventory(y[4])
            if ia is None or ia != ib:
                out.append("%s: inventories differ" % k)
            elif not (ta and tb):
                out.append("%s: inventory bytes differ although all timestamps were given" % k)
            elif pa != pb:
                out.append("%s: pretty-printing differs" % k)
            continue
        if x[0] == "f" and y[0] == "f" and base.startswith("inventory.json."):
            alg = base.split(".")[-1]
            for side, snap_, e in (("library", a, x), ("CLI", b, y)):
                inv = snap_.get(os.path.join(os.path.dirname(k), "inventory.json"))
                if inv is not None and inv[0] == "f" and alg in ("sha256", "sha512"):
                    want = inv[2] if alg == "sha256" else inv[3]
                    got = e[4].split()[0].decode("ascii", "replace") if e[4].split() else ""
                    if got != want:
                        out.append("%s: %s sidecar does not match its inventory" % (k, side))
            ia = a.get(os.path.join(os.path.dirname(k), "inventory.json"))
            ib = b.get(os.path.join(os.path.dirname(k), "inventory.json"))
            if ia is not None and ib is not None and ia[:4] == ib[:4]:
                out.append("%s: sidecars differ for identical inventories" % k)
            continue
        out.append("%s: %r vs %r" % (k, x[:3], y[:3]))
    return out
