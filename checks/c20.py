"""C20 - the command line does what the library does and its exit status is truthful.

Stage 1 (proof): Props/C20.v (decision logic of main / validate / ls, option mapping).
Stage 2 (correspondence): every generated history is replayed through the RELEASE binary
  (argv rendered from the abstract library call, mirroring Model/Cli.v argv_to_call) and
  through the library harness, in two scratch repositories.  Coq evaluates, per invocation,
  argv_to_call(options) = the library calls made, and cli_exit(library outcome) = exit status.
Stage 3 (direct search, model-free): repository trees equal, cat stdout byte-identical,
  one listing entry per library result, exit status 0 iff the library succeeded,
  validate verdicts under generated -p/-n/-l/-e/-w options vs the library's results; what
  validate writes about the storage root / hierarchy vs the library's results minus the
  suppressed codes (regression inputs of /repo 33c0c45: `validate -e <storage-root code>`).
"""
import copy
import hashlib
import json
import os
import random
import re
import shutil
import subprocess
import time

from vplib import common, hist
from vplib.common import coq_str, coq_bool

SUBCOMMANDS = ["init", "new", "cp", "mv", "rm", "reset", "commit", "upgrade", "purge", "ls", "cat",
               "log", "show", "diff", "status", "validate", "info"]

LAYOUT_COQ = {
    None: "LyNone",
    "0002-flat-direct-storage-layout": "LyFlatDirect",
    "0004-hashed-n-tuple-storage-layout": "LyHashedNTuple",
    "0003-hash-and-id-n-tuple-storage-layout": "LyHashedNTupleObjectId",
    "0006-flat-omit-prefix-storage-layout": "LyFlatOmitPrefix",
    "0007-n-tuple-omit-prefix-storage-layout": "LyNTupleOmitPrefix",
}
SPEC_COQ = {"1.0": "Ocfl1_0", "1.1": "Ocfl1_1"}
ALG_COQ = {"sha256": "Sha256", "sha512": "Sha512"}
LEVEL_COQ = {"info": "LvInfo", "warn": "LvWarn", "error": "LvError"}
SORT_COQ = {"default": "FDefault", "name": "FName", "version": "FVersion", "updated": "FUpdated",
            "physical": "FPhysical", "digest": "FDigest", "none": "FNone"}

# option spellings (short, long) per sub-command; `log --header` has no usable short form (-h is help)
FLAGS = {
    "init": {"v": ("-v", "--spec-version"), "c": ("-c", "--config-file"), "l": ("-l", "--layout")},
    "new": {"v": ("-v", "--spec-version"), "d": ("-d", "--digest-algorithm"), "c": ("-c", "--content-directory"),
            "z": ("-z", "--zero-padding")},
    "cp": {"r": ("-r", "--recursive"), "i": ("-i", "--internal"), "v": ("-v", "--version")},
    "mv": {"i": ("-i", "--internal")},
    "rm": {"r": ("-r", "--recursive")},
    "reset": {"r": ("-r", "--recursive")},
    "commit": {"p": ("-p", "--pretty-print"), "n": ("-n", "--user-name"), "a": ("-a", "--user-address"),
               "m": ("-m", "--message"), "c": ("-c", "--created"), "r": ("-r", "--object-root")},
    "upgrade": {"v": ("-v", "--spec-version"), "p": ("-p", "--pretty-print"), "n": ("-n", "--user-name"),
                "a": ("-a", "--user-address"), "m": ("-m", "--message"), "c": ("-c", "--created")},
    "purge": {"f": ("-f", "--force")},
    "ls": {"D": ("-D", "--logical-dirs"), "l": ("-l", "--long"), "p": ("-p", "--physical"), "d": ("-d", "--digest"),
           "H": ("-H", "--header"), "t": ("-t", "--tsv"), "S": ("-S", "--staged"), "v": ("-v", "--version"),
           "s": ("-s", "--sort"), "r": ("-r", "--reverse"), "o": ("-o", "--objects")},
    "cat": {"S": ("-S", "--staged"), "v": ("-v", "--version")},
    "log": {"c": ("-c", "--compact"), "h": ("--header", "--header"), "t": ("-t", "--tsv"), "r": ("-r", "--reverse"),
            "n": ("-n", "--num")},
    "show": {"S": ("-S", "--staged"), "m": ("-m", "--minimal")},
    "diff": {}, "status": {},
    "validate": {"p": ("-p", "--paths"), "n": ("-n", "--no-fixity-check"), "l": ("-l", "--level"),
                 "w": ("-w", "--suppress-warning"), "e": ("-e", "--suppress-error")},
    "info": {"S": ("-S", "--staged")},
}


# --------------------------------------------------------------------------- Coq term builders

def cb(s):
    return coq_str(s)


def copt(x, f=None):
    if x is None:
        return "None"
    return "(Some %s)" % (f(x) if f else cb(x))


def clist(xs, f=None):
    return "[" + "; ".join((f(x) if f else cb(x)) for x in xs) + "]"


def cnum(n):
    return "%d" % n


def code_num(c):
    return int(c[1:])


def coq_globals(g):
    return "(mkG %s %s %s %s %s)" % (copt(g.get("root")), copt(g.get("staging")), copt(g.get("bucket")),
                                     copt(g.get("region")), copt(g.get("endpoint")))


def coq_subcmd(o):
    """Coq term of type subcmd for an options dict (what is typed on the command line)"""
    s = o["sub"]
    if s == "init":
        return "(SInit %s %s %s)" % (copt(o["v"], SPEC_COQ.get), copt(o["c"]), copt(o["l"], lambda x: LAYOUT_COQ[x if x != "none" else None]))
    if s == "new":
        return "(SNew %s %s %s %s %s)" % (copt(o["v"], SPEC_COQ.get), copt(o["d"], ALG_COQ.get), copt(o["c"]),
                                          copt(o["z"], cnum), cb(o["id"]))
    if s == "cp":
        return "(SCp %s %s %s %s %s %s)" % (coq_bool(o["r"]), coq_bool(o["i"]), copt(o["v"]), cb(o["id"]),
                                            clist(o["src"]), cb(o["dst"]))
    if s == "mv":
        return "(SMv %s %s %s %s)" % (coq_bool(o["i"]), cb(o["id"]), clist(o["src"]), cb(o["dst"]))
    if s in ("rm", "reset"):
        return "(%s %s %s %s)" % ("SRm" if s == "rm" else "SReset", coq_bool(o["r"]), cb(o["id"]), clist(o["paths"]))
    if s == "commit":
        return "(SCommit %s %s %s %s %s %s %s)" % (coq_bool(o["p"]), copt(o["n"]), copt(o["a"]), copt(o["m"]),
                                                   copt(o["c"]), copt(o["r"]), cb(o["id"]))
    if s == "upgrade":
        return "(SUpgrade %s %s %s %s %s %s %s)" % (SPEC_COQ[o["v"]], coq_bool(o["p"]), copt(o["n"]), copt(o["a"]),
                                                    copt(o["m"]), copt(o["c"]), copt(o["id"]))
    if s == "purge":
        return "(SPurge %s %s %s)" % (coq_bool(o["f"]), coq_bool(o.get("answer") == "y"), cb(o["id"]))
    if s == "ls":
        lo = "(mkLs %s %s %s %s %s %s %s %s %s %s %s)" % (
            coq_bool(o["D"]), coq_bool(o["l"]), coq_bool(o["p"]), coq_bool(o["d"]), coq_bool(o["H"]), coq_bool(o["t"]),
            coq_bool(o["S"]), copt(o["v"]), copt(o["s"], SORT_COQ.get), coq_bool(o["r"]), coq_bool(o["o"]))
        return "(SLs %s %s %s)" % (lo, copt(o["id"]), copt(o["path"]))
    if s == "cat":
        return "(SCat %s %s %s %s)" % (coq_bool(o["S"]), copt(o["v"]), cb(o["id"]), cb(o["path"]))
    if s == "log":
        return "(SLog %s %s %s %s %s %s %s)" % (coq_bool(o["c"]), coq_bool(o["h"]), coq_bool(o["t"]), coq_bool(o["r"]),
                                                copt(o["n"], cnum), cb(o["id"]), copt(o["path"]))
    if s == "show":
        return "(SShow %s %s %s %s)" % (coq_bool(o["S"]), coq_bool(o["m"]), cb(o["id"]), copt(o["v"]))
    if s == "diff":
        return "(SDiff %s %s %s)" % (cb(o["id"]), cb(o["left"]), cb(o["right"]))
    if s == "status":
        return "(SStatus %s)" % copt(o["id"])
    if s == "validate":
        return "(SValidate %s %s %s %s %s %s)" % (
            coq_bool(o["p"]), coq_bool(o["n"]), copt(o["l"], LEVEL_COQ.get),
            clist(o["w"], lambda c: cnum(code_num(c))), clist(o["e"], lambda c: cnum(code_num(c))), clist(o["ids"]))
    if s == "info":
        return "(SInfo %s %s)" % (coq_bool(o["S"]), copt(o["id"]))
    raise ValueError(s)


def coq_vref(v):
    return "VHead" if v is None else "(VNumber %s)" % cb(v)


def coq_calls(o, root, staging):
    """Coq term (list lib_call): the library calls the DRIVER makes through the harness for the
    abstract call the options were rendered from.  Written from the harness side
    (harness/src/hist.rs), independently of Model/Cli.v."""
    s = o["sub"]
    if s == "init":
        spec = o["call"]["spec"]
        lay = o["call"]["layout"]
        return "[InitFsRepo %s %s %s %s %s]" % (cb(root), copt(staging), SPEC_COQ[spec],
                                                LAYOUT_COQ[lay["ext"] if lay else None], copt(o["c"]))
    c = o["call"]
    k = c["cmd"]
    if k == "new":
        return "[CreateObject %s %s %s %s %d]" % (cb(c["id"]), copt(c.get("spec"), SPEC_COQ.get), ALG_COQ[c["alg"]],
                                                  cb(c["cdir"]), c["pad"])
    if k == "cp_ext":
        return "[CopyFilesExternal %s %s %s %s]" % (cb(c["id"]), clist(c["src"]), cb(c["dst"]), coq_bool(c["recursive"]))
    if k == "cp_int":
        return "[CopyFilesInternal %s %s %s %s %s]" % (cb(c["id"]), coq_vref(o["v"]), clist(c["src"]), cb(c["dst"]),
                                                       coq_bool(c["recursive"]))
    if k == "mv_ext":
        return "[MoveFilesExternal %s %s %s]" % (cb(c["id"]), clist(c["src"]), cb(c["dst"]))
    if k == "mv_int":
        return "[MoveFilesInternal %s %s %s]" % (cb(c["id"]), clist(c["src"]), cb(c["dst"]))
    if k == "rm":
        return "[RemoveFiles %s %s %s]" % (cb(c["id"]), clist(c["paths"]), coq_bool(c["recursive"]))
    if k == "reset":
        return "[ResetFiles %s %s %s]" % (cb(c["id"]), clist(c["paths"]), coq_bool(c["recursive"]))
    if k == "reset_all":
        return "[ResetAll %s]" % cb(c["id"])
    if k == "commit":
        return "[CommitMetaWithUser %s %s; Commit %s %s %s %s %s %s %s]" % (
            copt(c.get("name")), copt(c.get("address")), cb(c["id"]), copt(c.get("name")), copt(c.get("address")),
            copt(c.get("message")), copt(c.get("created")), copt(c.get("object_root")), coq_bool(c.get("pretty", False)))
    if k == "upgrade_object":
        return "[CommitMetaWithUser %s %s; UpgradeObject %s %s %s %s %s %s %s]" % (
            copt(c.get("name")), copt(c.get("address")), cb(c["id"]), SPEC_COQ[c["spec"]], copt(c.get("name")),
            copt(c.get("address")), copt(c.get("message")), copt(c.get("created")), coq_bool(c.get("pretty", False)))
    if k == "upgrade_repo":
        return "[UpgradeRepo %s]" % SPEC_COQ[c["spec"]]
    if k == "purge":
        return "[PurgeObject %s]" % cb(c["id"])
    if k == "nocall":
        return "[]"
    if k in ("list_objects", "list_staged"):
        return "[%s %s]" % ("ListObjects" if k == "list_objects" else "ListStagedObjects", copt(c.get("glob")))
    if k == "get_object":
        return "[GetObject %s %s]" % (cb(c["id"]), coq_vref(o["v"]))
    if k == "get_staged_object":
        return "[GetStagedObject %s]" % cb(c["id"])
    if k == "cat":
        return "[LogicalPathTryFrom %s; GetObjectFile %s %s %s]" % (cb(c["path"]), cb(c["id"]), cb(c["path"]), coq_vref(o["v"]))
    if k == "cat_staged":
        return "[LogicalPathTryFrom %s; GetStagedObjectFile %s %s]" % (cb(c["path"]), cb(c["id"]), cb(c["path"]))
    if k == "versions":
        return "[ListObjectVersions %s]" % cb(c["id"])
    if k == "file_versions":
        return "[LogicalPathTryFrom %s; ListFileVersions %s %s]" % (cb(c["path"]), cb(c["id"]), cb(c["path"]))
    if k == "show":
        return "[GetObjectDetails %s %s; DiffVersions %s None RFromDetails]" % (cb(c["id"]), coq_vref(o["v"]), cb(c["id"]))
    if k == "show_staged":
        pre = "" if c.get("minimal") else "GetStagedObjectDetails %s; " % cb(c["id"])
        return "[%sDiffStaged %s]" % (pre, cb(c["id"]))
    if k == "diff":
        return "[DiffVersions %s (Some %s) (RGiven %s)]" % (cb(c["id"]), cb(o["left"]), cb(o["right"]))
    if k == "validate_objects":
        ctor = "ValidateObjectAt" if c["paths"] else "ValidateObject"
        return clist(c["ids"], lambda x: "%s %s %s" % (ctor, cb(x), coq_bool(c["fixity"])))
    if k == "validate_repo":
        return "[ValidateRepo %s]" % coq_bool(c["fixity"])
    if k == "describe_repo":
        return "[DescribeRepo]"
    if k == "describe_object":
        return "[DescribeObject %s]" % cb(c["id"])
    if k == "describe_staged_object":
        return "[DescribeStagedObject %s]" % cb(c["id"])
    raise ValueError(k)


def coq_lib_result(r):
    if "ok" in r:
        return "LOk"
    if r.get("err", {}).get("kind") == "CopyMoveError":
        return "(LErr (ECopyMove %d))" % max(1, r["err"].get("msg", "").count("\n") + 1)
    return "(LErr EOther)"


def coq_vresult(v):
    return "(mkVR %s %s)" % (clist(v["errors"], lambda e: cnum(code_num(e[0]))),
                             clist(v["warnings"], lambda w: cnum(code_num(w[0]))))


def coq_vobj(r):
    return "(VRes %s)" % coq_vresult(r["ok"]) if "ok" in r else "VErr"


def coq_vflags(o):
    return "(mkVF %s %s %s %s %s)" % (coq_bool(o["p"]), coq_bool(o["n"]), LEVEL_COQ[o["l"] or "info"],
                                      clist(o["w"], lambda c: cnum(code_num(c))), clist(o["e"], lambda c: cnum(code_num(c))))


# --------------------------------------------------------------------------- options <-> argv

def opts_of_call(c, rng, omit_defaults=False):
    """abstract library call (harness command dict) -> options typed on the command line.
    This is the inverse of Model/Cli.v calls_of; a default value is omitted at random
    (always in the fixed tour, so that every default of opts.rs is relied upon in every run)."""
    k = c["cmd"]
    coin = lambda: omit_defaults or rng.random() < 0.5
    if k == "new":
        return {"sub": "new", "v": c.get("spec"),
                "d": None if c["alg"] == "sha512" and coin() else c["alg"],
                "c": None if c["cdir"] == "content" and coin() else c["cdir"],
                "z": None if c["pad"] == 0 and coin() else c["pad"], "id": c["id"], "call": c}
    if k == "cp_ext":
        return {"sub": "cp", "r": c["recursive"], "i": False, "v": None, "id": c["id"], "src": c["src"], "dst": c["dst"], "call": c}
    if k == "cp_int":
        v = c.get("version")
        vt = None if v is None else (rng.choice(["%d", "v%d"]) % v)
        return {"sub": "cp", "r": c["recursive"], "i": True, "v": vt, "id": c["id"], "src": c["src"], "dst": c["dst"], "call": c}
    if k in ("mv_ext", "mv_int"):
        return {"sub": "mv", "i": k == "mv_int", "id": c["id"], "src": c["src"], "dst": c["dst"], "call": c}
    if k in ("rm", "reset"):
        return {"sub": k, "r": c["recursive"], "id": c["id"], "paths": c["paths"], "call": c}
    if k == "reset_all":
        return {"sub": "reset", "r": c.get("recursive_flag", False), "id": c["id"], "paths": [], "call": c}
    if k == "commit":
        return {"sub": "commit", "p": c.get("pretty", False), "n": c.get("name"), "a": c.get("address"),
                "m": c.get("message"), "c": c.get("created"), "r": c.get("object_root"), "id": c["id"], "call": c}
    if k == "upgrade_object":
        return {"sub": "upgrade", "v": c["spec"], "p": c.get("pretty", False), "n": c.get("name"), "a": c.get("address"),
                "m": c.get("message"), "c": c.get("created"), "id": c["id"], "call": c}
    if k == "upgrade_repo":
        return {"sub": "upgrade", "v": c["spec"], "p": False, "n": None, "a": None, "m": None, "c": None, "id": None, "call": c}
    if k == "purge":
        ans = c.get("answer")
        return {"sub": "purge", "f": ans is None, "answer": ans, "id": c["id"], "call": c}
    if k == "nocall" and c.get("of") == "purge":
        return {"sub": "purge", "f": False, "answer": "n", "id": c["id"], "call": c}
    raise ValueError(k)


def ls_opts(**kw):
    o = {"sub": "ls", "D": False, "l": False, "p": False, "d": False, "H": False, "t": False, "S": False, "v": None,
         "s": None, "r": False, "o": False, "id": None, "path": None}
    o.update(kw)
    return o


def argv_of_opts(g, o, rng, extra_globals=()):
    """the argv handed to the release binary"""
    a = []
    for key, names in (("root", ("-r", "--root")), ("staging", ("-s", "--staging-root")), ("bucket", ("-b", "--bucket")),
                       ("region", ("-R", "--region")), ("endpoint", ("-e", "--endpoint"))):
        if g.get(key) is not None:
            a += [rng.choice(names), g[key]]
    a += list(extra_globals)
    sub = o["sub"]
    a.append(sub)
    F = FLAGS[sub]
    groups = []

    def fl(key):
        return rng.choice(F[key])

    def boolean(key):
        if o.get(key):
            groups.append([fl(key)])

    def valued(key, fmt=str):
        if o.get(key) is not None:
            groups.append([fl(key), fmt(o[key])])

    pos = []
    if sub == "init":
        valued("v"); valued("c"); valued("l")
    elif sub == "new":
        valued("v"); valued("d"); valued("c"); valued("z"); pos = [o["id"]]
    elif sub == "cp":
        boolean("r"); boolean("i"); valued("v"); pos = [o["id"]] + list(o["src"]) + ["--", o["dst"]]
    elif sub == "mv":
        boolean("i"); pos = [o["id"]] + list(o["src"]) + ["--", o["dst"]]
    elif sub in ("rm", "reset"):
        boolean("r"); pos = [o["id"]] + list(o["paths"])
    elif sub == "commit":
        boolean("p")
        for k in "namcr":
            valued(k)
        pos = [o["id"]]
    elif sub == "upgrade":
        valued("v"); boolean("p")
        for k in "namc":
            valued(k)
        pos = [o["id"]] if o["id"] is not None else []
    elif sub == "purge":
        boolean("f"); pos = [o["id"]]
    elif sub == "ls":
        for k in "DlpdHtSro":
            boolean(k)
        valued("v"); valued("s")
        pos = [x for x in (o["id"], o["path"]) if x is not None]
    elif sub == "cat":
        boolean("S"); valued("v"); pos = [o["id"], o["path"]]
    elif sub == "log":
        for k in "chtr":
            boolean(k)
        valued("n"); pos = [o["id"]] + ([o["path"]] if o["path"] is not None else [])
    elif sub == "show":
        boolean("S"); boolean("m"); pos = [o["id"]] + ([o["v"]] if o["v"] is not None else [])
    elif sub == "diff":
        pos = [o["id"], o["left"], o["right"]]
    elif sub == "status":
        pos = [o["id"]] if o["id"] is not None else []
    elif sub == "validate":
        boolean("p"); boolean("n"); valued("l")
        for c in o["w"]:
            groups.append([fl("w"), c])
        for c in o["e"]:
            groups.append([fl("e"), c])
        pos = list(o["ids"])
    elif sub == "info":
        boolean("S"); pos = [o["id"]] if o["id"] is not None else []
    else:
        raise ValueError(sub)
    rng.shuffle(groups)
    for grp in groups:
        a += grp
    return a + pos


# --------------------------------------------------------------------------- running the binary

class Cli:
    def __init__(self, ctx):
        self.home = os.path.join(ctx.tmp, "home")
        os.makedirs(os.path.join(self.home, "cfg"), exist_ok=True)
        keep = ("PATH", "TZ", "LANG", "LC_ALL", "TMPDIR")
        self.env = {k: v for k, v in os.environ.items() if k in keep}
        # no user configuration: config::config_path() = $XDG_CONFIG_HOME/rocfl/config.toml (directories crate)
        self.env.update(HOME=self.home, XDG_CONFIG_HOME=os.path.join(self.home, "cfg"),
                        XDG_DATA_HOME=os.path.join(self.home, "data"))
        self.n = 0
        self.subs = {}

    def run(self, argv, cwd=None, stdin=b""):
        self.n += 1
        p = subprocess.run([common.ROCFL_BIN] + argv, env=self.env, cwd=cwd or self.home, input=stdin,
                           stdout=subprocess.PIPE, stderr=subprocess.PIPE, timeout=300)
        return p.returncode, p.stdout, p.stderr


def cli_panicked(rc, err):
    return rc == 101 or rc < 0 or b"panicked at" in err


# --------------------------------------------------------------------------- contents, histories

def content_bytes(tag):
    """file contents by tag (JSON-able in replay files)"""
    if isinstance(tag, (bytes, bytearray)):
        return bytes(tag)
    if isinstance(tag, int):
        return hist.CONTENTS[tag]
    if tag == "bin256":
        return bytes(range(256)) * 2 + bytes(reversed(range(256)))
    if tag == "empty":
        return b""
    if tag == "crlf":
        return b"line1\r\nline2\n\r\x00\xff\xfe\x1b[31mred\x1b[0m no newline at end"
    if tag == "large":
        out, h = [], b"seed"
        while sum(len(x) for x in out) < 2 * 1024 * 1024 + 17:
            h = hashlib.sha512(h).digest()
            out.append(h * 64)
        return b"".join(out)[:2 * 1024 * 1024 + 17]
    if tag.startswith("rand:"):
        _, seed, n = tag.split(":")
        return random.Random(int(seed)).randbytes(int(n))
    raise ValueError(tag)


SPECIAL_FILES = [["bin256.bin", "bin256"], ["empty.bin", "empty"], ["large.bin", "large"], ["crlf.txt", "crlf"]]


def gen_ops(rng, cfg, length):
    """hist.gen_history plus option-rich steps of this check"""
    ops = hist.gen_history(rng, cfg, length)
    ids = [hist.obj_id(cfg, k) for k in range(2)]
    for op in ops:
        if op["op"] == "new" and rng.random() < 0.3:
            op["spec"] = None
        if op["op"] == "new" and rng.random() < 0.3:
            op.update(alg="sha512", cdir="content", pad=0)
        if op["op"] == "commit" and rng.random() < 0.5:
            v = rng.randrange(5)
            if v == 0:
                op["created"] = None
            elif v == 1:
                op.update(name=None, address=None, message=None)
            elif v == 2:
                op["name"] = None               # address without name: CommitMeta::with_user refuses
            elif v == 3:
                op["pretty"] = True
            else:
                op.update(pretty=False, message="méssage with  spaces")
        if op["op"] == "reset_all" and rng.random() < 0.5:
            op["recursive_flag"] = True
        if op["op"] == "purge" and rng.random() < 0.5:
            op["answer"] = rng.choice(["y", "n", "y"])
    extra = []
    oid = rng.choice(ids)
    extra.append([{"op": "cp_ext", "id": oid, "files": SPECIAL_FILES + [["r.bin", "rand:%d:%d" % (rng.randrange(10 ** 6), rng.randrange(1, 5000))]],
                   "dst": "special/", "recursive": False, "special": True},
                  {"op": "commit", "id": oid}])
    extra.append([{"op": "cp_ext", "id": rng.choice(ids), "files": [],
                   "dir": ["tree", {"t1.txt": 2, "in/t2.txt": 3, "in/deep/t3.txt": "rand:%d:300" % rng.randrange(10 ** 6)}],
                   "dst": rng.choice(["rd", "rd/", "/"]), "recursive": rng.random() < 0.6}])
    extra.append([{"op": "cp_ext", "id": rng.choice(ids), "files": [["ok1.txt", 2], ["ok2.txt", 3]], "dst": "part/",
                   "recursive": False, "missing": rng.randrange(3)}])
    if rng.random() < 0.5:
        extra.append([{"op": "mv_ext", "id": rng.choice(ids), "files": [["mv1.txt", 4], ["mv2.txt", "crlf"]], "dst": "moved/",
                       "missing": rng.choice([None, 0, 2])}])
    if cfg["repo_spec"] == "1.0" and rng.random() < 0.7:
        extra.append([{"op": "upgrade_repo", "spec": "1.1"}, {"op": "upgrade_object", "id": rng.choice(ids), "spec": "1.1"}])
    if rng.random() < 0.4:
        extra.append([{"op": "cp_int", "id": rng.choice(ids), "version": rng.choice([1, 2, 3]), "src": ["special/bin256.bin", "a.txt"],
                       "dst": "copied/", "recursive": False}])
    for grp in extra:
        pos = rng.randrange(min(3, len(ops)), len(ops) + 1)
        for j, op in enumerate(grp):
            ops.insert(min(len(ops), pos + j * rng.randrange(1, 4)), op)
    return ops


def concretize(runner, op):
    """abstract op -> harness command (the abstract library call) with sources materialised in the runner's scratch"""
    op2 = copy.deepcopy(op)
    if "files" in op2:
        op2["files"] = [[n, content_bytes(c)] for n, c in op2["files"]]
    if "dir" in op2:
        dn, files = op2["dir"]
        op2["dir"] = [dn, {k: content_bytes(v) for k, v in files.items()}]
    o = op2["op"]
    if o == "purge" and op2.get("answer") == "n":
        return {"cmd": "nocall", "of": "purge", "id": op2["id"], "h": runner.h}
    cmd = runner.concrete(op2)
    if op.get("missing") is not None:
        cmd["src"].insert(op["missing"], os.path.join(runner.sc.src, "does-not-exist-%d" % op["missing"]))
    if o == "purge" and op.get("answer"):
        cmd["answer"] = op["answer"]
    if o == "reset_all" and op.get("recursive_flag"):
        cmd["recursive_flag"] = True
    return cmd


# --------------------------------------------------------------------------- repository trees

NOW_YEAR = time.gmtime().tm_year


def _norm_inventory(raw):
    """(parsed inventory with implicit `created` timestamps masked, tainted?, pretty?)"""
    try:
        inv = json.loads(raw.decode("utf-8"))
    except (ValueError, UnicodeDecodeError):
        return None, False, None
    tainted = False
    vs = inv.get("versions") if isinstance(inv, dict) else None

    def sort_paths(m):
        # several paths of one digest are written in the iteration order of a HashMap
        if isinstance(m, dict):
            for k, v in m.items():
                if isinstance(v, list) and all(isinstance(x, str) for x in v):
                    m[k] = sorted(v)
    if isinstance(inv, dict):
        # which of several identical files keeps its content path at commit (deduplication) follows the
        # iteration order of a per-process HashMap: compare the digests, and the content files as a multiset
        if isinstance(inv.get("manifest"), dict):
            inv["manifest"] = sorted(k.lower() for k in inv["manifest"])
        for fx in (inv.get("fixity") or {}).values() if isinstance(inv.get("fixity"), dict) else []:
            sort_paths(fx)
    if isinstance(vs, dict):
        for v in vs.values():
            if isinstance(v, dict):
                sort_paths(v.get("state"))
            c = v.get("created") if isinstance(v, dict) else None
            if isinstance(c, str) and c[:4].isdigit() and int(c[:4]) >= NOW_YEAR - 1:
                v["created"] = "NOW"          # no -c / created given: the wall clock of each side
                tainted = True
    return inv, tainted, b"\n" in raw.strip()


def _snap(root):
    s = hist.snapshot(root, with_bytes=lambda rel: os.path.basename(rel).startswith("inventory.json"))
    return {k: v for k, v in s.items()
            if not hist.under(k, "extensions/rocfl-staging") and not hist.under(k, "extensions/rocfl-locks")
            and not k.endswith(".lock")}


def tree_differences(root_a, root_b):
    """model-free comparison of two directory trees; inventories as parsed JSON minus implicit
    timestamps, sidecars against their own inventory.  Returns a list of messages."""
    a, b = _snap(root_a), _snap(root_b)
    out = []
    roots = {os.path.dirname(k) for s_ in (a, b) for k in s_ if os.path.basename(k).startswith("0=ocfl_object_")}
    content = ({}, {})          # (object root, version dir) -> sorted digests of the content files, per side

    def content_area(k):
        d = os.path.dirname(k)
        while d:
            if d in roots:
                rel = k[len(d) + 1:]
                m = re.match(r"^(v\d+)/(.+)$", rel)
                if m and not m.group(2).startswith("inventory.json"):
                    return (d, m.group(1))
                return None
            d = os.path.dirname(d)
        return None
    for side, snap_ in enumerate((a, b)):
        for k, e in snap_.items():
            ca = content_area(k)
            if ca is not None and e[0] == "f":
                content[side].setdefault(ca, []).append(e[3])
    for ca in sorted(set(content[0]) | set(content[1])):
        if sorted(content[0].get(ca, [])) != sorted(content[1].get(ca, [])):
            out.append("%s/%s: content files differ (library %d files, CLI %d files, compared by digest)" % (
                ca[0], ca[1], len(content[0].get(ca, [])), len(content[1].get(ca, []))))
    for k in sorted(set(a) | set(b)):
        x, y = a.get(k), b.get(k)
        if content_area(k) is not None and (x or y)[0] in ("f", "d"):
            continue
        if x is None or y is None:
            out.append("%s: only in %s" % (k, "library repository" if y is None else "CLI repository"))
            continue
        if x[:4] == y[:4]:
            continue
        base = os.path.basename(k)
        if x[0] == "f" and y[0] == "f" and base == "inventory.json":
            ia, ta, pa = _norm_inventory(x[4])
            ib, tb, pb = _norm_inventory(y[4])
            if ia is None or ia != ib:
                out.append("%s: inventories differ" % k)
            elif pa != pb:
                out.append("%s: pretty-printing differs" % k)
            continue
        if x[0] == "f" and y[0] == "f" and base.startswith("inventory.json."):
            alg = base.split(".")[-1]
            for side, snap_, e in (("library", a, x), ("CLI", b, y)):
                inv = snap_.get(os.path.join(os.path.dirname(k), "inventory.json"))
                if inv is not None and inv[0] == "f" and alg in ("sha256", "sha512"):
                    want = inv[2] if alg == "sha256" else inv[3]
                    got = e[4].split()[0].decode("ascii", "replace") if e[4].split() else ""
                    if got != want:
                        out.append("%s: %s sidecar does not match its inventory" % (k, side))
            ia = a.get(os.path.join(os.path.dirname(k), "inventory.json"))
            ib = b.get(os.path.join(os.path.dirname(k), "inventory.json"))
            if ia is not None and ib is not None and ia[:4] == ib[:4]:
                out.append("%s: sidecars differ for identical inventories" % k)
            continue
        out.append("%s: %r vs %r" % (k, x[:3], y[:3]))
    return out


# --------------------------------------------------------------------------- replaying one history

class Abandon(Exception):
    pass


def glob_regex(glob):
    """the subset of globset syntax the generator uses: '*' (crosses '/'), '?' and literals.
    globset matches on bytes: '?' is one BYTE (it does not match a two-byte character)."""
    out = []
    for ch in glob:
        if ch == "*":
            out.append(b".*")
        elif ch == "?":
            out.append(b".")
        else:
            out.append(re.escape(ch.encode("utf-8")))
    rx = re.compile(b"(?s)^" + b"".join(out) + b"$")

    class M:
        @staticmethod
        def match(p):
            return rx.match(p.encode("utf-8"))
    return M


class Replay:
    """one history, two repositories: library (harness session) and release binary"""

    def __init__(self, ctx, cli, sess, hi, cfg, ops, hseed, recs, stats):
        self.ctx, self.cli, self.s, self.hi, self.cfg, self.ops, self.hseed = ctx, cli, sess, hi, cfg, ops, hseed
        self.recs, self.stats = recs, stats
        self.rng = random.Random(hseed)
        self.h = "L%d" % hi
        self.lib = hist.Runner(ctx, cfg, "h%d-lib" % hi, session=sess, handle=self.h, init=False)
        self.cl = hist.Runner(ctx, cfg, "h%d-cli" % hi, session=sess, handle="unused", init=False)
        self.g = {"root": self.cl.root, "staging": self.cl.stg}
        self.ids = [hist.obj_id(cfg, k) for k in range(2)]
        self.ingested = {}
        self.step = -1
        self.desc = {"history": hi, "hseed": hseed, "cfg": cfg, "ops": ops}

    # -- bookkeeping
    def stat(self, k, n=1):
        self.stats[k] = self.stats.get(k, 0) + n

    def invoke(self, o, outcome, lib_summary, stdin=b"", g=None, cwd=None, what=None, dispatch=None):
        """run the binary for options o; append the record; return (rec, stdout, stderr)"""
        g = self.g if g is None else g
        extra = self.rng.choice([[], [], [], ["-S"], ["--no-styles"], ["-q"], ["-v"]])
        argv = argv_of_opts(g, o, self.rng, extra)
        rc, out, err = self.cli.run(argv, cwd=cwd, stdin=stdin)
        self.cli.subs[o["sub"]] = self.cli.subs.get(o["sub"], 0) + 1
        root = g.get("root") if g.get("root") is not None else "."
        rec = {"h": self.hi, "step": self.step, "what": what or o["sub"], "argv": argv, "rc": rc,
               "g": coq_globals(g), "s": coq_subcmd(o), "outcome": outcome, "printed": None, "storage": None,
               "dispatch": dispatch or "(Calls %s %s %s %s)" % (coq_bool(o["sub"] != "init"), cb(root),
                                                                 copt(g.get("staging")), coq_calls(o, root, g.get("staging"))),
               "lib": lib_summary, "msgs": [], "desc": self.desc,
               "stderr": err[-400:].decode("utf-8", "replace")}
        self.recs.append(rec)
        if cli_panicked(rc, err):
            rec["msgs"].append("the binary panicked / was killed (exit status %d)" % rc)
        return rec, out, err

    def expect_exit(self, rec, ok):
        """model-free: exit status 0 exactly when every library call succeeded"""
        if ok and rec["rc"] != 0:
            rec["msgs"].append("the library succeeded but the exit status is %d" % rec["rc"])
        if not ok and rec["rc"] == 0:
            rec["msgs"].append("the library reported an error but the exit status is 0")

    def call(self, cmd, **kw):
        d = dict(cmd=cmd, h=self.h, **kw) if isinstance(cmd, str) else dict(cmd, h=self.h)
        r = self.s.call(d)
        if "panic" in r:
            self.stat("library_panics")
            raise Abandon("library panic in %s: %s" % (d.get("cmd"), r["panic"]))
        return r

    # -- init
    def init(self):
        cfg = self.cfg
        lay = hist.LAYOUTS[cfg["layout"]]
        r = self.s.call(dict(cmd="init", h=self.h, root=self.lib.root, staging=self.lib.stg, spec=cfg["repo_spec"], layout=lay))
        if "ok" not in r:
            raise common.BuildError("library init failed: %r" % (r,))
        cfile = None
        if lay and lay.get("config"):
            cfile = os.path.join(self.cl.sc.base, "layout-config.json")
            with open(cfile, "w") as f:
                f.write(lay["config"])
        coin = lambda: self.hi == 0 or self.rng.random() < 0.5
        o = {"sub": "init", "v": None if cfg["repo_spec"] == "1.1" and coin() else cfg["repo_spec"], "c": cfile,
             "l": (None if lay and lay["ext"].startswith("0004") and coin() else (lay["ext"] if lay else "none")),
             "call": {"spec": cfg["repo_spec"], "layout": lay}}
        rec, out, err = self.invoke(o, "(OPlain [LOk])", "ok")
        self.expect_exit(rec, True)
        self.compare_trees(rec)

    def compare_trees(self, rec):
        diffs = tree_differences(self.lib.root, self.cl.root)
        diffs += ["staging/" + d for d in tree_differences(self.lib.staging_root, self.cl.staging_root)]
        if not diffs:
            return
        # a difference between two runs of the LIBRARY on the same history is not a CLI matter
        if self.library_is_nondeterministic():
            self.stat("histories_abandoned_library_nondeterminism")
            raise Abandon("library nondeterminism")
        rec["msgs"].append("repository trees differ after this step: " + "; ".join(diffs[:6]))
        raise Abandon("trees differ")

    def library_is_nondeterministic(self):
        for attempt in range(2):
            s2 = hist.Session()
            r2 = hist.Runner(self.ctx, self.cfg, "h%d-lib-again%d" % (self.hi, attempt), session=s2, handle="X")
            try:
                for op in self.ops[:self.step + 1]:
                    if self.cfg.get("fresh_handle"):
                        r2.reopen()
                    cmd = concretize(r2, op)
                    if cmd["cmd"] != "nocall":
                        s2.call(cmd)
                d = tree_differences(self.lib.root, r2.root) + tree_differences(self.lib.staging_root, r2.staging_root)
            finally:
                s2.close()
                r2.sc.cleanup()
            if d:
                return True
        return False

    # -- the history
    def run(self):
        try:
            self.init()
            checkpoints = 0
            for idx, op in enumerate(self.ops):
                self.step = idx
                if self.cfg.get("fresh_handle"):
                    self.lib.reopen()
                lib_cmd = concretize(self.lib, op)
                cli_cmd = concretize(self.cl, op)
                r = {"ok": None} if lib_cmd["cmd"] == "nocall" else self.call(lib_cmd)
                ok = "ok" in r
                o = opts_of_call(cli_cmd, self.rng, omit_defaults=self.hi == 0)
                ncalls = {"commit": 2, "upgrade_object": 2, "nocall": 0}.get(cli_cmd["cmd"], 1)
                outcome = "(OPlain [%s])" % ("; ".join(["LOk"] * ncalls) if ok else coq_lib_result(r))
                stdin = (cli_cmd.get("answer") or "n").encode() + b"\n" if o["sub"] == "purge" and not o["f"] else b""
                rec, out, err = self.invoke(o, outcome, hist.res_class(r), stdin=stdin, what=op["op"])
                self.stat("step:" + op["op"] + (":ok" if ok else ":" + hist.res_class(r)))
                self.expect_exit(rec, ok)
                if o["sub"] == "purge" and not o["f"] and o["answer"] == "n" and b"Aborted" not in out:
                    rec["msgs"].append("declined purge did not print Aborted")
                if op.get("special") and ok:
                    for n, tag in op["files"]:
                        self.ingested[(op["id"], "special/" + n)] = content_bytes(tag)
                self.compare_trees(rec)
                if op["op"] in ("commit", "upgrade_object") and ok and checkpoints < 2 and self.rng.random() < 0.5:
                    checkpoints += 1
                    self.queries(final=False)
                if op.get("special") and ok:
                    self.q_cat(op["id"], staged=True, only_special=True)
            self.step = len(self.ops)
            self.queries(final=True)
            self.compare_trees(self.recs[-1])          # queries must not have changed anything
            self.validate_scenarios()
        except Abandon as e:
            self.stat("histories_abandoned")
            self.stats.setdefault("abandon_reasons", []).append(str(e)[:120])
        finally:
            self.s.call(dict(cmd="drop", h=self.h))
            self.lib.sc.cleanup()
            self.cl.sc.cleanup()

    # -- read-only commands ------------------------------------------------------------------
    def queries(self, final):
        qs = []
        for oid in self.ids:
            qs += [lambda oid=oid: self.q_ls_contents(oid, "head"), lambda oid=oid: self.q_ls_contents(oid, "staged"),
                   lambda oid=oid: self.q_ls_contents(oid, "version"), lambda oid=oid: self.q_ls_dirs(oid),
                   lambda oid=oid: self.q_cat(oid, staged=False), lambda oid=oid: self.q_cat(oid, staged=True),
                   lambda oid=oid: self.q_log(oid, False), lambda oid=oid: self.q_log(oid, True),
                   lambda oid=oid: self.q_show(oid, staged=False), lambda oid=oid: self.q_show(oid, staged=True),
                   lambda oid=oid: self.q_diff(oid), lambda oid=oid: self.q_status_id(oid),
                   lambda oid=oid: self.q_info(oid)]
        qs += [lambda: self.q_ls_objects(False), lambda: self.q_ls_objects(True), lambda: self.q_status(),
               lambda: self.q_info(None), lambda: self.q_ls_objects(False, glob=True)]
        if final:
            self.rng.shuffle(qs)
            chosen = qs[:22] if self.ctx.quick() else qs
        else:
            chosen = self.rng.sample(qs, 4)
        for q in chosen:
            q()

    @staticmethod
    def lines(out):
        t = out.decode("utf-8", "replace")
        ls = t.split("\n")
        if ls and ls[-1] == "":
            ls.pop()
        return ls

    def vtext(self, n):
        return self.rng.choice(["%d", "v%d"]) % n

    def head_num(self, oid):
        r = self.call("get_object_details", id=oid, version=None)
        return r["ok"]["details"]["num"] if "ok" in r else 0

    def q_ls_objects(self, staged, glob=False):
        rng = self.rng
        g = None
        if glob:
            g = rng.choice(["*", self.ids[0], self.ids[0][:-1] + "*", "*1", "nomatch*", self.ids[1][:-1] + "?"])
        o = ls_opts(S=staged, l=rng.random() < 0.5, t=rng.random() < 0.5, p=rng.random() < 0.3, H=rng.random() < 0.3,
                    s=rng.choice([None, None, "name", "version", "none", "default", "updated", "physical"]),
                    r=rng.random() < 0.3, o=glob, id=g)
        if o["p"] and not o["t"] and not o["l"]:
            o["t"] = True
        lib = self.call("list_staged" if staged else "list_objects", glob=g)
        o["call"] = {"cmd": "list_staged" if staged else "list_objects", "glob": g}
        self.check_object_listing(o, lib)

    def q_status(self):
        lib = self.call("list_staged", glob=None)
        o = {"sub": "status", "id": None, "call": {"cmd": "list_staged", "glob": None}}
        self.check_object_listing(o, lib, status=True)

    def check_object_listing(self, o, lib, status=False):
        if "ok" in lib:
            outcome = "(OLs (LsObjects LOk %s))" % ("[" + "; ".join(coq_lib_result(x) for x in lib["ok"]) + "]")
            items = [x["ok"] for x in lib["ok"] if "ok" in x]
            ok = len(items) == len(lib["ok"])
        else:
            outcome, items, ok = "(OLs (LsObjects (LErr EOther) []))", [], False
        rec, out, err = self.invoke(o, outcome, {"entries": len(items), "ok": ok}, what="status" if status else "ls objects")
        self.expect_exit(rec, ok)
        if "ok" in lib and not ok:
            self.stat("ls_with_unreadable_object")
        long_, tsv, phys, header = (True, False, False, True) if status else (o["l"], o["t"], o["p"], o["H"])
        ls = [l.replace(self.cl.sc.base, self.lib.sc.base) for l in self.lines(out)]
        if header and ls and "Object ID" in ls[0]:
            ls = ls[1:]
        got = []
        for line in ls:
            ent = {}
            if tsv:
                parts = [x.rstrip(" ") for x in line.split("\t")]
                if long_:
                    ent["version"], parts = parts[0].strip(), parts[2:]
                ent["id"] = parts[0] if parts else None
                if phys and len(parts) > 1:
                    ent["root"] = parts[1]
            elif long_:
                m = re.match(r"\s*(v\d+) (\d{4}-\d\d-\d\d \d\d:\d\d) (.*)$", line)
                if not m:
                    rec["msgs"].append("unparsable listing line %r" % line)
                    continue
                ent["version"] = m.group(1)
                rest = m.group(3).split() if phys else [m.group(3).rstrip(" ")]
                ent["id"] = rest[0]
                if phys and len(rest) > 1:
                    ent["root"] = rest[1]
            else:
                ent["id"] = line
            got.append(ent)
        if sorted(e["id"] for e in got) != sorted(i["id"] for i in items):
            rec["msgs"].append("listing shows %r, the library returned %r" % (sorted(e["id"] for e in got), sorted(i["id"] for i in items)))
            return
        by = {i["id"]: i for i in items}
        for e in got:
            i = by[e["id"]]
            if "version" in e and e["version"] != i["details"]["version"]:
                rec["msgs"].append("listing version %s for %s, library %s" % (e["version"], e["id"], i["details"]["version"]))
            if "root" in e and e["root"] != i["object_root"]:
                rec["msgs"].append("listing physical path %s for %s, library %s" % (e["root"], e["id"], i["object_root"]))
        if (status or o["s"] == "name") and len(got) > 1:
            want = sorted(e["id"] for e in got)
            if not status and o["r"]:
                want.reverse()
            if [e["id"] for e in got] != want:
                rec["msgs"].append("listing not sorted by name: %r" % [e["id"] for e in got])

    def pick_version(self, oid, staged_mode):
        """(mode flags for -S / -v, harness version)"""
        head = self.head_num(oid)
        if staged_mode == "staged":
            return True, None, None
        if staged_mode == "version":
            n = self.rng.choice([1, max(1, head), head + 1, max(1, head - 1)])
            return False, self.vtext(n), n
        return False, None, None

    def q_ls_contents(self, oid, mode):
        rng = self.rng
        staged, vt, vn = self.pick_version(oid, mode)
        lib = self.call("get_staged_object", id=oid) if staged else self.call("get_object", id=oid, version=vn)
        glob = rng.choice([None, None, "*", "dir/*", "*.txt", "special/*", "a.txt", "nomatch", "/dir/*", "/", "*/sub/*", "?.txt", "["])
        o = ls_opts(id=oid, path=glob, S=staged, v=vt, l=rng.random() < 0.5, p=rng.random() < 0.3, d=rng.random() < 0.3,
                    H=rng.random() < 0.3, s=rng.choice([None, None, "name", "version", "none", "digest", "physical", "updated"]),
                    r=rng.random() < 0.3)
        o["t"] = o["p"] or o["d"] or rng.random() < 0.4
        o["call"] = {"cmd": "get_staged_object" if staged else "get_object", "id": oid}
        ok = "ok" in lib
        glob_ok = glob != "["
        outcome = "(OLs (LsContents %s %s))" % (coq_lib_result(lib), coq_bool(glob_ok))
        rec, out, err = self.invoke(o, outcome, hist.res_class(lib), what="ls contents")
        self.expect_exit(rec, ok and glob_ok)
        if not (ok and glob_ok):
            if out:
                rec["msgs"].append("failed listing wrote to stdout")
            return
        state = lib["ok"]["state"]
        gl = (glob or "*").lstrip("/") or "*"
        rx = glob_regex(gl)
        want = {p: d for p, d in state.items() if rx.match(p)}
        ls = self.lines(out)
        if o["H"] and ls and "Logical Path" in ls[0]:
            ls = ls[1:]
        got = {}
        for line in ls:
            ent = {}
            if o["t"]:
                parts = [x.rstrip(" ") for x in line.split("\t")]
                if o["l"]:
                    ent["version"], parts = parts[0].strip(), parts[2:]
                ent["path"], parts = parts[0], parts[1:]
                if o["p"]:
                    ent["storage"], parts = parts[0], parts[1:]
                if o["d"]:
                    ent["digest"] = parts[0]
            elif o["l"]:
                m = re.match(r"\s*(v\d+) (\d{4}-\d\d-\d\d \d\d:\d\d) (.*)$", line)
                if not m:
                    rec["msgs"].append("unparsable listing line %r" % line)
                    continue
                ent["version"], ent["path"] = m.group(1), m.group(3)
            else:
                ent["path"] = line
            if ent["path"] in got:
                rec["msgs"].append("path listed twice: %r" % ent["path"])
            got[ent["path"]] = ent
        if sorted(got) != sorted(want) or len(ls) != len(want):
            rec["msgs"].append("ls printed %d entries %r, the library state has %d matching paths %r" % (
                len(ls), sorted(got)[:8], len(want), sorted(want)[:8]))
            return
        for p, e in got.items():
            d = want[p]
            if "version" in e and int(e["version"][1:]) != d["last_update"]:
                rec["msgs"].append("ls -l version %s for %s, library v%d" % (e["version"], p, d["last_update"]))
            if "storage" in e and e["storage"] != d["storage_path"]:
                # the two repositories may keep different (identical) files after deduplication: the path
                # printed must hold the content the library reports for the logical path
                try:
                    hx = hashlib.new(lib["ok"]["alg"], open(e["storage"], "rb").read()).hexdigest()
                except (OSError, ValueError):
                    hx = None
                if hx != d["digest"].lower():
                    rec["msgs"].append("ls -p path %r for %s does not hold the content the library reports (%r)" % (
                        e["storage"], p, d["storage_path"]))
            if "digest" in e and e["digest"] != "%s:%s" % (lib["ok"]["alg"], d["digest"]):
                rec["msgs"].append("ls -d digest differs for %s" % p)

    def q_ls_dirs(self, oid):
        lib = self.call("get_object", id=oid, version=None)
        o = ls_opts(id=oid, D=True)
        o["call"] = {"cmd": "get_object", "id": oid}
        rec, out, err = self.invoke(o, "(OLs (LsContents %s true))" % coq_lib_result(lib), hist.res_class(lib), what="ls -D")
        self.expect_exit(rec, "ok" in lib)
        if "ok" in lib:
            want = set()
            for p in lib["ok"]["state"]:
                want.add(p if "/" not in p else p.split("/")[0] + "/")
            if sorted(self.lines(out)) != sorted(want):
                rec["msgs"].append("ls -D printed %r, expected the direct children %r" % (sorted(self.lines(out)), sorted(want)))

    def q_cat(self, oid, staged, only_special=False):
        rng = self.rng
        if staged:
            vt = vn = None
            lib_obj = self.call("get_staged_object", id=oid)
        else:
            _, vt, vn = self.pick_version(oid, rng.choice(["head", "version"]))
            lib_obj = self.call("get_object", id=oid, version=vn)
        paths = sorted(lib_obj["ok"]["state"]) if "ok" in lib_obj else []
        special = [p for p in paths if p.startswith("special/")]
        if only_special:
            chosen = special
        else:
            chosen = rng.sample(special, min(2, len(special))) + rng.sample(paths, min(2, len(paths))) + [rng.choice(["nope.txt", "dir", "", "a//b", "../x"])]
        for p in chosen:
            lib = self.call("cat_staged", id=oid, path=p) if staged else self.call("cat", id=oid, path=p, version=vn)
            o = {"sub": "cat", "S": staged, "v": vt, "id": oid, "path": p,
                 "call": {"cmd": "cat_staged" if staged else "cat", "id": oid, "path": p}}
            ok = "ok" in lib
            rec, out, err = self.invoke(o, "(OPlain [%s])" % ("LOk; LOk" if ok else coq_lib_result(lib)), hist.res_class(lib), what="cat")
            self.expect_exit(rec, ok)
            if ok:
                if len(out) != lib["ok"]["len"] or hashlib.sha256(out).hexdigest() != lib["ok"]["sha256"]:
                    rec["msgs"].append("cat wrote %d bytes (sha256 %s), the library file has %d bytes (sha256 %s)" % (
                        len(out), hashlib.sha256(out).hexdigest()[:16], lib["ok"]["len"], lib["ok"]["sha256"][:16]))
                ing = self.ingested.get((oid, p))
                if ing is not None and out != ing:
                    rec["msgs"].append("cat output differs from the %d bytes that were ingested for %s" % (len(ing), p))
                if ing is not None:
                    self.stat("cat_ingested_checked")
                self.stat("cat_ok")
            elif out:
                rec["msgs"].append("failed cat wrote %d bytes to stdout" % len(out))

    def q_log(self, oid, with_path):
        rng = self.rng
        path = None
        if with_path:
            st = self.call("get_object", id=oid, version=None)
            cands = sorted(st["ok"]["state"]) if "ok" in st else []
            path = rng.choice(cands + ["nope.txt"]) if cands else "nope.txt"
        lib = self.call("file_versions", id=oid, path=path) if with_path else self.call("versions", id=oid)
        o = {"sub": "log", "c": rng.random() < 0.5, "h": rng.random() < 0.3, "t": rng.random() < 0.5, "r": rng.random() < 0.4,
             "n": rng.choice([None, None, 0, 1, 2, 100]), "id": oid, "path": path,
             "call": {"cmd": "file_versions" if with_path else "versions", "id": oid, "path": path}}
        ok = "ok" in lib
        ncalls = "LOk; LOk" if with_path else "LOk"
        rec, out, err = self.invoke(o, "(OPlain [%s])" % (ncalls if ok else coq_lib_result(lib)), hist.res_class(lib), what="log")
        self.expect_exit(rec, ok)
        if not ok:
            if out:
                rec["msgs"].append("failed log wrote to stdout")
            return
        want = list(lib["ok"])
        if o["r"]:
            want.reverse()
        if o["n"] is not None:
            want = want[:o["n"]]
        ls = self.lines(out)
        if o["c"]:
            if o["h"] and ls and ls[0].startswith("Version"):
                ls = ls[1:]
            got = []
            for line in ls:
                if o["t"]:
                    f = [x.rstrip(" ") for x in line.split("\t")]
                    got.append((f[0].strip(), f[1], f[2], f[4] if len(f) > 4 else ""))
                else:
                    got.append((line.split()[0],))
            exp = [(v["version"], v["name"] or "NA", v["address"] or "NA", v["message"] or "") if o["t"] else (v["version"],) for v in want]
        else:
            got = [int(m.group(1)) for m in (re.match(r"^Version (\d+)$", l) for l in ls) if m]
            exp = [v["num"] for v in want]
        if got != exp:
            rec["msgs"].append("log printed %r, the library returned %r" % (got[:6], exp[:6]))

    @staticmethod
    def diff_entries(lib_diffs):
        out = []
        for d in lib_diffs:
            if "a" in d:
                out.append(("Added", d["a"]))
            elif "m" in d:
                out.append(("Modified", d["m"]))
            elif "d" in d:
                out.append(("Deleted", d["d"]))
            else:
                out.append(("Renamed", (frozenset(d["r"][0]), frozenset(d["r"][1]))))
        return sorted(out, key=repr)

    def parse_diff_table(self, ls, rec):
        got = []
        seen_header = False
        for line in ls:
            if not seen_header:
                if re.match(r"^Operation\s+Logical Path$", line):
                    seen_header = True
                continue
            op = line.split(" ")[0]
            rest = line[len(op):].strip(" ")
            if op == "Renamed" and " -> " in rest:
                l, r = rest.split(" -> ", 1)
                got.append((op, (frozenset(l.split(", ")), frozenset(r.split(", ")))))
            else:
                got.append((op, rest))
        return sorted(got, key=repr)

    def check_show(self, o, results, details, diffs, what):
        """results: library results in call order (stops at the first error)"""
        ok = all("ok" in r for r in results)
        terms = [coq_lib_result(r) for r in results]
        rec, out, err = self.invoke(o, "(OPlain [%s])" % "; ".join(terms), [hist.res_class(r) for r in results], what=what)
        self.expect_exit(rec, ok)
        if not ok:
            return
        ls = self.lines(out)
        if details is not None:
            if not ls or ls[0] != "Version %d" % details["details"]["num"]:
                rec["msgs"].append("show header %r, library version %d" % (ls[:1], details["details"]["num"]))
        got = self.parse_diff_table(ls, rec)
        exp = self.diff_entries(diffs)
        if got != exp:
            rec["msgs"].append("printed changes %r, the library diff is %r" % (got[:6], exp[:6]))

    def q_show(self, oid, staged):
        rng = self.rng
        minimal = rng.random() < 0.4
        if staged:
            results, det = [], None
            if not minimal:
                r = self.call("get_staged_object_details", id=oid)
                results.append(r)
                det = r.get("ok")
            diffs = []
            if all("ok" in r for r in results):
                r = self.call("diff_staged", id=oid)
                results.append(r)
                diffs = r.get("ok", [])
            o = {"sub": "show", "S": True, "m": minimal, "id": oid, "v": None,
                 "call": {"cmd": "show_staged", "id": oid, "minimal": minimal}}
            self.check_show(o, results, det, diffs, "show -S")
        else:
            _, vt, vn = self.pick_version(oid, rng.choice(["head", "version"]))
            r = self.call("get_object_details", id=oid, version=vn)
            results, diffs = [r], []
            if "ok" in r:
                r2 = self.call("diff", id=oid, left=None, right=r["ok"]["details"]["num"])
                results.append(r2)
                diffs = r2.get("ok", [])
            o = {"sub": "show", "S": False, "m": minimal, "id": oid, "v": vt, "call": {"cmd": "show", "id": oid}}
            self.check_show(o, results, None if minimal else r.get("ok"), diffs, "show")

    def q_status_id(self, oid):
        r = self.call("get_staged_object_details", id=oid)
        results, diffs = [r], []
        if "ok" in r:
            r2 = self.call("diff_staged", id=oid)
            results.append(r2)
            diffs = r2.get("ok", [])
        o = {"sub": "status", "id": oid, "call": {"cmd": "show_staged", "id": oid, "minimal": False}}
        self.check_show(o, results, r.get("ok"), diffs, "status <id>")

    def q_diff(self, oid):
        rng = self.rng
        head = self.head_num(oid)
        l = rng.choice([1, max(1, head - 1), max(1, head)])
        r = rng.choice([max(1, head), head + 1, l, max(1, head - 1)])
        lt, rt = self.vtext(l), self.vtext(r)
        if lt == rt or (l == r and rng.random() < 0.5):
            rt = lt                                  # identical text: the command returns before any call
        o = {"sub": "diff", "id": oid, "left": lt, "right": rt}
        # DiffCmd compares the parsed VersionNums: `v2` and `2` are equal (diff.rs:141)
        if l == r:
            o["call"] = {"cmd": "nocall"} if lt == rt else {"cmd": "diff", "id": oid}
            if lt != rt:
                self.stat("diff_same_version_two_spellings")
                return                               # spelled differently: outside the option model (text comparison)
            rec, out, err = self.invoke(o, "(OPlain [])", "nocall", what="diff same")
            self.expect_exit(rec, True)
            if out:
                rec["msgs"].append("diff of a version with itself printed something")
            return
        lib = self.call("diff", id=oid, left=l, right=r)
        o["call"] = {"cmd": "diff", "id": oid}
        self.check_show(o, [lib], None, lib.get("ok", []), "diff")

    def q_info(self, oid):
        rng = self.rng
        if oid is None:
            lib = self.call("describe_repo")
            o = {"sub": "info", "S": rng.random() < 0.3, "id": None, "call": {"cmd": "describe_repo"}}
        else:
            staged = rng.random() < 0.5
            lib = self.call("describe_staged_object" if staged else "describe_object", id=oid)
            o = {"sub": "info", "S": staged, "id": oid,
                 "call": {"cmd": "describe_staged_object" if staged else "describe_object", "id": oid}}
        ok = "ok" in lib
        rec, out, err = self.invoke(o, "(OPlain [%s])" % coq_lib_result(lib), hist.res_class(lib), what="info")
        self.expect_exit(rec, ok)
        if ok:
            kv = {}
            for line in self.lines(out):
                m = re.match(r"^([A-Za-z ]+):\s+(.*)$", line)
                if m:
                    kv[m.group(1)] = m.group(2)
            if kv.get("Spec Version") != str(lib["ok"]["spec"]):
                rec["msgs"].append("info spec version %r, library %r" % (kv.get("Spec Version"), lib["ok"]["spec"]))
            if oid is not None and kv.get("Digest Algorithm") != (lib["ok"].get("alg") or "unknown"):
                rec["msgs"].append("info digest algorithm %r, library %r" % (kv.get("Digest Algorithm"), lib["ok"].get("alg")))
            if oid is None and kv.get("Storage Layout") != (lib["ok"].get("layout") or "unknown"):
                rec["msgs"].append("info layout %r, library %r" % (kv.get("Storage Layout"), lib["ok"].get("layout")))

    # -- validate and ls on deliberately damaged copies -----------------------------------------
    CORRUPTIONS = ["del_content", "sidecar", "stray_root_file", "stray_hier_file", "empty_dir", "rm_root_decl",
                   "bad_root_decl", "second_root_decl", "bad_inventory", "rm_obj_decl", "unknown_ext", "alter_content",
                   "ext_root_file"]
    # Damage that makes the STORAGE ROOT result non-empty (E069 / E080 / E076 / E112, warning W016), alone and
    # next to an invalid object or a storage hierarchy error: `validate -e/-w` must honour the suppression of
    # these codes (src/cmd/validate.rs:144, repaired by /repo 33c0c45).  Every combination is applied to the
    # fixed tour in every run; the generated histories take one each in turn.
    ROOT_COMBOS = [["rm_root_decl"], ["bad_root_decl"], ["second_root_decl"], ["ext_root_file"], ["unknown_ext"],
                   ["rm_root_decl", "ext_root_file"], ["bad_root_decl", "second_root_decl", "unknown_ext"],
                   ["rm_root_decl", "bad_inventory"], ["bad_root_decl", "del_content"],
                   ["second_root_decl", "stray_hier_file"], ["rm_root_decl", "ext_root_file", "stray_hier_file", "alter_content"],
                   ["unknown_ext", "ext_root_file", "empty_dir"]]

    def corrupt(self, root, kind):
        rng = self.rng
        objs = hist.find_object_roots(root)
        obj = rng.choice(objs) if objs else None

        def content_files(o):
            out = []
            for d, _, fs in os.walk(o):
                rel = os.path.relpath(d, o)
                if re.match(r"^v\d+/", rel + "/") and rel.count("/") >= 1:
                    out += [os.path.join(d, f) for f in fs]
            return sorted(out)
        if kind in ("del_content", "alter_content"):
            fs = content_files(obj) if obj else []
            if not fs:
                return False
            p = rng.choice(fs)
            if kind == "del_content":
                os.remove(p)
            else:
                with open(p, "ab") as f:
                    f.write(b"tampered")
        elif kind == "sidecar":
            sc = [f for f in (os.listdir(obj) if obj else []) if f.startswith("inventory.json.")]
            if not sc:
                return False
            with open(os.path.join(obj, sc[0]), "w") as f:
                f.write("00ff  inventory.json\n")
        elif kind == "stray_root_file":
            open(os.path.join(root, "README-stray.txt"), "w").write("allowed here\n")
        elif kind == "stray_hier_file":
            os.makedirs(os.path.join(root, "straydir", "deeper"), exist_ok=True)
            open(os.path.join(root, "straydir", "deeper", "file.txt"), "w").write("not allowed here\n")
        elif kind == "empty_dir":
            os.makedirs(os.path.join(root, "emptydir"), exist_ok=True)
        elif kind in ("rm_root_decl", "bad_root_decl", "second_root_decl"):
            decl = [f for f in os.listdir(root) if f.startswith("0=ocfl_")]
            if not decl:
                return False
            if kind == "rm_root_decl":
                os.remove(os.path.join(root, decl[0]))
            elif kind == "bad_root_decl":
                open(os.path.join(root, decl[0]), "w").write("ocfl_9.9\n")
            else:
                other = "1.0" if decl[0].endswith("1.1") else "1.1"
                open(os.path.join(root, "0=ocfl_" + other), "w").write("ocfl_%s\n" % other)
        elif kind == "bad_inventory":
            if not obj:
                return False
            open(os.path.join(obj, "inventory.json"), "w").write("{")
        elif kind == "rm_obj_decl":
            decl = [f for f in (os.listdir(obj) if obj else []) if f.startswith("0=ocfl_object_")]
            if not decl:
                return False
            os.remove(os.path.join(obj, decl[0]))
        elif kind == "unknown_ext":
            os.makedirs(os.path.join(root, "extensions", "9999-not-registered"), exist_ok=True)
        elif kind == "ext_root_file":
            os.makedirs(os.path.join(root, "extensions"), exist_ok=True)
            open(os.path.join(root, "extensions", "stray-file.txt"), "w").write("a file is not allowed here\n")
        return True

    def validate_scenarios(self):
        rng = self.rng
        n = 3 if self.ctx.quick() else 6
        saved = (self.h, self.g)
        forced = {}
        if self.hi == 0:
            forced = {1: ["rm_root_decl"], 2: ["bad_inventory"]}
            for combo in self.ROOT_COMBOS[1:]:
                forced[n + len(forced) - 2] = combo
            n += len(self.ROOT_COMBOS) - 1
        else:
            forced = {1: self.ROOT_COMBOS[(self.hi - 1) % len(self.ROOT_COMBOS)]}
        for k in range(n):
            copy_root = os.path.join(self.lib.sc.base, "val%d" % k)
            shutil.copytree(self.lib.root, copy_root, symlinks=True)
            stg = None
            if self.lib.stg:
                stg = copy_root + "-stg"
                shutil.copytree(self.lib.stg, stg, symlinks=True)
            applied = []
            if k in forced:
                applied = [kind for kind in forced[k] if self.corrupt(copy_root, kind)]
            elif k > 0:
                for kind in rng.sample(self.CORRUPTIONS, rng.choice([1, 1, 2])):
                    if self.corrupt(copy_root, kind):
                        applied.append(kind)
            for kind in applied or ["none"]:
                self.stat("corruption:" + kind)
            self.h, self.g = "V%d_%d" % (self.hi, k), {"root": copy_root, "staging": stg}
            self.step = "validate-scenario-%d %s" % (k, "+".join(applied) or "undamaged")
            self.desc = dict(self.desc, scenario={"k": k, "corruptions": applied})
            try:
                r = self.s.call(dict(cmd="open", h=self.h, root=copy_root, staging=stg))
                if "panic" in r:
                    self.stat("library_panics")
                    continue
                if "ok" not in r:
                    o = self.validate_opts([], [], None, False, False, [])
                    o["call"] = {"cmd": "validate_repo", "fixity": True}
                    rec, out, err = self.invoke(o, "ONoRepo", "open failed", what="validate (repository cannot be opened)")
                    self.expect_exit(rec, False)
                    continue
                self.validate_repo_mode(copy_root)
                self.validate_objects_mode(copy_root)
                self.q_ls_objects(False)
                self.q_ls_objects(False, glob=True)
                for oid in self.ids:
                    self.q_ls_contents(oid, "head")
            except Abandon:
                self.stat("validate_scenarios_abandoned")
            finally:
                self.s.call(dict(cmd="drop", h=self.h))
                self.h, self.g = saved
                shutil.rmtree(copy_root, ignore_errors=True)
        self.desc = {k2: v for k2, v in self.desc.items() if k2 != "scenario"}

    def validate_opts(self, e, w, level, paths, nofix, ids):
        return {"sub": "validate", "p": paths, "n": nofix, "l": level, "w": list(w), "e": list(e), "ids": list(ids)}

    def code_sets(self, present, universe, must=()):
        """a few subsets of codes to suppress: none, everything present, the `must` set, random"""
        rng = self.rng
        present = sorted(present)
        out = [[], present, sorted(must)]
        for _ in range(2):
            pool = present + rng.sample(universe, 2)
            out.append(sorted(set(rng.sample(pool, rng.randrange(0, len(pool) + 1)))))
        return out

    @staticmethod
    def py_exit(e_sup, storage, objs):
        """model-free verdict from the library's results: 2 invalid, 1 only operational errors, 0"""
        uns = lambda v: any(e[0] not in e_sup for e in v["errors"])
        if any(uns(v) for v in storage) or any("ok" in x and uns(x["ok"]) for x in objs):
            return 2
        return 1 if any("ok" not in x for x in objs) else 0

    def check_validate_output(self, rec, out, o, objs):
        ls = self.lines(out)
        printed = len([l for l in ls if re.match(r"^Object .* is (valid|invalid|valid with warnings)$", l)])
        rec["printed"] = printed
        oks = [x["ok"] for x in objs if "ok" in x]
        inval = len([v for v in oks if any(e[0] not in o["e"] for e in v["errors"])])
        m1 = [l for l in ls if l.startswith("  Total objects:")]
        m2 = [l for l in ls if l.startswith("  Invalid objects:")]
        if m1 and int(m1[-1].split(":")[1]) != len(oks):
            rec["msgs"].append("summary reports %s objects, the library validated %d" % (m1[-1].split(":")[1].strip(), len(oks)))
        if m2 and int(m2[-1].split(":")[1]) != inval:
            rec["msgs"].append("summary reports %s invalid objects, %d have an unsuppressed error in the library's results" % (
                m2[-1].split(":")[1].strip(), inval))

    ERR_UNIVERSE = ["E%03d" % i for i in (1, 3, 23, 33, 37, 60, 69, 72, 73, 76, 80, 81, 92, 93, 107)]
    WARN_UNIVERSE = ["W%03d" % i for i in (1, 4, 5, 7, 9, 10, 13)]

    @staticmethod
    def parse_storage_output(out_lines):
        """what validate wrote about the storage itself: {"root": None | (errors, warnings), "hierarchy": ..,
        "issues": int | None}; the codes of a block in the order printed"""
        res = {"root": None, "hierarchy": None, "issues": None}
        cur = None
        for l in out_lines:
            m = re.match(r"^Storage (root|hierarchy) is (valid|invalid|valid with warnings)$", l)
            if m:
                cur = m.group(1)
                res[cur] = ([], [])
                continue
            if re.match(r"^Object .* is (valid|invalid|valid with warnings)$", l) or l == "Summary:":
                cur = None
                continue
            m = re.match(r"^  Storage issues:\s+(\d+)$", l)
            if m:
                res["issues"] = int(m.group(1))
                continue
            m = re.match(r"^\s+\d+\. \[([EW])(\d{3})\] ", l)
            if m and cur is not None:
                res[cur][0 if m.group(1) == "E" else 1].append(m.group(1) + m.group(2))
        return res

    def check_storage_output(self, rec, out, o, v):
        """model-free: the storage root / hierarchy blocks and the summary against the library's results
        minus the codes the user suppressed"""
        so = self.parse_storage_output(self.lines(out))
        e_sup, w_sup = set(o["e"]), set(o["w"])
        left = 0
        for loc in ("root", "hierarchy"):
            lib_e = [e[0] for e in v[loc]["errors"]]
            lib_w = [w[0] for w in v[loc]["warnings"]]
            want_e = [c for c in lib_e if c not in e_sup]
            left += len(want_e)
            blk = so[loc]
            shown_e, shown_w = blk if blk is not None else ([], [])
            for c in shown_e + shown_w:
                if c in e_sup or c in w_sup:
                    rec["msgs"].append("validate lists the suppressed code %s in the storage %s block" % (c, loc))
            if sorted(shown_e) != sorted(want_e):
                rec["msgs"].append("storage %s block lists the errors %r; the library reports %r, -e %s leaves %r" % (
                    loc, shown_e, lib_e, " ".join(o["e"]) or "(none)", want_e))
            if o["l"] != "error":
                want_w = [c for c in lib_w if c not in w_sup]
                if sorted(shown_w) != sorted(want_w):
                    rec["msgs"].append("storage %s block lists the warnings %r; the library reports %r, -w %s leaves %r" % (
                        loc, shown_w, lib_w, " ".join(o["w"]) or "(none)", want_w))
        if so["issues"] is None:
            rec["msgs"].append("validate did not write the `Storage issues:` line of the summary")
        elif so["issues"] != left:
            rec["msgs"].append("summary reports %d storage issues; %d storage errors are left after -e %s" % (
                so["issues"], left, " ".join(o["e"]) or "(none)"))

        def blk_term(bk):
            if bk is None:
                return "None"
            return "(Some (%s, %s))" % (clist(bk[0], lambda c: cnum(code_num(c))), clist(bk[1], lambda c: cnum(code_num(c))))
        if so["issues"] is not None:
            rec["storage"] = "(Some (mkSO %s %s %d))" % (blk_term(so["root"]), blk_term(so["hierarchy"]), so["issues"])

    def validate_repo_mode(self, root):
        rng = self.rng
        libs = {}
        combos = 4 if self.ctx.quick() else 8
        first = self.call("validate_repo", fixity=True)
        libs[True] = first
        present_e, present_w, root_e, root_w, hier_e, obj_e = set(), set(), set(), set(), set(), set()
        if "ok" in first:
            v = first["ok"]
            root_e = {e[0] for e in v["root"]["errors"]}
            root_w = {w[0] for w in v["root"]["warnings"]}
            hier_e = {e[0] for e in v["hierarchy"]["errors"]}
            for x in v["objects"]:
                if "ok" in x:
                    obj_e |= {e[0] for e in x["ok"]["errors"]}
            for part in [v["root"], v["hierarchy"]] + [x["ok"] for x in v["objects"] if "ok" in x]:
                present_e |= {e[0] for e in part["errors"]}
                present_w |= {w[0] for w in part["warnings"]}
        esets = self.code_sets(present_e, self.ERR_UNIVERSE, must=root_e)
        wsets = self.code_sets(present_w, self.WARN_UNIVERSE, must=root_w)
        chosen = [(esets[i % len(esets)], rng.choice(wsets)) for i in range(combos)]
        if root_e or root_w:
            # the storage root result is not empty: -e / -w on exactly its codes (alone: the exit status
            # must become 0 when nothing else is invalid), on all but one of them (a suppressed root error
            # next to an unsuppressed one), together with the codes of the hierarchy / of the objects
            re_, rw_ = sorted(root_e), sorted(root_w)
            targeted = [(re_, []), (re_, rw_), ([], rw_)]
            if len(re_) >= 2:
                drop = rng.choice(re_)
                targeted += [([c for c in re_ if c != drop], rw_), ([drop], [])]
            if hier_e:
                targeted += [(sorted(root_e | hier_e), rng.choice(wsets)), (sorted(hier_e - root_e), rw_)]
            if obj_e:
                targeted += [(sorted(root_e | obj_e), rng.choice(wsets))]
            seen = set()
            chosen = [c for c in targeted + chosen
                      if not (json.dumps(c) in seen or seen.add(json.dumps(c)))]
        for i, (e, w) in enumerate(chosen):
            nofix = rng.random() < 0.4
            if (not nofix) not in libs:
                libs[not nofix] = self.call("validate_repo", fixity=not nofix)
            lib = libs[not nofix]
            o = self.validate_opts(e, w, rng.choice([None, "info", "warn", "error"]), rng.random() < 0.2, nofix, [])
            o["call"] = {"cmd": "validate_repo", "fixity": not nofix}
            cls = None
            if "ok" in lib:
                v = lib["ok"]
                outcome = "(OValidateRepo %s (Some (mkRR %s %s %s)))" % (
                    coq_vflags(o), coq_vresult(v["root"]), "[" + "; ".join(coq_vobj(x) for x in v["objects"]) + "]", coq_vresult(v["hierarchy"]))
                want = self.py_exit(set(e), [v["root"], v["hierarchy"]], v["objects"])
                # classes of the inputs that exercise validate.rs:144
                sup_root = root_e_now(v) & set(e)
                if sup_root:
                    uns = lambda r: any(x[0] not in e for x in r["errors"])
                    others = [n for n, c in (("unsuppressed-root-error", uns(v["root"])),
                                             ("invalid-object", any("ok" in x and uns(x["ok"]) for x in v["objects"])),
                                             ("hierarchy-error", uns(v["hierarchy"]))) if c]
                    cls = "root-error-suppressed:" + ("+".join(others) if others else "nothing-else-invalid")
                    self.stat("validate_repo:" + cls)
                if {x[0] for x in v["root"]["warnings"]} & set(w):
                    self.stat("validate_repo:root-warning-suppressed")
            else:
                outcome, want = "(OValidateRepo %s None)" % coq_vflags(o), 1
            rec, out, err = self.invoke(o, outcome, {"expected_exit": want, "suppress_error": e, "suppress_warning": w, "class": cls},
                                        what="validate repository")
            self.stat("validate_repo:exit%d" % rec["rc"])
            if rec["rc"] != want:
                rec["msgs"].append("validate exit status %d; the library's results under -e %s give %d" % (rec["rc"], " ".join(e) or "(none)", want))
            if "ok" in lib:
                self.check_validate_output(rec, out, o, lib["ok"]["objects"])
                self.check_storage_output(rec, out, o, lib["ok"])

    def validate_objects_mode(self, root):
        rng = self.rng
        combos = 3 if self.ctx.quick() else 6
        roots = [os.path.relpath(p, root) for p in hist.find_object_roots(root)]
        for _ in range(combos):
            paths = rng.random() < 0.4 and bool(roots)
            pool = (roots * 3 + ["no/such/path"]) if paths else (self.ids * 3 + ["no-such-object"])
            ids = [rng.choice(pool) for _ in range(rng.choice([1, 1, 2, 3]))]
            nofix = rng.random() < 0.4
            objs = [self.call("validate_object_at" if paths else "validate_object", **({"path": x} if paths else {"id": x}), fixity=not nofix)
                    for x in ids]
            present_e = {e[0] for x in objs if "ok" in x for e in x["ok"]["errors"]}
            present_w = {w[0] for x in objs if "ok" in x for w in x["ok"]["warnings"]}
            e = rng.choice(self.code_sets(present_e, self.ERR_UNIVERSE))
            w = rng.choice(self.code_sets(present_w, self.WARN_UNIVERSE))
            o = self.validate_opts(e, w, rng.choice([None, "info", "warn", "error"]), paths, nofix, ids)
            o["call"] = {"cmd": "validate_objects", "ids": ids, "paths": paths, "fixity": not nofix}
            outcome = "(OValidateObjects %s %s)" % (coq_vflags(o), "[" + "; ".join(coq_vobj(x) for x in objs) + "]")
            want = self.py_exit(set(e), [], objs)
            rec, out, err = self.invoke(o, outcome, {"expected_exit": want, "suppress_error": e}, what="validate objects")
            self.stat("validate_objects:exit%d" % rec["rc"])
            if rec["rc"] != want:
                rec["msgs"].append("validate exit status %d; the library's results under -e %s give %d" % (rec["rc"], " ".join(e) or "(none)", want))
            self.check_validate_output(rec, out, o, objs)


def root_e_now(v):
    return {e[0] for e in v["root"]["errors"]}


# --------------------------------------------------------------------------- the fixed tour (every sub-command once)

TOUR_CFG = {"layout": "0004", "repo_spec": "1.0", "obj_spec": "1.0", "alg": "sha512", "cdir": "content", "pad": 0,
            "ext_staging": False, "fresh_handle": False}


def tour_ops():
    a, b_ = "obj-0", "obj-1"
    return [
        {"op": "new", "id": a, "spec": None},
        {"op": "cp_ext", "id": a, "files": SPECIAL_FILES, "dst": "special/", "recursive": False, "special": True},
        {"op": "cp_ext", "id": a, "files": [["a.txt", 2]], "dst": "a.txt", "recursive": False},
        {"op": "cp_ext", "id": a, "files": [], "dir": ["tree", {"t1.txt": 2, "in/t2.txt": 3}], "dst": "dir", "recursive": True},
        {"op": "cp_ext", "id": a, "files": [], "dir": ["tree", {"t1.txt": 2}], "dst": "norec", "recursive": False},
        {"op": "commit", "id": a, "name": None, "address": None, "message": None, "created": None, "pretty": False},
        {"op": "new", "id": b_, "alg": "sha256", "cdir": "stuff", "pad": 3, "spec": "1.0"},
        {"op": "cp_ext", "id": b_, "files": [["x y.txt", 1], ["b.txt", 5]], "dst": "/", "recursive": False},
        {"op": "mv_ext", "id": b_, "files": [["m.txt", 4]], "dst": "moved/"},
        {"op": "commit", "id": b_, "pretty": True},
        {"op": "cp_int", "id": a, "version": 1, "src": ["special/bin256.bin", "a.txt"], "dst": "copied/", "recursive": False},
        {"op": "cp_int", "id": a, "version": None, "src": ["dir"], "dst": "dircopy", "recursive": True},
        {"op": "mv_int", "id": a, "src": ["a.txt"], "dst": "renamed.txt"},
        {"op": "rm", "id": a, "paths": ["dir/in"], "recursive": True},
        {"op": "rm", "id": a, "paths": ["dir"], "recursive": False},
        {"op": "reset", "id": a, "paths": ["dir/in/t2.txt"], "recursive": False},
        {"op": "commit", "id": a, "name": None},
        {"op": "commit", "id": a},
        {"op": "cp_ext", "id": a, "files": [["ok1.txt", 2], ["ok2.txt", 3]], "dst": "part/", "recursive": False, "missing": 1},
        {"op": "reset_all", "id": a, "recursive_flag": True},
        {"op": "upgrade_repo", "spec": "1.1"},
        {"op": "upgrade_object", "id": a, "spec": "1.1"},
        {"op": "purge", "id": b_, "answer": "n"},
        {"op": "purge", "id": b_, "answer": "y"},
        {"op": "new", "id": b_},
        {"op": "cp_ext", "id": b_, "files": [["again.txt", 0]], "dst": "again.txt", "recursive": False},
        {"op": "purge", "id": "never-existed"},
    ]


def misc_cases(rp):
    """command lines that never reach a library call, and the default root"""
    oid = rp.ids[0]
    rejected = [
        {"sub": "cat", "S": True, "v": "1", "id": oid, "path": "a.txt"},
        {"sub": "cp", "r": False, "i": False, "v": "1", "id": oid, "src": ["a.txt"], "dst": "b.txt"},
        ls_opts(id=oid, S=True, v="v1"),
        {"sub": "show", "S": True, "m": False, "id": oid, "v": "v1"},
        {"sub": "cp", "r": True, "i": True, "v": None, "id": oid, "src": [], "dst": "b.txt"},
        {"sub": "mv", "i": False, "id": oid, "src": [], "dst": "b.txt"},
        {"sub": "rm", "r": False, "id": oid, "paths": []},
    ]
    for o in rejected:
        rec, out, err = rp.invoke(o, "OUsage", "rejected by clap", dispatch="Rejected", what="usage error")
        if rec["rc"] == 0:
            rec["msgs"].append("a command line violating the declared option constraints exited with 0")
        if out:
            rec["msgs"].append("usage error wrote to stdout")
    for g in ({"root": rp.cl.root, "staging": None, "region": "us-east-1"}, {"root": rp.cl.root, "staging": None, "endpoint": "https://localhost:1"}):
        o = {"sub": "info", "S": False, "id": None, "call": {"cmd": "describe_repo"}}
        rec, out, err = rp.invoke(o, "ONoRepo", "configuration refused", g=g, dispatch="NoRepo", what="invalid configuration")
        rp.expect_exit(rec, False)
    rp.compare_trees(rp.recs[-1])
    # default root "." (mod.rs:314-316)
    lib = rp.call("list_objects", glob=None)
    o = ls_opts()
    o["call"] = {"cmd": "list_objects", "glob": None}
    items = [x["ok"] for x in lib.get("ok", []) if "ok" in x]
    rec, out, err = rp.invoke(o, "(OLs (LsObjects LOk [%s]))" % "; ".join(coq_lib_result(x) for x in lib.get("ok", [])),
                              "default root", g={"root": None, "staging": None}, cwd=rp.cl.root, what="ls with the default root")
    rp.expect_exit(rec, "ok" in lib and len(items) == len(lib["ok"]))
    if sorted(rp.lines(out)) != sorted(i["id"] for i in items):
        rec["msgs"].append("ls in the storage root printed %r, the library lists %r" % (rp.lines(out), [i["id"] for i in items]))


# --------------------------------------------------------------------------- driver

def run_histories(ctx, plan):
    """plan: list of (hi, cfg, ops, hseed).  Returns (records, stats, cli)"""
    cli = Cli(ctx)
    sess = hist.Session()
    recs, stats = [], {}
    try:
        for hi, cfg, ops, hseed in plan:
            rp = Replay(ctx, cli, sess, hi, cfg, ops, hseed, recs, stats)
            if hi == 0:
                orig = rp.validate_scenarios

                def with_misc(rp=rp, orig=orig):
                    misc_cases(rp)
                    orig()
                rp.validate_scenarios = with_misc
            rp.run()
            stats["histories"] = stats.get("histories", 0) + 1
    finally:
        sess.close()
    return recs, stats, cli


def evaluate(ctx, recs):
    """Coq evaluation of every invocation + classification"""
    terms = []
    for r in recs:
        rc = r["rc"] if r["rc"] >= 0 else 1000 - r["rc"]
        pr = "None" if r["printed"] is None else "(Some %d)" % r["printed"]
        terms.append("check_step %s %s %s %s %d %s %s" % (r["g"], r["s"], r["dispatch"], r["outcome"], rc, pr, r["storage"] or "None"))
    res = common.coq_eval("c20", ["Base.Bytes", "Model.Cli", "Corr.CheckCli"], terms, batch=60)
    n_viol = 0
    for r, v in zip(recs, res):
        flags = re.findall(r"true|false", v)
        argv_ok, exit_ok, printed_ok, storage_ok = [x == "true" for x in flags]
        ctx.count((r["what"], r["rc"], json.dumps(r["lib"], sort_keys=True, default=str), r["s"][:40]), nontrivial=True,
                  sample={"argv": r["argv"], "exit": r["rc"], "library": r["lib"], "model": v})
        detail = {"input": {"argv": r["argv"], "history": r["desc"], "step": r["step"], "what": r["what"]},
                  "observed": {"exit_status": r["rc"], "stderr_tail": r["stderr"], "library": r["lib"]}}
        if r["msgs"]:
            n_viol += 1
            if n_viol <= 5:
                ctx.violation("impl-violation", dict(detail, expected="; ".join(r["msgs"])))
            continue
        if not argv_ok:
            common.corr_break(ctx, "Corr.CheckCli check_argv (Model/Cli.v argv_to_call vs the calls the driver made)", detail)
        elif not exit_ok:
            common.corr_break(ctx, "Corr.CheckCli check_exit (Model/Cli.v cli_exit vs the exit status of the binary)", dict(detail, model=v))
        elif not printed_ok:
            common.corr_break(ctx, "Corr.CheckCli check_printed (validate should_print / -l level)", dict(detail, model=v))
        elif not storage_ok:
            common.corr_break(ctx, "Corr.CheckCli check_storage (Model/Cli.v validate_repo_root_block / _hier_block / _storage_issues vs stdout)",
                              dict(detail, model=v, parsed=r["storage"]))
    return n_viol


def plan_for(ctx):
    n = 9 if ctx.quick() else 110
    plan = [(0, TOUR_CFG, tour_ops(), ctx.rng.randrange(2 ** 31))]
    cfgs = hist.configurations(ctx.rng, n)
    for i, cfg in enumerate(cfgs, 1):
        hseed = ctx.rng.randrange(2 ** 31)
        hr = random.Random(hseed)
        ops = gen_ops(hr, cfg, 14 if ctx.quick() else hr.choice([14, 20, 30]))
        plan.append((i, cfg, ops, hseed))
    return plan


def finish(ctx, proof, recs, stats, cli):
    missing = [s for s in SUBCOMMANDS if not cli.subs.get(s)]
    ctx.coverage["subcommands_invoked"] = cli.subs
    ctx.coverage["subcommands_never_invoked"] = missing
    ctx.coverage["distribution"] = stats
    # the inputs on which /repo 33c0c45 changed the behaviour (former known finding validate-root-suppression) and
    # their neighbours: now must-pass inputs
    ctx.coverage["validate_root_suppression_inputs"] = {k.split(":", 1)[1]: v for k, v in stats.items()
                                                        if k.startswith("validate_repo:root-")}
    ctx.coverage["traces_validated_against_impl"] = len(recs)
    ctx.coverage["binary_invocations"] = cli.n
    ctx.level = "proof"
    ctx.assumptions += [
        "CLI side = RELEASE binary of /repo (common.build_rocfl_release); debug builds of rocfl panic in `rocfl log` because of a clap debug assertion (-h short flag of --header clashes with help): not a defect of the release binary, noted only",
        "library side = debug build of the harness (overflow checks on); a library panic abandons the history (counted, not a C20 matter)",
        "HOME/XDG_CONFIG_HOME point to an empty scratch directory: no user configuration; S3 options and `rocfl config` (opens $EDITOR) are not exercised",
        "clap's tokenisation, terminal styling (stdout is a pipe: styles off) and the stdout plumbing are exercised by the run, not modelled; listing order is compared only for name sorting",
        "a tree difference that also shows between two library-only runs of the same history (per-process HashMap order) is attributed to the library, not to the command line",
    ]
    return common.finish_with_proof(
        ctx, proof,
        rule="histories = 1 fixed tour (every sub-command) + hist.gen_history over hist.configurations extended with option-rich steps "
             "(special binary/empty/large contents, recursive/non-recursive directory copies, missing sources, commit option subsets, "
             "prompted purge, upgrades); after mutating steps both trees are compared; read-only commands at checkpoints; validate/ls on "
             "damaged copies with generated -p/-n/-l/-e/-w; distinct = distinct (command kind, exit status, library outcome, options)")


def run(ctx):
    proof = common.proof_stage(ctx)
    common.build_harness()
    common.build_rocfl_release()
    ok, log = common.coq_make(["theories/Corr/CheckCli.vo"])
    if not ok:
        raise common.BuildError("Corr/CheckCli.v does not build:\n" + log[-3000:])
    plan = plan_for(ctx)
    recs, stats, cli = run_histories(ctx, plan)
    evaluate(ctx, recs)
    return finish(ctx, proof, recs, stats, cli)


def replay(ctx, body):
    """re-run the history of a replay file"""
    proof = common.proof_stage(ctx)
    common.build_harness()
    common.build_rocfl_release()
    common.coq_make(["theories/Corr/CheckCli.vo"])
    h = (body.get("input") or {}).get("history")
    if not h:
        return run(ctx)
    recs, stats, cli = run_histories(ctx, [(h["history"], h["cfg"], h["ops"], h["hseed"])])
    evaluate(ctx, recs)
    return finish(ctx, proof, recs, stats, cli)
