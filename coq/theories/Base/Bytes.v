(** Byte strings as [list ascii] and the few generic helpers every model uses.
    Definitions only; lemmas live in Proofs/. *)
From Coq Require Export List NArith Ascii String Bool.
Export ListNotations.
Open Scope N_scope.

Definition bytes := list ascii.

Definition b (s : string) : bytes := list_ascii_of_string s.
Definition bs (l : list N) : bytes := map ascii_of_N l.
Definition code (c : ascii) : N := N_of_ascii c.

Definition ascii_eqb := Ascii.eqb.

Fixpoint bytes_eqb (x y : bytes) : bool :=
  match x, y with
  | [], [] => true
  | c :: x', d :: y' => Ascii.eqb c d && bytes_eqb x' y'
  | _, _ => false
  end.

Fixpoint starts_with (p s : bytes) : bool :=
  match p, s with
  | [], _ => true
  | c :: p', d :: s' => Ascii.eqb c d && starts_with p' s'
  | _ :: _, [] => false
  end.

Definition ends_with (p s : bytes) : bool := starts_with (rev p) (rev s).

(** Generic three-valued result used by all models: a value, a refusal
    (the [Err] of the Rust code) or a panic / abort of the process. *)
Inductive res (A : Type) : Type :=
| Ok (a : A)
| Err
| Panic.
Arguments Ok {A} a.
Arguments Err {A}.
Arguments Panic {A}.

Definition res_bind {A B} (r : res A) (f : A -> res B) : res B :=
  match r with Ok a => f a | Err => Err | Panic => Panic end.

Definition is_ok {A} (r : res A) : bool := match r with Ok _ => true | _ => false end.

(** Decimal digits. *)
Definition is_digit (c : ascii) : bool := (48 <=? code c) && (code c <=? 57).
Definition digit_val (c : ascii) : N := code c - 48.
Definition digit_char (d : N) : ascii := ascii_of_N (48 + d).

(** Decimal rendering: digits least-significant first with explicit fuel; the
    fuel [S (size n)] always suffices because n < 2^size n <= 10^size n. *)
Fixpoint digs (fuel : nat) (n : N) : list N :=
  match fuel with
  | O => []
  | S f => if n <? 10 then [n] else (n mod 10) :: digs f (n / 10)
  end.
Definition dec_fuel (n : N) : nat := S (N.to_nat (N.size n)).
Definition dec_digits (n : N) : bytes := map digit_char (rev (digs (dec_fuel n) n)).

(** value of a digit string, most significant first; [None] when some
    character is not an ASCII digit; the empty string reads as 0 *)
Fixpoint dec_value_acc (acc : N) (s : bytes) : option N :=
  match s with
  | [] => Some acc
  | c :: s' => if is_digit c then dec_value_acc (10 * acc + digit_val c) s' else None
  end.
Definition dec_value (s : bytes) : option N := dec_value_acc 0 s.

Fixpoint replicate {A} (n : nat) (a : A) : list A :=
  match n with O => [] | S k => a :: replicate k a end.

(** Rust's [format!("{:0>w$}", s)] / [{:0w$}] for a digit string: left pad with '0' to width w *)
Definition pad_left0 (w : N) (s : bytes) : bytes :=
  replicate (N.to_nat w - List.length s) "0"%char ++ s.

Definition blen (s : bytes) : N := N.of_nat (List.length s).
