(** Boolean comparators evaluated by the correspondence check of C20 (command line). *)
From Rocfl Require Import Base.Bytes Model.Cli.
Open Scope N_scope.

(** decidable equality of dispatch results (transparent, so that vm_compute decides it) *)
Definition dispatch_eq_dec : forall a c : dispatch, {a = c} + {a <> c}.
Proof. repeat decide equality. Defined.

(** the options typed by the driver are dispatched to exactly the library calls the
    driver made through the harness *)
Definition check_argv (g : globals) (s : subcmd) (expected : dispatch) : bool :=
  if dispatch_eq_dec (argv_to_call g s) expected then true else false.

(** exit status predicted from the LIBRARY's outcome vs the status of the binary *)
Definition check_exit (c : cmd_outcome) (observed : N) : bool :=
  cli_exit c =? observed.

(** number of "Object .. is .." blocks validate prints (None: not a validate outcome) *)
Definition model_printed (c : cmd_outcome) : option N :=
  match c with
  | OValidateObjects f objs => Some (validate_objects_printed f objs)
  | OValidateRepo f (Some rr) => Some (validate_repo_printed f rr)
  | _ => None
  end.

Definition check_printed (c : cmd_outcome) (observed : option N) : bool :=
  match model_printed c, observed with
  | Some m, Some o => m =? o
  | _, _ => true
  end.

(** What `validate` (repository mode) wrote about the storage itself, as parsed from stdout:
    the codes listed in the "Storage root is .." block and in the "Storage hierarchy is .."
    block (None: block absent), and the number on the "Storage issues:" line. *)
Record storage_out := mkSO {
  so_root : option (list N * list N);
  so_hier : option (list N * list N);
  so_issues : N
}.

(** equality as multisets: the order of the lines inside a block is presentation
    (the library fills the results while it walks directories) *)
Definition countN (x : N) (l : list N) : nat := List.length (filter (N.eqb x) l).
Definition listN_eqb (a c : list N) : bool :=
  Nat.eqb (List.length a) (List.length c)
  && forallb (fun x => Nat.eqb (countN x a) (countN x c)) a.

Definition block_eqb (a c : option (list N * list N)) : bool :=
  match a, c with
  | None, None => true
  | Some (e1, w1), Some (e2, w2) => listN_eqb e1 e2 && listN_eqb w1 w2
  | _, _ => false
  end.

Definition check_storage (c : cmd_outcome) (observed : option storage_out) : bool :=
  match c, observed with
  | OValidateRepo f (Some rr), Some so =>
      block_eqb (validate_repo_root_block f rr) (so_root so)
      && block_eqb (validate_repo_hier_block f rr) (so_hier so)
      && (validate_repo_storage_issues f rr =? so_issues so)
  | _, _ => true
  end.

(** one invocation: (options ok, exit status ok, printed object blocks ok, storage blocks ok) *)
Definition check_step (g : globals) (s : subcmd) (expected : dispatch)
           (c : cmd_outcome) (observed_exit : N) (observed_printed : option N)
           (observed_storage : option storage_out)
  : bool * bool * bool * bool :=
  (check_argv g s expected, check_exit c observed_exit,
   check_printed c observed_printed, check_storage c observed_storage).
