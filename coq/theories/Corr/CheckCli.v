(** Boolean comparators evaluated by the correspondence check of C20 (command line). *)
From Rocfl Require Import Base.Bytes Model.Cli Model.KnownC20.
Open Scope N_scope.

(** decidable equality of dispatch results (transparent, so that vm_compute decides it) *)
Definition dispatch_eq_dec : forall a c : dispatch, {a = c} + {a <> c}.
Proof. repeat decide equality. Defined.

(** the options typed by the driver are dispatched to exactly the library calls the
    driver made through the harness *)
Definition check_argv (g : globals) (s : subcmd) (expected : dispatch) : bool :=
  if dispatch_eq_dec (argv_to_call g s) expected then true else false.

(** exit status predicted from the LIBRARY's outcome vs the status of the binary.
    [pinned = true]: the code as pinned (validate.rs:144 as written);
    [pinned = false]: after the repair of the known finding. *)
Definition model_exit (pinned : bool) (c : cmd_outcome) : N :=
  match c with
  | OValidateRepo f (Some rr) =>
      if pinned then validate_repo_exit f rr else validate_repo_exit_fixed f rr
  | _ => cli_exit c
  end.

Definition check_exit (pinned : bool) (c : cmd_outcome) (observed : N) : bool :=
  model_exit pinned c =? observed.

(** number of "Object .. is .." blocks validate prints (None: not a validate outcome) *)
Definition model_printed (c : cmd_outcome) : option N :=
  match c with
  | OValidateObjects f objs => Some (validate_objects_printed f objs)
  | OValidateRepo f (Some rr) => Some (validate_repo_printed f rr)
  | _ => None
  end.

Definition check_printed (c : cmd_outcome) (observed : option N) : bool :=
  match model_printed c, observed with
  | Some m, Some o => m =? o
  | _, _ => true
  end.

(** one invocation: (options ok, exit status ok for the pinned code, exit status ok for the
    repaired code, printed blocks ok, in the known class) *)
Definition check_step (g : globals) (s : subcmd) (expected : dispatch)
           (c : cmd_outcome) (observed_exit : N) (observed_printed : option N)
  : bool * bool * bool * bool * bool :=
  (check_argv g s expected, check_exit true c observed_exit, check_exit false c observed_exit,
   check_printed c observed_printed, c20_known c).
