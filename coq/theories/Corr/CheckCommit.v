(** Boolean checkers and predictions the correspondence checks of C04 / C05 evaluate
    (checks/c04.py, checks/c05.py through vplib/commitlib.py).

    Observed side: a scenario's pre-state (both roots, abstracted to a [tree] by
    commitlib.abs_tree), the system calls of the fault-free recording run abstracted to
    [ostep]s (commitlib.steps_of), the abstracted post-state, and for every injected run the
    observed outcome class.  Model side: Model/Commit.v run on the same pre-state. *)
From Coq Require Import List NArith Ascii Bool.
From Rocfl Require Import Base.Bytes Model.FsOps Model.FsTree Model.Commit.
Import ListNotations.
Open Scope N_scope.

(** an observed system call: kind 1 mkdir 2 createnew 3 trunc 4 chmod 5 write 6 tail 7 rename 8 unlink 9 rmdir *)
Record ostep : Type := OS { os_kind : N; os_p : fpath; os_q : fpath }.

Definition ostep_of (s : stepk) : ostep :=
  match s with
  | SMkdir p => OS 1 p []
  | SCreateNew p _ => OS 2 p []
  | STrunc p => OS 3 p []
  | SChmod p => OS 4 p []
  | SWrite p _ => OS 5 p []
  | STail p => OS 6 p []
  | SRename a c => OS 7 a c
  | SUnlink p => OS 8 p []
  | SRmdir p => OS 9 p []
  end.

Definition ostep_eqb (x y : ostep) : bool :=
  N.eqb (os_kind x) (os_kind y) && path_eqb (os_p x) (os_p y) && path_eqb (os_q x) (os_q y).

Inductive prog : Type := PCommit | PUpgrade | PRetryUpgrade | PReset.
Definition prog_of (p : prog) (c : cfg) : M unit :=
  match p with
  | PCommit => commit c
  | PUpgrade => upgrade_object c
  | PRetryUpgrade => retry_upgrade c
  | PReset => reset_all c
  end.

Definition model_log (p : prog) (c : cfg) (t : tree) : list ostep :=
  map ostep_of (w_log (snd (run (prog_of p c) t NoInj))).

(** number of occurrences of x among the first n elements *)
Fixpoint count_before (x : ostep) (l : list ostep) (n : nat) : nat :=
  match n, l with
  | S n', y :: l' => (if ostep_eqb x y then 1 else 0)%nat + count_before x l' n'
  | _, _ => O
  end.

(** index of the (k+1)-th occurrence of x *)
Fixpoint find_occ (x : ostep) (k : nat) (l : list ostep) (i : nat) : option nat :=
  match l with
  | [] => None
  | y :: l' =>
    if ostep_eqb x y then match k with O => Some i | S k' => find_occ x k' l' (S i) end
    else find_occ x k l' (S i)
  end.

(** model position of every observed step: same call, same occurrence number *)
Definition align (mlog obs : list ostep) : list (option nat) :=
  map (fun i => let x := nth i obs (OS 0 [] []) in find_occ x (count_before x obs i) mlog O)
      (List.seq 0 (List.length obs)).

(** every observed call has its model position, and the model issues no further call except data writes
    (the write calls of a file are outside the counted set "mutating" of a recording run) *)
Definition log_perm (mlog obs : list ostep) : bool :=
  forallb (fun o => match o with Some _ => true | None => false end) (align mlog obs)
  && forallb (fun io => match snd io with Some _ => true | None => N.eqb (os_kind (fst io)) 5 end)
             (combine mlog (align obs mlog)).

(** * trace comparison *)

Definition fsop_eqb (x y : fsop) : bool :=
  match x, y with
  | Mkdir p, Mkdir q | CreateNew p, CreateNew q | Create p, Create q | Unlink p, Unlink q | Rmdir p, Rmdir q => path_eqb p q
  | Rename a c, Rename a' c' => path_eqb a a' && path_eqb c c'
  | Other k p, Other k' q => N.eqb k k' && path_eqb p q
  | _, _ => false
  end.

Fixpoint remove_first (x : fsop) (l : list fsop) : option (list fsop) :=
  match l with
  | [] => None
  | y :: l' => if fsop_eqb x y then Some l'
               else match remove_first x l' with Some r => Some (y :: r) | None => None end
  end.

Fixpoint multiset_eqb (a c : list fsop) : bool :=
  match a with
  | [] => match c with [] => true | _ => false end
  | x :: a' => match remove_first x c with Some c' => multiset_eqb a' c' | None => false end
  end.

Fixpoint oplist_eqb (a c : list fsop) : bool :=
  match a, c with
  | [], [] => true
  | x :: a', y :: c' => fsop_eqb x y && oplist_eqb a' c'
  | _, _ => false
  end.

Definition touches (root : fpath) (o : fsop) : bool := existsb (under root) (targets o).

(** ops outside the staged object (lock, install phase in the main repository, removal of the emptied
    ancestors of the staged object): their order is fixed by the code *)
Definition ordered_part (c : cfg) (l : list fsop) : list fsop :=
  filter (fun o => negb (touches (c_so c) o) || touches (c_mo c) o) l.

(** the WalkDir-, hash-set- and readdir-ordered clean-up inside the staged object: any order.
    Everything else: exactly the observed sequence.  First op = lock creation, last = lock removal. *)
Definition check_trace (p : prog) (c : cfg) (t : tree) (obs : list fsop) : bool :=
  let m := w_trace (snd (run (prog_of p c) t NoInj)) in
  multiset_eqb m obs && oplist_eqb (ordered_part c m) (ordered_part c obs).

(** the final tree of the fault-free model run is the observed one (every path of both roots) *)
Definition check_final (p : prog) (c : cfg) (t post : tree) : bool :=
  same_underb [] (run_tree (prog_of p c) t NoInj) post.

Definition res_code {A} (r : out A) : N :=
  match r with ROk _ => 0 | RErr _ => 1 | RKilled => 2 end.

(** outcome class of the main object: 0 old, 1 new (= fault-free result), 2 neither and reported
    invalid by [obj_validb], 3 neither and valid *)
Definition class_of (c : cfg) (told tnew t' : tree) : N :=
  if same_underb (c_mo c) t' told then 0
  else if same_underb (c_mo c) t' tnew then 1
  else if obj_validb c t' (c_mo c) then 3 else 2.

Definition predict_with (p : prog) (c : cfg) (t tnew : tree) (i : inj) : N * N :=
  let r := run (prog_of p c) t i in
  (class_of c t tnew (w_tree (snd r)), res_code (fst r)).

Definition predict (p : prog) (c : cfg) (t : tree) (i : inj) : N * N :=
  predict_with p c t (run_tree (prog_of p c) t NoInj) i.

(** injections addressed by the index of an observed step of the recording run *)
(** [ORead i]: a NON-mutating call (open for reading, read, getdents, stat family) issued before the observed step i
    fails.  The model's oracle for it: the command aborts there - the outcome of [Fault] at the position of step i,
    which executes nothing further and returns the error through the same handlers; or the read sits outside the
    handler that would swallow a fault of step i (e.g. validate_object_root before purge_object's logged
    clean_dirs_up): the command returns an error with the tree as it is before step i; or the error is swallowed
    by the caller (Path::exists / is_dir answer false) and the run is the fault-free one. *)
Inductive oinj : Type := OFault (i : nat) | OKill (i : nat) | OKillAfter (i : nat) | OStop (i : nat) | ORead (i : nat).

(** for a stop request: the outcomes of a stop at the aligned or any later position, and of no stop at all
    (rocfl's ctrl-c thread closes the repository some time after the signal) *)
Definition predict_obs (p : prog) (c : cfg) (t : tree) (obs : list ostep) (js : list oinj) : list (list (N * N)) :=
  let mlog := model_log p c t in
  let al := align mlog obs in
  let pos i := nth i al None in
  let n := List.length mlog in
  let tnew := run_tree (prog_of p c) t NoInj in
  let stops := map (fun j => predict_with p c t tnew (Stop j)) (List.seq 0 n) in
  let base := predict_with p c t tnew NoInj in
  map (fun j =>
         match j with
         | OFault i => match pos i with Some k => [predict_with p c t tnew (Fault k)] | None => [] end
         | OKill i => match pos i with Some k => [predict_with p c t tnew (Kill k)] | None => [] end
         | OKillAfter i => match pos i with Some k => [predict_with p c t tnew (Kill (S k))] | None => [] end
         | OStop i => match pos i with Some k => base :: skipn k stops | None => [] end
         | ORead i => match pos i with
                      | Some k => [predict_with p c t tnew (Fault k); base; (fst (predict_with p c t tnew (Kill k)), 1)]
                      | None => [base]
                      end
         end) js.

(** what happens after a faulted run that left the old object: the retried command and, in a second copy,
    reset_all.  ((class of the main object after the retry, result of the retry),
                 (result of reset_all, staged object root still there after reset_all)) *)
Definition follow_obs (p : prog) (c : cfg) (t : tree) (obs : list ostep) (is : list nat) : list ((N * N) * (N * bool)) :=
  let mlog := model_log p c t in
  let al := align mlog obs in
  let tnew := run_tree (prog_of p c) t NoInj in
  let pr := match p with PUpgrade => PRetryUpgrade | q => q end in
  map (fun i => match nth i al None with
                | Some k =>
                  let t1 := run_tree (prog_of p c) t (Fault k) in
                  let r := run (prog_of pr c) t1 NoInj in
                  let z := run (reset_all c) t1 NoInj in
                  ((class_of c t tnew (w_tree (snd r)), res_code (fst r)),
                   (res_code (fst z), exists_at (w_tree (snd z)) (c_so c)))
                | None => ((99, 99), (99, false))
                end) is.

(** everything about one scenario in one evaluation *)
Definition scenario_report (p : prog) (c : cfg) (t post : tree) (obs : list ostep) (ops : list fsop) (js : list oinj)
  : bool * bool * bool * list (option nat) * list (list (N * N)) :=
  (log_perm (model_log p c t) obs, check_trace p c t ops, check_final p c t post,
   align (model_log p c t) obs, predict_obs p c t obs js).

(** * small concrete instances (non-vacuity examples and witnesses of the known findings) *)
Definition xs (s : string) : fseg := b s.
Definition ex_so : fpath := [xs "stg"; xs "o"].
Definition ex_mo : fpath := [xs "root"; xs "o"].
Definition ex_d10 : fseg := xs "0=ocfl_object_1.0".
Definition ex_d11 : fseg := xs "0=ocfl_object_1.1".
Definition ex_cfg : cfg :=
  mkCfg [xs "stg"; xs "locks"] (xs "o.lock") ex_so ex_mo (xs "inventory.json") (xs "inventory.json.sha512")
        (xs "content") 7 8 9 (xs "v3") ex_d11.

Definition ex_man : list fpath := [[xs "v2"; xs "content"; xs "a"]; [xs "v2"; xs "content"; xs "d"; xs "b"]].
Definition ex_dups : list fpath := [[xs "v2"; xs "content"; xs "d"; xs "b"]].
(** second version of an existing object; one new file, one duplicate (alone in its directory) of committed content *)
Definition ex_inv (spec : fseg) : invr := mkInv 5 [xs "v1"; xs "v2"] spec ex_man ex_dups.
Definition ex_oldinv : content := CInv 3 [xs "v1"] ex_d10 [[xs "v1"; xs "content"; xs "b"]] [].

Definition ex_tree (spec : fseg) : tree :=
  [ ([xs "stg"], Dir); ([xs "stg"; xs "locks"], Dir); (ex_so, Dir);
    (ex_so ++ [xs "inventory.json"], File (tok_of (ex_inv spec)));
    (ex_so ++ [xs "inventory.json.sha512"], File (CSide 5));
    (ex_so ++ [ex_d10], File (CDecl ex_d10));
    (ex_so ++ [xs "v2"], Dir); (ex_so ++ [xs "v2"; xs "content"], Dir);
    (ex_so ++ [xs "v2"; xs "content"; xs "a"], File (CBlob 1));
    (ex_so ++ [xs "v2"; xs "content"; xs "d"], Dir);
    (ex_so ++ [xs "v2"; xs "content"; xs "d"; xs "b"], File (CBlob 2));
    ([xs "root"], Dir); (ex_mo, Dir);
    (ex_mo ++ [ex_d10], File (CDecl ex_d10));
    (ex_mo ++ [xs "inventory.json"], File ex_oldinv);
    (ex_mo ++ [xs "inventory.json.sha512"], File (CSide 3));
    (ex_mo ++ [xs "v1"], Dir);
    (ex_mo ++ [xs "v1"; xs "inventory.json"], File ex_oldinv);
    (ex_mo ++ [xs "v1"; xs "inventory.json.sha512"], File (CSide 3));
    (ex_mo ++ [xs "v1"; xs "content"], Dir);
    (ex_mo ++ [xs "v1"; xs "content"; xs "b"], File (CBlob 2)) ].

(** a first version: nothing in the main repository yet, staged under the 1.0 declaration *)
Definition ex1_inv (spec : fseg) : invr := mkInv 5 [xs "v1"] spec [[xs "v1"; xs "content"; xs "a"]] [].
Definition ex1_tree (spec : fseg) : tree :=
  [ ([xs "stg"], Dir); ([xs "stg"; xs "locks"], Dir); (ex_so, Dir);
    (ex_so ++ [xs "inventory.json"], File (tok_of (ex1_inv spec)));
    (ex_so ++ [xs "inventory.json.sha512"], File (CSide 5));
    (ex_so ++ [ex_d10], File (CDecl ex_d10));
    (ex_so ++ [xs "v1"], Dir); (ex_so ++ [xs "v1"; xs "content"], Dir);
    (ex_so ++ [xs "v1"; xs "content"; xs "a"], File (CBlob 1));
    ([xs "root"], Dir) ].

(** class of the main object and result of every position of a program *)
Definition sweep (m : M unit) (c : cfg) (t : tree) (mk : nat -> inj) (n : nat) : list (N * N) :=
  let tnew := run_tree m t NoInj in
  map (fun k => let r := run m t (mk k) in (class_of c t tnew (w_tree (snd r)), res_code (fst r))) (List.seq 0 n).

(** the hypotheses of the property theorems, evaluated on a real pre-state: (commit_pre, same_type) for the
    staged inventory found in the tree *)
Definition pre_check (c : cfg) (t : tree) : bool * bool :=
  match read_file t (c_so c ++ [c_inv c]) with
  | Some (CInv k vs sp man dups) =>
      let i := mkInv k vs sp man dups in (commit_pre_b c t i, same_type_b c t i)
  | _ => (false, false)
  end.

(** the staged root inventory is complete (a fault inside its own write leaves it partial: then every later
    command on the object is refused until reset) *)
Definition staged_inv_ok (c : cfg) (t : tree) : bool :=
  match read_file t (c_so c ++ [c_inv c]) with Some (CInv _ _ _ _ _) => true | _ => false end.

(** C05, recovery after a kill: the staged inventory ON DISK (when it is complete) lists only head content files
    that exist, in the staged object or - once the version directory was moved - at the same relative path in the
    object.  This is what stage_inventory-before-unlink guarantees: the choice dedup_head made is on disk before
    anything is deleted, so a retried commit never takes a deleted file for the copy to keep. *)
Definition is_file_at (t : tree) (p : fpath) : bool :=
  match lookup t p with Some (File c) => negb (content_eqb c CPartial) | _ => false end.

Definition staged_refs_ok (c : cfg) (t : tree) : bool :=
  match read_file t (c_so c ++ [c_inv c]) with
  | Some (CInv _ _ _ man _) => forallb (fun d => is_file_at t (c_so c ++ d) || is_file_at t (c_mo c ++ d)) man
  | _ => true
  end.

(** ... at every kill position of program p *)
Definition kill_refs_ok (p : prog) (c : cfg) (t : tree) : bool :=
  forallb (fun k => staged_refs_ok c (run_tree (prog_of p c) t (Kill k)))
          (List.seq 0 (S (List.length (model_log p c t)))).

(** a dedup instance with several identical new files: v2 adds five copies of one new content in two directories;
    dedup_head keeps the third *)
Definition exm_man : list fpath :=
  [[xs "v2"; xs "content"; xs "m"; xs "c0"]; [xs "v2"; xs "content"; xs "m"; xs "c1"]; [xs "v2"; xs "content"; xs "m"; xs "c2"];
   [xs "v2"; xs "content"; xs "t3"]; [xs "v2"; xs "content"; xs "t4"]].
Definition exm_dups : list fpath :=
  [[xs "v2"; xs "content"; xs "m"; xs "c0"]; [xs "v2"; xs "content"; xs "m"; xs "c1"];
   [xs "v2"; xs "content"; xs "t3"]; [xs "v2"; xs "content"; xs "t4"]].
Definition exm_inv : invr := mkInv 5 [xs "v1"; xs "v2"] ex_d10 exm_man exm_dups.
Definition exm_tree : tree :=
  [ ([xs "stg"], Dir); ([xs "stg"; xs "locks"], Dir); (ex_so, Dir);
    (ex_so ++ [xs "inventory.json"], File (tok_of exm_inv));
    (ex_so ++ [xs "inventory.json.sha512"], File (CSide 5));
    (ex_so ++ [ex_d10], File (CDecl ex_d10));
    (ex_so ++ [xs "v2"], Dir); (ex_so ++ [xs "v2"; xs "content"], Dir); (ex_so ++ [xs "v2"; xs "content"; xs "m"], Dir);
    (ex_so ++ [xs "v2"; xs "content"; xs "m"; xs "c0"], File (CBlob 4));
    (ex_so ++ [xs "v2"; xs "content"; xs "m"; xs "c1"], File (CBlob 4));
    (ex_so ++ [xs "v2"; xs "content"; xs "m"; xs "c2"], File (CBlob 4));
    (ex_so ++ [xs "v2"; xs "content"; xs "t3"], File (CBlob 4));
    (ex_so ++ [xs "v2"; xs "content"; xs "t4"], File (CBlob 4));
    ([xs "root"], Dir); (ex_mo, Dir);
    (ex_mo ++ [ex_d10], File (CDecl ex_d10));
    (ex_mo ++ [xs "inventory.json"], File ex_oldinv);
    (ex_mo ++ [xs "inventory.json.sha512"], File (CSide 3));
    (ex_mo ++ [xs "v1"], Dir);
    (ex_mo ++ [xs "v1"; xs "inventory.json"], File ex_oldinv);
    (ex_mo ++ [xs "v1"; xs "inventory.json.sha512"], File (CSide 3));
    (ex_mo ++ [xs "v1"; xs "content"], Dir);
    (ex_mo ++ [xs "v1"; xs "content"; xs "b"], File (CBlob 2)) ].
