(** The hypotheses of the C04 / C05 theorems evaluated on a real pre-state, including the one of the
    any-type theorems ([decl_swap_ok], Proofs/CommitUpgradeDefs.v): (commit_pre, same_type, decl_swap_ok)
    for the staged inventory found in the tree. *)
From Coq Require Import List NArith Bool.
From Rocfl Require Import Base.Bytes Model.FsOps Model.FsTree Model.Commit Corr.CheckCommit Proofs.CommitUpgradeDefs.
Import ListNotations.

Definition pre_check_any (c : cfg) (t : tree) : bool * bool * bool :=
  match read_file t (c_so c ++ [c_inv c]) with
  | Some (CInv k vs sp man dups) =>
      let i := mkInv k vs sp man dups in (commit_pre_b c t i, same_type_b c t i, decl_swap_ok_b c t i)
  | _ => (false, false, false)
  end.
