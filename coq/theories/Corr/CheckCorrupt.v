(** Evaluator of the correspondence check of C06: the oracles are finite tables built by
    checks/c06.py from the real object (hashlib digests, parsed inventories, sidecars). *)
From Coq Require Export List NArith Bool.
From Rocfl Require Export Model.ObjTree Model.TreeValidate Model.Corrupt Model.KnownC06.
Export ListNotations.
Open Scope N_scope.

Record tables := mkTables {
  tb_digest : list (alg * token * N);        (* digest numbers of the tokens that occur *)
  tb_inv : list (token * inventory);         (* tokens that serde::parse would accept *)
  tb_sidecar : list (token * N);             (* recorded digest numbers *)
  tb_decl : list (token * spec_version)
}.

Fixpoint assocN {A} (k : N) (l : list (N * A)) : option A :=
  match l with [] => None | (x, v) :: r => if N.eqb x k then Some v else assocN k r end.

Fixpoint t_digest_l (l : list (alg * token * N)) (a : alg) (k : token) : N :=
  match l with
  | [] => 1000000000 + 2 * k + (match a with Sha512 => 0 | Sha256 => 1 end)   (* never used: all tokens are tabulated *)
  | (a', k', d) :: r => if alg_eqb a a' && N.eqb k k' then d else t_digest_l r a k
  end.

Definition t_digest (tb : tables) := t_digest_l (tb_digest tb).
Definition t_fdigest (i : N) (k : token) : N := k.
Definition t_parse_inv (tb : tables) (k : token) := assocN k (tb_inv tb).
Definition t_parse_sidecar (tb : tables) (k : token) := assocN k (tb_sidecar tb).
Definition t_parse_decl (tb : tables) (k : token) := assocN k (tb_decl tb).

Definition t_written (tb : tables) (t : tree) : bool :=
  written_by_rocflb (t_digest tb) (t_parse_inv tb) (t_parse_sidecar tb) (t_parse_decl tb) t.

Definition t_errors (tb : tables) (fx : bool) (t : tree) : list code :=
  tree_errors (t_digest tb) t_fdigest (t_parse_inv tb) (t_parse_sidecar tb) (t_parse_decl tb) fx t.

Definition b2n (b : bool) (w : N) : N := if b then w else 0.

(** one case: 2 = the model cannot apply the corruption; otherwise
    16 + [errors with fixity] + 2*[errors without] + 4*[known class 1] + 8*[known class 2] + 32*[structural] *)
Definition check_case (tb : tables) (t : tree) (c : corruption) : N :=
  match apply_corruption (t_parse_inv tb) (t_parse_sidecar tb) (t_parse_decl tb) c t with
  | None => 2
  | Some t' =>
      16 + b2n (negb (nilb (t_errors tb true t'))) 1
         + b2n (negb (nilb (t_errors tb false t'))) 2
         + b2n (c06_contentless_version_dir c t) 4
         + b2n (c06_version_inventory_dropped c t) 8
         + b2n (is_structural c) 32
  end.

(** whole object: first element 1 iff the uncorrupted tree satisfies written_by_rocfl and
    validates cleanly in the model (with and without fixity); then one code per case *)
Definition check_object (tb : tables) (t : tree) (cs : list corruption) : list N :=
  b2n (t_written tb t && nilb (t_errors tb true t) && nilb (t_errors tb false t)) 1
  :: map (check_case tb t) cs.
