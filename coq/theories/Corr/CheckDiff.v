(** Boolean comparators evaluated by the correspondence check of C18.
    Paths and digests are numbers assigned by the driver (one number per distinct
    logical path of the object / per distinct digest compared case-insensitively).
    Every checker returns the list of the indices (0-based) of the failing cases. *)
From Rocfl Require Import Base.Bytes Model.Diff.
Open Scope N_scope.

Definition st := list (N * N).
Definition de := diff_entry N.

Definition nmem (x : N) (l : list N) : bool := existsb (N.eqb x) l.
Definition set_eqb (a c : list N) : bool :=
  forallb (fun x => nmem x c) a && forallb (fun x => nmem x a) c.

Fixpoint nodupb (l : list N) : bool :=
  match l with [] => true | x :: l' => negb (nmem x l') && nodupb l' end.

(** entries compared as the theorems compare them: Renamed as a pair of sets *)
Definition entry_eqb (e e' : de) : bool :=
  match e, e' with
  | Added p, Added q => p =? q
  | Modified p, Modified q => p =? q
  | Deleted p, Deleted q => p =? q
  | Renamed o r, Renamed o' r' => set_eqb o o' && set_eqb r r'
  | _, _ => false
  end.

(** equal as sets of entries, and no entry reported twice *)
Definition diffs_eqb (a c : list de) : bool :=
  forallb (fun e => existsb (entry_eqb e) c) a && forallb (fun e => existsb (entry_eqb e) a) c
  && (N.of_nat (List.length a) =? N.of_nat (List.length c)).

Definition res_eqb {A} (eqb : A -> A -> bool) (m o : res A) : bool :=
  match m, o with
  | Ok a, Ok c => eqb a c
  | Err, Err => true
  | Panic, Panic => true
  | _, _ => false
  end.

Fixpoint failing_from (i : N) (l : list bool) : list N :=
  match l with
  | [] => []
  | true :: l' => failing_from (i + 1) l'
  | false :: l' => i :: failing_from (i + 1) l'
  end.
Definition failing (l : list bool) : list N := failing_from 0 l.

Definition m_diff_versions := diff_versions N.eqb N.eqb N.leb.

(** the states handed over have unique paths (hypothesis of the theorems) *)
Definition wf_hist (h : list st) : bool := forallb (fun s => nodupb (keys s)) h.

(** diff {left, right}: model = observation *)
Definition check_diff (h : list st) (c : option N * N * res (list de)) : bool :=
  let '(lft, rgt, obs) := c in res_eqb diffs_eqb (m_diff_versions h lft rgt) obs.
Definition check_diffs (h : list st) (cs : list (option N * N * res (list de))) : list N :=
  if wf_hist h then failing (map (check_diff h) cs) else [4294967295].

(** the property itself on the OBSERVED report: applying it to the left path set gives
    the right path set; Modified = in both with different digests *)
Definition check_apply1 (h : list st) (c : option N * N * res (list de)) : bool :=
  let '(lft, rgt, obs) := c in
  match obs with
  | Ok ds =>
      let l := match lft with
               | Some i => get_version h i
               | None => if 1 <? rgt then get_version h (rgt - 1) else Some []
               end in
      match l, get_version h rgt with
      | Some ls, Some rs =>
          set_eqb (apply_diff N.eqb ds (keys ls)) (keys rs) &&
          nodupb (apply_diff N.eqb ds (keys ls)) && nodupb (mentions ds) &&
          forallb (fun p => match lookup N.eqb p ls, lookup N.eqb p rs with
                            | Some a, Some c => negb (a =? c) | _, _ => false end)
                  (flat_map (fun e => match e with Modified p => [p] | _ => [] end) ds) &&
          forallb (fun e => match lookup N.eqb (fst e) rs with
                            | Some c => (snd e =? c) || existsb (entry_eqb (Modified (fst e))) ds
                            | None => true end) ls
      | _, _ => match lft with Some i => (i =? rgt) && match ds with [] => true | _ => false end | None => false end
      end
  | _ => true
  end.
Definition check_apply (h : list st) (cs : list (option N * N * res (list de))) : list N :=
  failing (map (check_apply1 h) cs).

(** diff_staged: (committed history, staged state, observation) *)
Definition check_staged1 (c : list st * option st * res (list de)) : bool :=
  let '(h, staged, obs) := c in res_eqb diffs_eqb (diff_staged N.eqb N.eqb N.leb h staged) obs.
Definition check_staged (cs : list (list st * option st * res (list de))) : list N :=
  failing (map check_staged1 cs).

Fixpoint nlist_eqb (a c : list N) : bool :=
  match a, c with
  | [], [] => true
  | x :: a', y :: c' => (x =? y) && nlist_eqb a' c'
  | _, _ => false
  end.

(** file_versions {path}: exact list (ascending) or refusal *)
Definition check_fv (h : list st) (c : N * res (list N)) : bool :=
  res_eqb nlist_eqb (list_file_versions N.eqb N.eqb h (fst c)) (snd c).
Definition check_fvs (h : list st) (cs : list (N * res (list N))) : list N :=
  failing (map (check_fv h) cs).

(** get_object {version}: last_update of every path, compared as a finite map *)
Definition lu_eqb (m o : list (N * N)) : bool :=
  (N.of_nat (List.length m) =? N.of_nat (List.length o)) && nodupb (map fst o) &&
  forallb (fun e => match lookup_lu N.eqb (fst e) m with Some u => u =? snd e | None => false end) o.
Definition check_lu (h : list st) (c : N * res (list (N * N))) : bool :=
  res_eqb lu_eqb (last_updates N.eqb N.eqb h (fst c)) (snd c).
Definition check_lus (h : list st) (cs : list (N * res (list (N * N)))) : list N :=
  failing (map (check_lu h) cs).

(** versions (log): the commits as given (name, address, message, created; [created = None]
    means "now": the driver passes the observed instant as [now] and checks its range itself)
    against the observed (number, name, address, message, created) *)
Definition obytes_eqb (a c : option bytes) : bool :=
  match a, c with
  | Some x, Some y => bytes_eqb x y
  | None, None => true
  | _, _ => false
  end.
Definition commit_t := (option bytes * option bytes * option bytes * option N * N)%type.
Definition logrow_t := (N * (option bytes * option bytes * option bytes * N))%type.

Definition model_version (c : commit_t) : res (vmeta N) :=
  let '(name, address, message, created, now) := c in
  res_bind (with_user cm_new name address)
    (fun m => Ok (update_meta now (with_created (with_message m message) created) (mkVM None None 0))).

Fixpoint model_history (cs : list commit_t) : res (list (vmeta N)) :=
  match cs with
  | [] => Ok []
  | c :: cs' => res_bind (model_version c) (fun v => res_bind (model_history cs') (fun vs => Ok (v :: vs)))
  end.

Definition logrow_eqb (a c : logrow_t) : bool :=
  let '(v, (n, ad, m, t)) := a in
  let '(v', (n', ad', m', t')) := c in
  (v =? v') && obytes_eqb n n' && obytes_eqb ad ad' && obytes_eqb m m' && (t =? t').

Fixpoint rows_eqb (a c : list logrow_t) : bool :=
  match a, c with
  | [], [] => true
  | x :: a', y :: c' => logrow_eqb x y && rows_eqb a' c'
  | _, _ => false
  end.

Definition check_log (cs : list commit_t) (obs : list logrow_t) : bool :=
  match model_history cs with
  | Ok h => rows_eqb (object_log h) obs
  | _ => false
  end.

(** a commit whose metadata is refused by with_user *)
Definition check_refused (name address : option bytes) (refused : bool) : bool :=
  Bool.eqb (negb (is_ok (with_user (T := N) cm_new name address))) refused.
