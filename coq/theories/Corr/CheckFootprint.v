(** Boolean checkers evaluated by checks/c03.py and checks/c12.py on the system-call traces of
    the real rocfl CLI (one traced process per operation). *)
From Rocfl Require Import Base.Bytes Model.FsOps Generated.Consts Model.Footprint.
From Rocfl Require Model.Layout.
Open Scope N_scope.

(** an absolute path string as strace reports it -> fpath *)
Definition P (s : bytes) : fpath := normalize [] s.

(** every observed call (also the failed ones, also of failing / killed runs) is allowed *)
Definition check_allowed (c : cfg) (s : pre) (o : opd) (obs : list fsop) : bool := forallb (allowed c s o) obs.
(** for the report: the observed calls that are not allowed *)
Definition not_allowed (c : cfg) (s : pre) (o : opd) (obs : list fsop) : list fsop :=
  filter (fun f => negb (allowed c s o f)) obs.

(** the two zone predicates of the theorems, on the observed calls *)
Definition check_zone (c : cfg) (o : opd) (obs : list fsop) : bool :=
  forallb (fun f => forallb (in_zone c o f) (targets f)) obs.
Definition check_committed (s : pre) (obs : list fsop) : bool :=
  forallb (fun f => forallb (fun p => negb (in_committed s p)) (targets f)) obs.

(** the generating model covers the observed trace and every call it marks [must] occurred *)
Definition check_covers (c : cfg) (s : pre) (o : opd) (g : gin) (obs : list fsop) : bool :=
  gin_ok c s o g && covers (gen c o g) obs.
Definition uncovered (c : cfg) (o : opd) (g : gin) (obs : list fsop) : list fsop * list fsop :=
  (filter (fun f => negb (existsb (fun m => fsop_eqb (snd m) f) (gen c o g))) obs,
   map snd (filter (fun m => fst m && negb (existsb (fsop_eqb (snd m)) obs)) (gen c o g))).

(** the path computations: staged object root, lock file, main object root as observed *)
Definition check_paths (c : cfg) (o : opd) (staged lock : fpath) : bool :=
  fpath_eqb (S_o c o) staged && fpath_eqb (lockf c o) lock.
Definition check_main_root (c : cfg) (o : opd) (root : fpath) : bool := fpath_eqb (N_o c o) root.
(** the guard decides as the real commit / purge did *)
Definition check_guard (s : pre) (R : fpath) (rel : bytes) (accepted : bool) : bool :=
  Bool.eqb (new_root_ok s R rel) accepted.
Definition check_validate (s : pre) (R : fpath) (rel : bytes) (accepted : bool) : bool :=
  Bool.eqb (validate_object_root s R rel) accepted.
(** the staging layout of Footprint.v is layout 0004 with its defaults of Model/Layout.v *)
Definition check_hashed (hex : bytes) : bool :=
  match Layout.map_0004 (Layout.default_cfg Layout.E0004) hex with
  | Ok p => bytes_eqb p (hashed_rel hex)
  | _ => false
  end.
(** accepted / refused logical paths and content directories *)
Definition check_lpath (value : bytes) (accepted : bool) : bool :=
  Bool.eqb (match inv_path_parse value with Some _ => true | None => false end) accepted.
Definition check_cdir (d : bytes) (accepted : bool) : bool := Bool.eqb (create_content_dir_ok d) accepted.
