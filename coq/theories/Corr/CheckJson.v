(** Boolean comparators evaluated by the correspondence check of C10: the model of
    Model/Json.v against what the real library wrote and read (checks/c10.py).
    Every [check_*] returns the list of its sub-checks (all must be [true]).  No
    known-finding class of C10 is left, so there are no [known_*] lists any more;
    [reads_back] / [validator_reads_back] are the CURRENT readers ([main_read_pos],
    [val_read_pos]). *)
From Rocfl Require Import Base.Bytes Model.VersionNum Model.Json.
Open Scope N_scope.

Definition opt_bytes_eqb (a c : option bytes) : bool :=
  match a, c with
  | Some x, Some y => bytes_eqb x y
  | None, None => true
  | _, _ => false
  end.

Definition implb' (a c : bool) : bool := negb a || c.

(** the raw token found in inventory.json for the string [s] *)
Definition check_token (s tok : bytes) : bool := bytes_eqb (serde_escape s) tok.

(** the decoder model against an independent parser on an arbitrary token *)
Definition check_decode (tok : bytes) (obs : option bytes) : bool := opt_bytes_eqb (decode_string tok) obs.

(** `vh lpath` on a raw token: serde_json's own reader, then LogicalPath::try_from.
    obs: None = the JSON line was refused; Some None = path refused; Some (Some p) *)
Definition check_lpath_token (tok : bytes) (obs : option (option bytes)) : bool :=
  match decode_string tok, obs with
  | None, None => true
  | Some s, Some o =>
      opt_bytes_eqb (match lpath_try_from s with Ok t => Some t | _ => None end) o
  | _, _ => false
  end.

Definition v1 (pad : N) : vnum := mkV 1 pad.

(** ** object id: create_object id, then cp/commit/get_object under the same string
    ([t] is the id itself since 031a721; the comparison with [id] is kept so that the
    prediction follows the model of the code and not the theorem) *)
Definition check_id (id : bytes) (new_ok : bool) (stored : option bytes) (later_ok val_clean : bool) : list bool :=
  match create_object_id id with
  | Ok t =>
      [ new_ok;
        implb' new_ok (opt_bytes_eqb stored (Some t));
        implb' new_ok (Bool.eqb later_ok (reads_back PId t && bytes_eqb t id));
        implb' (new_ok && later_ok) (Bool.eqb val_clean (validator_reads_back PId t)) ]
  | _ => [ negb new_ok ]
  end.

(** ** content directory: create_object with [cdir], cp of one file to [lp]
    (a canonical benign logical path), commit.  Acceptance is [create_object_cdir]
    (repo.rs:579-590); the commit of an accepted name still evaluates [cdir_collides]
    (the version directory holds inventory.json and the sidecar of [alg]) - proved
    false for every accepted name, kept so that the prediction follows the code and
    not the theorem. *)
Definition check_cdir (cdir alg lp : bytes) (pad : N)
    (new_ok cp_ok staged_ok commit_ok val_clean : bool) : list bool :=
  if create_object_cdir cdir then
    let cp := content_path (v1 pad) cdir lp in
    let m_cp_ok := fs_name_ok cdir in
    let m_staged := reads_back PContentDir cdir && implb' m_cp_ok (reads_back PContentPath cp) in
    (* commit: the stage cleanup examines <object root>/v1/<cdir> (fs.rs:852-855, util::metadata_if_exists
       since a04a002): a name the file system refuses (NUL, more than 255 bytes) is an Io error there *)
    let m_commit := m_staged && negb (cdir_collides cdir alg) && m_cp_ok in
    [ new_ok;
      implb' new_ok (Bool.eqb cp_ok m_cp_ok);
      implb' new_ok (Bool.eqb staged_ok m_staged);
      implb' new_ok (Bool.eqb commit_ok m_commit);
      implb' (new_ok && cp_ok && commit_ok)
             (Bool.eqb val_clean (validator_reads_back PContentDir cdir && validator_reads_back PContentPath cp)) ]
  else [ negb new_ok ].

(** ** logical path: cp of one file named [src] to [dst] in a fresh object *)
Definition lp_fs_ok (lp : bytes) : bool := forallb fs_name_ok (split_slash lp []).

Definition check_lpath (dst src cdir : bytes) (pad : N)
    (cp_ok : bool) (stored : option bytes) (staged_ok commit_ok val_clean : bool) : list bool :=
  match cp_logical_path dst src with
  | Ok lp =>
      let cp := content_path (v1 pad) cdir lp in
      let m_ok := lp_fs_ok lp in
      let m_staged := implb' m_ok (reads_back PLogicalPath lp && reads_back PContentPath cp) in
      [ Bool.eqb cp_ok m_ok;
        opt_bytes_eqb stored (if m_ok then Some lp else None);
        Bool.eqb staged_ok m_staged;
        Bool.eqb commit_ok m_staged;
        implb' (m_ok && commit_ok)
               (Bool.eqb val_clean (validator_reads_back PLogicalPath lp && validator_reads_back PContentPath cp)) ]
  | _ => [ negb cp_ok; opt_bytes_eqb stored None; staged_ok; commit_ok ]
  end.

(** ** commit metadata *)
Definition opt_reads (p : pos) (o : option bytes) : bool :=
  match o with Some s => reads_back p s | None => true end.
Definition opt_val_reads (p : pos) (o : option bytes) : bool :=
  match o with Some s => validator_reads_back p s | None => true end.

Definition check_meta (name addr msg : option bytes) (commit_ok read_ok val_clean : bool) : list bool :=
  if with_user name addr then
    [ commit_ok;
      implb' commit_ok (Bool.eqb read_ok (opt_reads PUserName name && opt_reads PUserAddress addr && opt_reads PMessage msg));
      implb' (commit_ok && read_ok)
             (Bool.eqb val_clean (opt_val_reads PUserName name && opt_val_reads PUserAddress addr && opt_val_reads PMessage msg)) ]
  else [ negb commit_ok ].

(** ** an inventory as OTHER software may write it: the string [s] rocfl wrote at position
    [p] respelled as the token [tok] (any legal JSON spelling, e.g. with backslash-u escapes)
    in the committed inventory files.  main_ok: get_object / versions still succeed;
    val_ok: rocfl validate reports no error.  The last element is the residual class
    (escaped head / version key: refused by the main reader, never written by rocfl). *)
Definition check_foreign (p : pos) (s tok : bytes) (main_ok val_ok : bool) : list bool :=
  [ opt_bytes_eqb (decode_string tok) (Some s);
    Bool.eqb main_ok (opt_bytes_eqb (main_read_pos p tok) (Some s));
    Bool.eqb val_ok (opt_bytes_eqb (val_read_pos p tok) (Some s)) ].
Definition foreign_class (p : pos) (tok : bytes) : list bool :=
  [ escaped_version_name_token p tok ].
