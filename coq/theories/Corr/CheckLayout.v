(** Boolean / bit-mask comparators evaluated by the correspondence check of C11:
    the real StorageLayout::new / map_object_id against the model (Layout.v) and the
    model-free oracle (LayoutSpec.v), with the conditions on the external inputs the
    theorems of Props/C11.v assume.  (No known-finding class is left.) *)
From Rocfl Require Import Base.Bytes Model.Layout Model.LayoutSpec.
Open Scope N_scope.

Definition res_bytes_eqb (a c : res bytes) : bool :=
  match a, c with
  | Ok x, Ok y => bytes_eqb x y
  | Err, Err => true
  | Panic, Panic => true
  | _, _ => false
  end.

Definition bit (k : N) (x : bool) : N := if x then 2 ^ k else 0.

(** compact input forms.  [au s]: an ASCII-only string; its case mappings are the ASCII
    ones (the driver uses this form only after checking that the Rust standard library
    returned exactly these values).  [mku]: explicit characters. *)
Definition au (s : bytes) : ustr := ascii_ustr s.
Definition mku (cs : list (bytes * bytes)) (lower upper : bytes) : ustr :=
  mkS (List.map (fun p => mkU (fst p) (snd p)) cs) lower upper.

(** observed outcome of StorageLayout::new: 0 = Ok, 1 = Err, 2 = panic *)
Definition new_class (r : res cfg) : N := match r with Ok _ => 0 | Err => 1 | Panic => 2 end.

(** bits: 0 model = code; 1 oracle (documents) = code; 2 the documents decide this
    configuration; 3 accepted parameters = documented parameters; 4 configuration
    strings well-formed *)
Definition new_mask (dbg : bool) (e : ext) (r : raw) (obs : N) : N :=
  let m := new dbg e r in
  let sp := LayoutSpec.parse e r in
  bit 0 (new_class m =? obs) +
  bit 1 (match sp with Some _ => obs =? 0 | None => obs =? 1 end) +
  bit 2 (cfg_determined e r) +
  bit 3 (match m, sp with Ok c, Some sc => same_params c sc | _, _ => true end) +
  bit 4 (raw_wf r).

(** bits: 0 model = code; 1 oracle = code (vacuous when the documents forbid the
    configuration); 2 inputs_ok (hypothesis of C11_map_is_spec: UTF-8, digest, and for
    0006/0007 the case information); 3 its part case_info_ok alone (Layout.unicode_ok) *)
Definition path_mask (c : cfg) (sp : option cfg) (id : ustr) (dg : bytes) (obs : res bytes) : N :=
  bit 0 (res_bytes_eqb (Layout.map c id dg) obs) +
  bit 1 (match sp with
         | Some sc => res_bytes_eqb (LayoutSpec.map sc id dg) (refusal obs)
         | None => true
         end) +
  bit 2 (inputs_ok c id dg) +
  bit 3 (case_info_ok c id).

Definition check_layout (dbg : bool) (e : ext) (r : raw) (obs_new : N)
           (ids : list (ustr * bytes * res bytes)) : list N :=
  new_mask dbg e r obs_new ::
  match new dbg e r with
  | Ok c => List.map (fun t => path_mask c (LayoutSpec.parse e r) (fst (fst t)) (snd (fst t)) (snd t)) ids
  | _ => []
  end.

(** diagnostics for a replay file: (class, byte codes) of model and documents *)
Definition show_res (r : res bytes) : N * list N :=
  match r with Ok x => (0, List.map code x) | Err => (1, []) | Panic => (2, []) end.
Definition show_paths (dbg : bool) (e : ext) (r : raw) (id : ustr) (dg : bytes) : (N * list N) * (N * list N) :=
  (show_res (res_bind (new dbg e r) (fun c => Layout.map c id dg)),
   show_res (match LayoutSpec.parse e r with Some sc => LayoutSpec.map sc id dg | None => Err end)).
