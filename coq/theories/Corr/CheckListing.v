(** Boolean comparators evaluated by the correspondence check of C19.
    The on-disk tree is abstracted by checks/c19.py into a [tree] term (all
    directory and file names; file contents only for inventory.json files);
    the answers of the real library are compared here with Model/Listing.v. *)
From Rocfl Require Import Base.Bytes Model.Listing Model.KnownC19.
Open Scope N_scope.

(** * The glob subset the driver generates (globset 0.4, backslash_escape on,
    literal_separator off; compiled to a (?-u) regex, so the unit is the BYTE,
    built with dot_matches_new_line(true), globset lib.rs:259-261, so LF is a
    byte like any other - observable since /repo 5a727de hands the matcher the
    decoded id, which may contain LF):
    [*] = any bytes, [?] = one byte, [\x] = the byte x, else literal. *)

Fixpoint glob_match (g : bytes) (s : bytes) {struct g} : bool :=
  match g with
  | [] => match s with [] => true | _ => false end
  | c :: g' =>
      if code c =? 42 then
        (fix star (s : bytes) : bool :=
           glob_match g' s ||
           match s with [] => false | _ :: s' => star s' end) s
      else if code c =? 63 then
        match s with [] => false | _ :: s' => glob_match g' s' end
      else if code c =? 92 then
        match g' with
        | [] => false
        | e :: g'' => match s with [] => false | x :: s' => Ascii.eqb e x && glob_match g'' s' end
        end
      else
        match s with [] => false | x :: s' => Ascii.eqb c x && glob_match g' s' end
  end.

(** * multiset comparison *)
Fixpoint remove1 {A} (eqb : A -> A -> bool) (x : A) (l : list A) : option (list A) :=
  match l with
  | [] => None
  | y :: r => if eqb x y then Some r
              else match remove1 eqb x r with Some r' => Some (y :: r') | None => None end
  end.

Fixpoint perm_eqb {A} (eqb : A -> A -> bool) (a c : list A) : bool :=
  match a with
  | [] => match c with [] => true | _ => false end
  | x :: a' => match remove1 eqb x c with Some c' => perm_eqb eqb a' c' | None => false end
  end.

Definition pid := (path * bytes)%type.
Definition pid_eqb (x y : pid) : bool := path_eqb (fst x) (fst y) && bytes_eqb (snd x) (snd y).

Definition listed_pairs (l : list item) : list pid :=
  flat_map (fun it => match it with IOk p i => [(p, i)] | IErr _ => [] end) l.

(** the listing: same (object root, id) pairs as a multiset, same number of error items *)
Definition check_list (t : tree) (glob : option bytes) (obs : list pid) (obs_errors : N) : bool :=
  let l := list_objects glob_match t glob in
  perm_eqb pid_eqb (listed_pairs l) obs && (N.of_nat (List.length (listed_errors l)) =? obs_errors).

(** * lookups *)
Inductive obs_get :=
| OFound (p : path) (id : bytes)
| ONotFound
| OCorrupt
| OGenErr.

Definition getres_obs_eqb (r : getres) (o : obs_get) : bool :=
  match r, o with
  | Found p i, OFound q j => pid_eqb (p, i) (q, j)
  | NotFound, ONotFound => true
  | Corrupt, OCorrupt => true
  | GenErr, OGenErr => true
  | _, _ => false
  end.

Fixpoint amap (m : list (bytes * path)) (id : bytes) : path :=
  match m with
  | [] => []
  | e :: r => if bytes_eqb (fst e) id then snd e else amap r id
  end.

Definition layout_fun (lay : option (list (bytes * path))) : option (bytes -> path) :=
  option_map amap lay.

(** [get_inventory] against the observation.  read_dir order is arbitrary: when a
    scan has several candidates (objects whose extracted id is the same string)
    the real answer may be any of them. *)
Definition check_get (lay : option (list (bytes * path))) (c : cache) (t : tree) (id : bytes) (o : obs_get) : bool :=
  let exact := getres_obs_eqb (fst (get_inventory (layout_fun lay) c t id)) o in
  match cache_get c id, lay with
  | None, None =>
      let cands := listed_pairs (iter_items (Some (bytes_eqb id)) t) in
      match cands with
      | _ :: _ :: _ => match o with OFound p j => existsb (pid_eqb (p, j)) cands | _ => false end
      | _ => exact
      end
  | _, _ => exact
  end.

(** * purge_object against the observation: result class and the objects the
    repository holds afterwards ([t_after] is the abstraction of the real tree
    after the call; empty directories purge prunes are not compared).  With
    several scan candidates the real scan may have picked any of them. *)
Definition same_objects (t1 t2 : tree) : bool :=
  perm_eqb pid_eqb (listed_pairs (iter_items None t1)) (listed_pairs (iter_items None t2)).

Definition purge_res_eqb (r : purge_res) (ok : bool) : bool :=
  match r with POk => ok | PErr => negb ok end.

Definition check_purge (lay : option (list (bytes * path))) (c : cache) (t : tree) (id : bytes)
  (ok : bool) (t_after : tree) : bool :=
  let '(r, t', _) := purge_object (layout_fun lay) c t id in
  let exact := purge_res_eqb r ok && same_objects t' t_after in
  match cache_get c id, lay with
  | None, None =>
      let cands := listed_pairs (iter_items (Some (bytes_eqb id)) t) in
      match cands with
      | _ :: _ :: _ =>
          existsb (fun pj => let '(r2, t2) := purge_at t id (fst pj) in
                             purge_res_eqb r2 ok && same_objects t2 t_after) cands
      | _ => exact
      end
  | _, _ => exact
  end.

Definition tree_ok (t : tree) : bool := names_unique t.
