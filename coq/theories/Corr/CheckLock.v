(** Boolean checkers evaluated by the correspondence check of C13 (checks/c13.py).

    Observed side: a traced run of the real CLI (vplib/strace.py) is abstracted to a list of
    events of Model/Lock.v: successful O_CREAT|O_EXCL creation of the lock file of object k
    = KAcq, failed creation = KFail, unlink of the lock file = KRel, every effective mutating
    call on a path below the staged or the main root of object k = KMut.  The checkers run the
    SAME strict automaton [strict_ok] / [strict_done] (Model/Lock.v: lock-table automaton [wb_run]
    AND, per operation = per traced command, [one_bracket]: Acq ; Mut* ; Rel and then nothing -
    exactly one acquire, no mutation before it or after the release, no second acquire) that
    Props/C13.v proves to accept every trace of the model (C13_traces_strictly_bracketed,
    C13_complete_traces_strictly_bracketed, C13_one_bracket_per_operation) on the observed list.
    (The old checkers [trace_balanced] / [trace_prefix_ok] = [wb_run] alone accept a command that
    releases the lock and takes it again - two brackets - and are kept for comparison only.)

    Model side of the two-process experiment: the concrete instance below (objects and keys
    are numbers, the data of an object is the list of tags appended by the steps executed on
    it) is run under the schedule the experiment forces - A until its hold point, then B to
    completion, then the rest of A - and its results are compared with the observed ones. *)
From Rocfl Require Import Base.Bytes Model.Lock.
Open Scope N_scope.

Definition E (tid : N) (kd : evkind) (k : N) : ev N := mkEv (N.to_nat tid) kd k.

Definition wb (es : list (ev N)) : option (list (N * nat)) := wb_run N N.eqb [] es.

(** a run that returned: well bracketed and nothing held at the end *)
Definition trace_balanced (es : list (ev N)) : bool :=
  match wb es with Some [] => true | _ => false end.

(** a run that was killed: well bracketed so far (locks may remain) *)
Definition trace_prefix_ok (es : list (ev N)) : bool :=
  match wb es with Some _ => true | None => false end.

(** the strict automaton; [ks] = lock key of the object of command 0, 1, ... (tid of the events).
    A run in which every command returned: no lock held, every command closed (or it made no event at all);
    a run with a killed command: accepted so far *)
Definition strict_balanced (ks : list N) (es : list (ev N)) : bool := strict_done N N.eqb ks es.
Definition strict_prefix_ok (ks : list N) (es : list (ev N)) : bool := strict_ok N N.eqb ks es.

(** number of locks still held after the events *)
Definition trace_held (es : list (ev N)) : option N :=
  match wb es with Some h => Some (N.of_nat (List.length h)) | None => None end.

Definition is_fail (e : ev N) : bool := match ev_kind e with KFail => true | _ => false end.
Definition is_mut (e : ev N) : bool := match ev_kind e with KMut => true | _ => false end.

(** the trace of an operation that was refused: at least one failed acquire, nothing else *)
Definition only_failed_acquire (es : list (ev N)) : bool :=
  match es with [] => false | _ => forallb is_fail es end.

Definition count_mut (es : list (ev N)) : N := N.of_nat (List.length (filter is_mut es)).

(** * the concrete instance of the model *)

Definition dataT := list N.

Fixpoint body (tag : N) (n : nat) (out : outcome) : prog dataT :=
  match n with
  | O => Done out
  | S m => Step (fun d => d ++ [tag]) (fun _ => body tag m out)
  end.

Definition hashN (o : N) : N := o.

Definition sysN := sys N N dataT.
Definition stepN : sysN -> nat -> sysN := step N N dataT N.eqb N.eqb hashN.
Definition runN : sysN -> list nat -> sysN := run_sched N N dataT N.eqb N.eqb hashN.
Definition initN (os : list (op N dataT)) : sysN := init N N dataT os (fun _ => []).

Definition rep (n : nat) (i : nat) : list nat := repeat i n.

(** results are reported as numbers: 0 = returned Ok, 1 = returned Err, 2 = panicked, 3 = lock error,
    4 = did not finish *)
Definition res_code (p : option (pc dataT)) : N :=
  match p with
  | Some (Finished (RRet OOk)) => 0
  | Some (Finished (RRet OErr)) => 1
  | Some (Finished (RRet OPanic)) => 2
  | Some (Finished RLock) => 3
  | _ => 4
  end.

(** the two-process experiment: A = operation 0 on object [oa] with [na] data steps and outcome
    [outa], B = operation 1 on object [ob] with [nb] data steps.  [hold] = None: A is stopped before
    it requests the lock;  Some k: A is stopped after acquiring the lock and k of its data steps.
    Returns (result of A, result of B, acquire order, data of oa, data of ob, locks left). *)
Definition outcome_of (c : N) : outcome := match c with 0 => OOk | 1 => OErr | _ => OPanic end.

Definition two_proc (oa ob na nb : N) (outa outb : N) (hold : option N) :=
  let os := [mkOp oa (body 1 (N.to_nat na) (outcome_of outa)); mkOp ob (body 2 (N.to_nat nb) (outcome_of outb))] in
  let pre := match hold with None => [] | Some k => rep (S (N.to_nat k)) 0%nat end in
  let sched := pre ++ rep (N.to_nat nb + 2) 1%nat ++ rep (N.to_nat na + 2) 0%nat in
  let st := runN (initN os) sched in
  (res_code (nth_error (pcs st) 0), res_code (nth_error (pcs st) 1),
   map N.of_nat (acq_log st), store st oa, store st ob, locks st).

(** compare with the observation: result classes of A and B (0 ok, 1 err (not the lock error), 2 panic,
    3 lock error) and the order in which the final state shows them to have run (acquire order) *)
Definition list_N_eqb (a c : list N) : bool :=
  Nat.eqb (List.length a) (List.length c) && forallb (fun p => fst p =? snd p) (combine a c).

Definition check_two_proc (oa ob na nb outa outb : N) (hold : option N)
           (obs_a obs_b : N) (obs_order : list N) : bool :=
  let '(ra, rb, order, _, _, lk) := two_proc oa ob na nb outa outb hold in
  (ra =? obs_a) && (rb =? obs_b) && list_N_eqb order obs_order && match lk with [] => true | _ => false end.

(** N-way race on one object: whatever the schedule, the operations that did not get the lock error are
    exactly the acquire log and the data is their serial execution (Props/C13.v); for an observed set of
    winners [ws] (in the order the final state shows) the model run with the serial schedule of the winners
    first and everybody else while the last winner is inside its body reproduces that outcome. *)
Definition race (n : N) (ws : list N) :=
  let nn := N.to_nat n in
  let os := map (fun i => mkOp 7 (body (N.of_nat i + 1) 1 OOk)) (seq 0 nn) in
  let winners := map N.to_nat ws in
  let losers := filter (fun i => negb (existsb (Nat.eqb i) winners)) (seq 0 nn) in
  let all_but_last := removelast winners in
  let lastw := last winners 0%nat in
  let sched := flat_map (fun i => rep 3 i) all_but_last ++ rep 2 lastw ++ losers ++ rep 1 lastw in
  let st := runN (initN os) sched in
  (map (fun i => res_code (nth_error (pcs st) i)) (seq 0 nn), map N.of_nat (acq_log st), store st 7, locks st).

Definition check_race (n : N) (ws : list N) (obs : list N) : bool :=
  let '(codes, order, d, lk) := race n ws in
  list_N_eqb codes obs && list_N_eqb order ws && list_N_eqb d (map (fun w => w + 1) ws) &&
  match lk with [] => true | _ => false end.
