(** Boolean comparators evaluated by the correspondence check of C14's
    multi-client half: the model (Model/MultiClient.v) is run over the same
    interleaving the real code executed; after every step the result class
    and the abstracted state observed on disk are compared with the model's. *)
From Rocfl Require Import Base.Bytes Model.VersionNum Model.MultiClient.
Open Scope N_scope.

(** finite-map equality of version states (logical path -> digest token) *)
Definition vs_sub (a c : vstate) : bool :=
  forallb (fun x => existsb (fun y => bytes_eqb (fst x) (fst y) && (snd x =? snd y)) c) a.
Definition vs_eqb (a c : vstate) : bool := vs_sub a c && vs_sub c a.
Fixpoint vss_eqb (a c : list cver) : bool :=
  match a, c with
  | [], [] => true
  | x :: a', y :: c' => (fst x =? fst y) && vs_eqb (snd x) (snd y) && vss_eqb a' c'
  | _, _ => false
  end.

(** observation of one object of the main repository: lineage (numbered by the
    driver: +1 whenever an object directory appears), head (number, width) of
    the root inventory, configuration token (digest algorithm, content directory),
    (metadata token, state) of v1..vh *)
Definition obs_obj := (N * (N * N) * N * list cver)%type.
(** observation of one staged inventory: head (number, width), configuration token, head state *)
Definition obs_stg := ((N * N) * N * vstate)%type.
(** result class (0 Ok, 1 Err, 2 Panic), main repository, all staging roots *)
Definition obs_step := (N * list (bytes * obs_obj) * list (skey * obs_stg))%type.

(** Constructors with fixed argument types and a table of the names the driver uses: elaborating
    a string literal costs about a millisecond, so the driver writes [nm k] for the object ids and
    logical paths of its fixed pool (any other string is written as a literal). *)
Definition nm (k : N) : bytes :=
  match k with
  | 0 => b "o" | 1 => b "p" | 2 => b "a.txt" | 3 => b "b.txt" | 4 => b "c.txt" | 5 => b "s.txt" | 6 => b "z.txt"
  | _ => []
  end.
Definition ev (c : N) (o : op) : event := (c, o).
Definition put (p : bytes) (d : N) : edit := (p, Some d).
Definition pd (p : bytes) (d : N) : bytes * N := (p, d).
Definition cv (m : N) (st : vstate) : cver := (m, st).
Definition oo (id : bytes) (lin n w k : N) (vs : list cver) : bytes * obs_obj := (id, (lin, (n, w), k, vs)).
Definition os (c : N) (id : bytes) (n w k : N) (st : vstate) : skey * obs_stg := ((c, id), ((n, w), k, st)).
Definition ob (rc : N) (m : list (bytes * obs_obj)) (s : list (skey * obs_stg)) : obs_step := (rc, m, s).

Definition rc_of (r : res unit) : N := match r with Ok _ => 0 | Err => 1 | Panic => 2 end.

Definition obj_matches (st : mc) (x : bytes * obs_obj) : bool :=
  match mget st (fst x) with
  | None => false
  | Some o =>
      let '(lin, (n, w), k, vs) := snd x in
      (o_lineage o =? lin) && (vn_number (o_head o) =? n) && (vn_width (o_head o) =? w)
      && (o_cfg o =? k) && vss_eqb (o_versions o) vs
  end.
Definition main_matches (st : mc) (obs : list (bytes * obs_obj)) : bool :=
  Nat.eqb (List.length (mc_main st)) (List.length obs) && forallb (obj_matches st) obs.

Definition stg_matches (st : mc) (x : skey * obs_stg) : bool :=
  match sget st (fst (fst x)) (snd (fst x)) with
  | None => false
  | Some s =>
      let '((n, w), k, vs) := snd x in
      (vn_number (s_head s) =? n) && (vn_width (s_head s) =? w) && (s_cfg s =? k) && vs_eqb (s_state s) vs
  end.
Definition stag_matches (st : mc) (obs : list (skey * obs_stg)) : bool :=
  Nat.eqb (List.length (mc_stag st)) (List.length obs) && forallb (stg_matches st) obs.

(** per step: (disagreement code, the commit's metadata is fresh ([step_fresh]));
    code = 1 result class + 2 main repository + 4 staging *)
Fixpoint check_mc (dbg : bool) (st : mc) (es : list event) (obs : list obs_step) : list (N * bool) :=
  match es, obs with
  | (c, o) :: es', (rc, m, s) :: obs' =>
      let k := step_fresh st c o in
      let st' := fst (step dbg st c o) in
      let r := snd (step dbg st c o) in
      let code := (if rc_of r =? rc then 0 else 1) + (if main_matches st' m then 0 else 2)
                  + (if stag_matches st' s then 0 else 4) in
      (code, k) :: check_mc dbg st' es' obs'
  | _, _ => []
  end.

Definition check_run (dbg : bool) (es : list event) (obs : list obs_step) : list (N * bool) :=
  check_mc dbg mc_init es obs.

(** what the model predicts for a run (used in diagnostics only) *)
Definition model_results (dbg : bool) (es : list event) : list N :=
  map rc_of (run_results dbg mc_init es).
