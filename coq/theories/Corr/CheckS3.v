(** Boolean comparators evaluated by the correspondence checks of C15 and C16 (S3 back end):
    the model is run on the observed bucket dumps / walks / fault positions and compared with
    what the real code did against the stand-in. *)
From Rocfl Require Import Base.Bytes Generated.Consts Model.S3.
Open Scope N_scope.

Fixpoint list_eqb {A} (eqb : A -> A -> bool) (x y : list A) : bool :=
  match x, y with
  | [], [] => true
  | a :: x', c :: y' => eqb a c && list_eqb eqb x' y'
  | _, _ => false
  end.
Definition pair_eqb (a c : bytes * bytes) : bool := bytes_eqb (fst a) (fst c) && bytes_eqb (snd a) (snd c).
Definition pairs_set_eqb (x y : list (bytes * bytes)) : bool :=
  Nat.eqb (List.length x) (List.length y) &&
  forallb (fun a => existsb (pair_eqb a) y) x && forallb (fun a => existsb (pair_eqb a) x) y.
Definition opt_n_eqb (a c : option N) : bool :=
  match a, c with None, None => true | Some x, Some y => x =? y | _, _ => false end.
Definition lreq_eqb (a c : bytes * option N) : bool := bytes_eqb (fst a) (fst c) && opt_n_eqb (snd a) (snd c).

(* ---- C15: [raw] is the prefix value the caller gave to OcflRepo::s3_repo / init_s3_repo
   ("" for None); the client works with [client_prefix raw] (s3.rs:793) *)

(** the ListObjectsV2 requests of one list_prefix call: (prefix parameter, continuation token) *)
Definition listing_requests (psize : nat) (keys : list bytes) (cp path : bytes) (delim : bool) : list (bytes * option N) :=
  let rp := request_prefix cp path in
  (rp, None) :: map (fun t => (rp, Some (N.of_nat t))) (list_tokens psize keys cp path delim).

Definition scan_fuel (keys : list bytes) : nat := (16 + 4 * List.length (List.concat keys))%nat.

(** list_objects without glob: the object roots InventoryIter finds, in order, and every
    ListObjectsV2 request it sends, in order.  obs_class: 0 = answered, 2 = panicked *)
Definition check_scan (psize : N) (keys : list bytes) (raw : bytes) (obs_class : N)
           (obs_roots : list bytes) (obs_reqs : list (bytes * option N)) : bool :=
  let cp := client_prefix raw in
  match scan_roots (scan_fuel keys) keys cp with
  | Some (Ok (roots, listed)) =>
      (obs_class =? 0) && list_eqb bytes_eqb roots obs_roots &&
      list_eqb lreq_eqb (flat_map (fun p => listing_requests (N.to_nat psize) keys cp p true) listed) obs_reqs
  | Some Panic => obs_class =? 2
  | _ => false
  end.

(** the answer of the stand-in to one request against the server model *)
Definition check_serve (psize : N) (keys : list bytes) (rp : bytes) (delim : bool) (tok : option N)
           (obs_keys obs_prefixes : list bytes) (obs_truncated : bool) : bool :=
  let pg := serve (N.to_nat psize) (entries_of [] rp delim keys)
                  (match tok with Some t => Some (N.to_nat t) | None => None end) in
  list_eqb bytes_eqb (keys_of_entries (pg_entries pg)) obs_keys &&
  list_eqb bytes_eqb (pres_of_entries (pg_entries pg)) obs_prefixes &&
  Bool.eqb (pg_truncated pg) obs_truncated.

Definition res_lists_eqb (x y : res (list bytes * list bytes)) : bool :=
  match x, y with
  | Ok (a, c), Ok (a', c') => list_eqb bytes_eqb a a' && list_eqb bytes_eqb c c'
  | Err, Err => true
  | Panic, Panic => true
  | _, _ => false
  end.
Definition check_paging (psize : N) (keys : list bytes) (raw path : bytes) (delim : bool) : bool :=
  let cp := client_prefix raw in
  match list_paged (N.to_nat psize) keys cp path delim with
  | Some r => res_lists_eqb r (list_all keys cp path delim)
  | None => false
  end.

(** keys of the file tree of the filesystem repository = keys of the bucket (with content tokens) *)
Definition check_keys_of_tree (raw : bytes) (t : tree) (obs : list (bytes * bytes)) : bool :=
  let cp := client_prefix raw in
  tree_wf t && pairs_set_eqb (keys_of_tree cp t) obs.
(** and back: every bucket key cut into segments is a file of the tree with the same content *)
Definition check_paths_of_keys (raw : bytes) (t : tree) (obs : list (bytes * bytes)) : bool :=
  let cp := client_prefix raw in
  let fl := flatten t in
  Nat.eqb (List.length fl) (List.length obs) &&
  forallb (fun kc => match path_of_key cp (fst kc) with
                     | Ok segs => existsb (fun pc => list_eqb bytes_eqb (fst pc) segs && bytes_eqb (snd pc) (snd kc)) fl
                     | _ => false
                     end) obs.
(** S3Storage::list of the repository root, recursive = all file paths *)
Definition check_storage_list_all (keys : list bytes) (raw : bytes) (t : tree) : bool :=
  let cp := client_prefix raw in
  match storage_list keys cp [] true with
  | Ok l => let fl := map (fun pc => concat_slash (fst pc)) (flatten t) in
            Nat.eqb (List.length l) (List.length fl) &&
            forallb (fun e => negb (fst e) && existsb (bytes_eqb (snd e)) fl) l
  | _ => false
  end.
(** the stored prefix as a directory name, for the driver's own bookkeeping (must equal
    vplib.s3stub.norm_prefix) *)
Definition stored_prefix_is (raw expected : bytes) : bool := bytes_eqb (client_prefix raw) expected.

(** content tokens of the driver: the inventory files are handed over as "I" ++ <the id they name> *)
Definition tok_inv_id (tok : bytes) : option bytes :=
  match tok with c :: r => if Ascii.eqb c "I"%char then Some r else None | [] => None end.

(** purge_object of id [oid] with looked-up root [mapped] on the observed bucket: result class,
    the DELETE requests in order, the bucket afterwards (keys with content tokens) *)
Definition check_purge (raw oid mapped : bytes) (bk : bucket) (obs_class : N) (obs_deleted : list bytes)
           (obs_bucket : bucket) : bool :=
  let out := purge_object tok_inv_id None (client_prefix raw) oid mapped (init_st bk) in
  (match fst out with Ok _ => 0 | Err => 1 | Panic => 2 end =? obs_class) &&
  list_eqb bytes_eqb (map (fun r => match r with RDelete k => k | _ => [] end) (st_log (snd out))) obs_deleted &&
  pairs_set_eqb (st_b (snd out)) obs_bucket.

(** the first commit of a new object (write_new_object, s3.rs:483-524): the root is accepted iff
    validate_object_root passes and nothing is stored below it.  obs_class: 0 = committed,
    1 = refused *)
Definition check_new_object_root (raw : bytes) (keys : list bytes) (root : bytes) (obs_class : N) : bool :=
  let cp := client_prefix raw in
  match s3_validate_object_root keys cp root with
  | Ok _ => match listing_empty (list_all keys cp root true) with
            | Ok true => obs_class =? 0
            | Ok false => obs_class =? 1
            | Err => obs_class =? 1
            | Panic => obs_class =? 2
            end
  | Err => obs_class =? 1
  | Panic => obs_class =? 2
  end.

(* ---- C16 *)

Definition req_eqb (a c : req) : bool :=
  match a, c with
  | RPut x, RPut y => bytes_eqb x y
  | RDelete x, RDelete y => bytes_eqb x y
  | RMpCreate x, RMpCreate y => bytes_eqb x y
  | RMpPart x n, RMpPart y m => bytes_eqb x y && (n =? m)
  | RMpComplete x, RMpComplete y => bytes_eqb x y
  | RMpAbort x, RMpAbort y => bytes_eqb x y
  | RGet x, RGet y => bytes_eqb x y
  | _, _ => false
  end.
Definition res_class (r : res unit) : N := match r with Ok _ => 0 | Err => 1 | Panic => 2 end.

Definition check_run (out : res unit * st) (obs_class : N) (obs_log : list req) (obs_bucket : bucket) : bool :=
  (res_class (fst out) =? obs_class) && list_eqb req_eqb (st_log (snd out)) obs_log &&
  pairs_set_eqb (st_b (snd out)) obs_bucket.

(** [fa]: the failed mutating request, [fr]: the failed read (one of them at most).
    [obs_log]: the GETs the commit sends after the emptiness listing of the version prefix
    (the reads of s3.rs:589-599) and its mutating requests, in order *)
Definition check_version_run (fa fr : option N) (cp : bytes) (i : nv_input) (bk : bucket)
           (obs_class : N) (obs_log : list req) (obs_bucket : bucket) : bool :=
  check_run (write_new_version fa fr cp i (init_st bk)) obs_class obs_log obs_bucket.
Definition check_object_run (fa : option N) (cp root : bytes) (files : list ufile) (bk : bucket)
           (obs_class : N) (obs_log : list req) (obs_bucket : bucket) : bool :=
  check_run (write_new_object fa cp root files (init_st bk)) obs_class obs_log obs_bucket.
