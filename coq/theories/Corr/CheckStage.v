(** Boolean checkers of the per-step refinement check (C01, C02, C08, C09):
    the model applied to the implementation's own pre-state must give the
    implementation's post-state.  Outcome: 1 agree, 0 disagree, 2 order-sensitive
    (the code iterates a hash map and the step's result depends on that order;
    accepted when some order reproduces the observation, otherwise skipped). *)
From Coq Require Import NArith Ascii.
From stdpp Require Export gmap.
From Rocfl Require Export Model.Inventory Model.InvSpec Model.Staging Model.RefusedCommit.

Definition agree (x : bool) : N := if x then 1%N else 0%N.

Definition res_eq (r : inventory * rclass) (post : inventory) (rc : rclass) : bool :=
  bool_decide (fst r = post) && rclass_eqb (snd r) rc.

Definition check_ext (srcs : list esrc) (dst : list ascii) (recursive : bool)
  (pre post : inventory) (rc : rclass) : N :=
  agree (res_eq (ext_apply srcs dst recursive pre) post rc).

Definition check_int (mv : bool) (v : option N) (srcs : list (list ascii)) (dst : list ascii)
  (recursive : bool) (pre post : inventory) (rc : rclass) : N :=
  let vn := resolve_version pre v in
  match get_state pre vn with
  | None => agree (bool_decide (post = pre) && rclass_eqb rc RErr)
  | Some stv =>
      match resolve_internal stv (i_hstate pre) srcs dst recursive with
      | None => agree (bool_decide (post = pre) && rclass_eqb rc RErr)
      | Some r =>
          let pairs := map_to_list (r_pairs r) in
          let try_order := fun order => res_eq (int_apply_order mv vn order (r_errors r) pre) post rc in
          if try_order pairs then 1%N
          else if r_ambiguous r then 2%N
          else if (length pairs <=? 4)%nat
               then (if existsb try_order (permutations pairs) then 1%N else 0%N)
               else
                 (* more than 4 pairs: all orders are not enumerated.  A disagreement is reported only when the
                    result cannot depend on the order: copies none of which is refused in the listed order (the
                    destinations are then pairwise compatible with each other and with the state, so every order
                    adds the same entries).  Moves and partly refused copies are order-sensitive in general. *)
                 if negb mv && rclass_eqb (snd (int_apply_order mv vn pairs O pre)) ROk
                    && bool_decide (fst (int_apply_order mv vn pairs (r_errors r) pre)
                                    = fst (int_apply_order mv vn (rev pairs) (r_errors r) pre))
                 then 0%N else 2%N
      end
  end.

Definition check_rm (paths : list (list ascii)) (recursive : bool) (pre post : inventory) (rc : rclass) : N :=
  agree (res_eq (rm_apply paths recursive pre) post rc).

Definition check_reset (paths : list (list ascii)) (recursive : bool) (pre post : inventory) (rc : rclass) : N :=
  if res_eq (reset_apply paths recursive (fun l => l) pre) post rc then 1%N
  else if res_eq (reset_apply paths recursive (@rev _) pre) post rc then 1%N
  else if bool_decide (fst (reset_apply paths recursive (fun l => l) pre) = fst (reset_apply paths recursive (@rev _) pre))
       then 0%N else 2%N.

Definition check_commit (pre post : inventory) : N := agree (dedup_okb pre post).
(** a commit that reports an error leaves the staged inventory as it was (refused before the de-duplication) or
    as [refused_commit] says (refused by the store after it: 890d206) *)
Definition check_refused_commit (pre post : inventory) : N :=
  agree (bool_decide (post = pre) || bool_decide (post = refused_commit pre)).
Definition check_new (post : inventory) : N := agree (bool_decide (post = new_inventory)).
Definition check_dedup_canon (pre : inventory) : N := agree (dedup_okb pre (dedup_canon pre)).
