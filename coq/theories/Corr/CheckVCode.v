(** Boolean comparators and classifier front-ends evaluated by the correspondence
    check of C17 (checks/c17.py). *)
From Rocfl Require Import Base.Bytes Model.VersionNum Model.VCode Model.KnownC17.
Open Scope N_scope.

(** ** the inventory visitor (versions-block family and header-field family) *)

Definition modelled_codes : list ecode :=
  [E008; E010; E013; E017; E018; E025; E033; E036; E037; E038; E040; E041; E044; E102; E104; E106; E111].

Definition obs_count (c : N) (obs : list (N * N)) : N :=
  fold_left (fun acc x => if fst x =? c then acc + snd x else acc) obs 0.

(** [obs_panic]: the real validator panicked; [obs]: (error code number, count) of the errors it
    reported for the root inventory.  When the model predicts an inventory without error the later
    validation stages add errors of their own, so only the outcome kind is compared. *)
Definition check_visit (items : list item) (obs_panic : bool) (obs : list (N * N)) : bool :=
  let '(r, e) := visit items in
  match r with
  | PPanicked => obs_panic
  | PInv => negb obs_panic
  | _ => negb obs_panic &&
         forallb (fun c => err_count c e =? obs_count (ecode_n c) obs) modelled_codes
  end.

Definition visit_summary (items : list item) : N * list (N * N) :=
  let '(r, e) := visit items in
  (match r with PInv => 0 | PNoInv => 1 | PAbort => 2 | PPanicked => 3 end,
   filter (fun x => 0 <? snd x) (map (fun c => (ecode_n c, err_count c e)) modelled_codes)).

(** W001 / E013 of validate_version_nums for a key list *)
Definition keys_set (keys : list bytes) : list vnum :=
  vset_of (flat_map (fun k => match vparse k with Ok v => [v] | _ => [] end) keys).
Definition keys_nums (keys : list bytes) : list N := map vn_number (keys_set keys).
Definition check_w001 (keys : list bytes) (obs : bool) : bool :=
  Bool.eqb (snd (vnums_padding (keys_set keys))) obs.

(** ** the cross-inventory checks *)

Definition site_n (s : psite) : N :=
  match s with SGetVersion => 1 | SContentPaths => 2 | SPrettyPrint => 3 end.

(** all panic sites some iteration order of the hash maps can reach (the model's fold
    stops at the first one in list order; the real order is the hasher's) *)
Definition entry_sites (dbg : bool) (cur : N) (cmp inv : ainv) (st : astate) (cd : bool)
           (l : list (N * N)) : list N :=
  flat_map (fun e => match entry_check dbg cur cmp inv st cd e with XPanic s => [site_n s] | _ => [] end) l.

Definition state_sites (dbg : bool) (cur : N) (cmp inv : ainv) (cd : bool) : list N :=
  match get_version cmp cur, get_version inv cur with
  | Some cst, Some st => entry_sites dbg cur cmp inv st cd cst
  | _, _ => [1]
  end.

Fixpoint version_sites (dbg : bool) (fuel : nat) (cur : N) (root other : ainv) (cmp : option ainv) : list N :=
  match get_version root cur, get_version other cur with
  | Some _, Some _ =>
      (match cmp with
       | Some c => state_sites dbg cur c other true
       | None => state_sites dbg cur root other false
       end)
      ++ (if cur =? 1 then []
          else match fuel with O => [] | S f => version_sites dbg f (cur - 1) root other cmp end)
  | _, _ => [1]
  end.

Fixpoint cross_sites (dbg : bool) (root : ainv) (dirs : list (N * ainv)) (seen : list (N * ainv)) : list N :=
  match dirs with
  | [] => []
  | (num, inv) :: rest =>
      let cmp := if i_alg root =? i_alg inv then Some root else lookup (i_alg inv) seen in
      let seen' := match lookup (i_alg inv) seen with Some _ => seen | None => seen ++ [(i_alg inv, inv)] end in
      version_sites dbg (List.length (i_versions inv)) num root inv cmp ++ cross_sites dbg root rest seen'
  end.

(** [found]: every inventory that parses without error in a version directory below the head,
    whatever its head is; the model applies the head check of validate_inventory itself.
    [obs] = 0: no panic; 1/2/3: the site of the observed panic;
    [obs_e066], [obs_e040]: numbers of E066 / E040 errors reported (compared when nothing panics) *)
Definition check_cross (dbg : bool) (root : ainv) (found : list (N * ainv)) (obs obs_e066 obs_e040 : N) : bool :=
  let dirs := filter head_accepted found in
  let s := cross_sites dbg root dirs [] in
  if obs =? 0 then
    is_nil s && match object_cross_check dbg root found with XOk n => n =? obs_e066 | _ => false end
    && (head_rejected_count found =? obs_e040)
  else existsb (N.eqb obs) s.

Definition cross_summary (dbg : bool) (root : ainv) (found : list (N * ainv)) : list N * N :=
  (cross_sites dbg root (filter head_accepted found) [],
   match object_cross_check dbg root found with XOk n => n | XPanic s => 1000 + site_n s | XFuel => 2000 end).

(** ** classifier front-end for arbitrary mutants (the classes blank-id, version-gap, wide-padding,
    empty-pps-debug, empty-manifest-entry and uri-colon-segment were repaired in /repo: no
    front-end, a failure there is a violation) *)

Definition known_quadratic (slashes len : N) : bool := c17_quadratic_path slashes len.

(** release CLI: only panic / no panic is observed *)
Definition check_visit_panic (items : list item) (obs_panic : bool) : bool :=
  Bool.eqb (match fst (visit items) with PPanicked => true | _ => false end) obs_panic.
Definition check_cross_panic (dbg : bool) (root : ainv) (found : list (N * ainv)) (obs : N) : bool :=
  let s := cross_sites dbg root (filter head_accepted found) [] in
  if obs =? 0 then is_nil s else existsb (N.eqb obs) s.

(** ** the guard of is_uri (serde.rs:1324-1336): W005 for "id", W009 for a user "address" *)

(** the string the visitor hands to is_uri for "id": the value of the first "id" key, when the
    field loop gets there and the value is a string (serde.rs:184-201) *)
Fixpoint id_read (st : pst) (items : list item) : option bytes :=
  match items with
  | [] => None
  | it :: rest =>
      match it, p_id st with
      | IId (SStr s), None => Some s
      | _, _ => match step st it with inl st' => id_read st' rest | inr _ => None end
      end
  end.

(** [obs] = W005 was reported for the root inventory.  Blank or unread id: no W005; an id that
    fails the scheme test: W005; otherwise the third-party parser decides (not modelled) *)
Definition check_w005 (items : list item) (obs : bool) : bool :=
  match id_read p0 items with
  | None => negb obs
  | Some s => if is_nil' s then negb obs else if uri_guard s then true else obs
  end.

(** one value handed to is_uri whose warning (W005 / W009) was observed or not *)
Definition check_uri_warned (s : bytes) (obs : bool) : bool := if uri_guard s then true else obs.
