(** Functions the correspondence check of C07 evaluates (checks/c07.py): the Gallina
    validator on an object listing built by the driver and the same on one inventory
    document. *)
From Rocfl Require Import Base.Bytes Model.Json Model.JsonValue Model.Validate.
Open Scope N_scope.

(** error codes of the object-level validator (verdict = the list is empty) *)
Definition g_object (fx : bool) (root : node) : list ecode := object_errors fx root.

(** both verdicts at once: (with fixity check, without) *)
Definition g_object2 (root : node) : list ecode * list ecode :=
  (object_errors true root, object_errors false root).

(** one inventory given as bytes under a declared version *)
Definition g_inventory (v11 : bool) (s : bytes) : list ecode :=
  inv_errors_bytes (if v11 then V11 else V10) s.

(** does the document parse, and does printing and re-parsing give the same value *)
Definition g_reparse (s : bytes) : bool :=
  match parse_json s with
  | Some j => match parse_json (print_json j) with Some j' => jv_eqb j j' | None => false end
  | None => true
  end.
