(** Boolean comparators evaluated by the correspondence check of C14 (VersionNum). *)
From Rocfl Require Import Base.Bytes Model.VersionNum.
Open Scope N_scope.

Definition res_vnum_eqb (a c : res vnum) : bool :=
  match a, c with
  | Ok x, Ok y => vnum_eqb x y
  | Err, Err => true
  | Panic, Panic => true
  | _, _ => false
  end.

Definition check_next (dbg : bool) (n w : N) (obs : res vnum) : bool :=
  res_vnum_eqb (vnext dbg (mkV n w)) obs.
Definition check_prev (dbg : bool) (n w : N) (obs : res vnum) : bool :=
  res_vnum_eqb (vprev dbg (mkV n w)) obs.
Definition check_parse (s : bytes) (obs : res vnum) : bool :=
  res_vnum_eqb (vparse s) obs.
Definition check_display (n w : N) (obs : bytes) : bool :=
  bytes_eqb (vdisplay (mkV n w)) obs.
(** compact forms for very wide paddings (the literal strings would be tens of thousands of
    characters): the observed string is "v" ++ zeros x '0' ++ digits *)
Definition check_display_padded (n w zeros : N) (digits : bytes) : bool :=
  bytes_eqb (vdisplay (mkV n w)) ("v"%char :: replicate (N.to_nat zeros) "0"%char ++ digits).
Definition check_parse_padded (zeros : N) (digits : bytes) (obs : res vnum) : bool :=
  res_vnum_eqb (vparse ("v"%char :: replicate (N.to_nat zeros) "0"%char ++ digits)) obs.
