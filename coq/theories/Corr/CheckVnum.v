(** Boolean comparators evaluated by the correspondence check of C14 (VersionNum). *)
From Rocfl Require Import Base.Bytes Model.VersionNum Model.Known.
Open Scope N_scope.

Definition res_vnum_eqb (a c : res vnum) : bool :=
  match a, c with
  | Ok x, Ok y => vnum_eqb x y
  | Err, Err => true
  | Panic, Panic => true
  | _, _ => false
  end.

Definition check_next (dbg : bool) (n w : N) (obs : res vnum) : bool :=
  res_vnum_eqb (vnext dbg (mkV n w)) obs.
Definition check_prev (dbg : bool) (n w : N) (obs : res vnum) : bool :=
  res_vnum_eqb (vprev dbg (mkV n w)) obs.
Definition check_parse (s : bytes) (obs : res vnum) : bool :=
  res_vnum_eqb (vparse s) obs.
Definition check_display (n w : N) (obs : bytes) : bool :=
  bytes_eqb (vdisplay (mkV n w)) obs.
Definition known_next (n w : N) : bool := c14_overflow (mkV n w).
