(** Model of the decision logic of the rocfl command line (C20).
    Definitions only; lemmas live in Proofs/CliFacts.v.

    Modelled code (pwinckles/rocfl):
      src/bin/rocfl.rs:10-53      main: process::exit(1) on any Err of exec_command
      src/cmd/mod.rs:34-76        exec_command: configuration, repository construction, dispatch
      src/cmd/mod.rs:268-319      resolve_config / default_values
      src/config/mod.rs:42-60     Config::validate
      src/cmd/cmds.rs             Cmd implementations (options -> OcflRepo calls)
      src/cmd/diff.rs:20-146      log / show / diff
      src/cmd/list.rs:27-223      ls
      src/cmd/validate.rs:20-256  validate (exit statuses 2 / 1 / 0)
      src/cmd/opts.rs             clap definitions: defaults, conflicts_with, requires

    NOT modelled (exercised by the correspondence run only): clap's tokenisation of
    argv, terminal styling, the text that is written to stdout/stderr. *)
From Rocfl Require Import Base.Bytes Generated.Consts.
Open Scope N_scope.

(* ------------------------------------------------------------------ exit statuses *)

(** src/bin/rocfl.rs:51 [process::exit(1)]; the constant is re-read from the source on every run *)
Definition EXIT_MAIN_ERR : N := nth 0 K_MAIN_EXIT_CODES 0.
(** src/cmd/validate.rs:123 and :239  [process::exit(1)] (error_validating) *)
Definition EXIT_VALIDATE_OPERATIONAL : N := nth 0 K_VALIDATE_EXIT_CODES 0.
(** src/cmd/validate.rs:121 and :237  [process::exit(2)] (invalid_count > 0 || storage_errors > 0) *)
Definition EXIT_VALIDATE_INVALID : N := nth 1 K_VALIDATE_EXIT_CODES 0.
(** src/cmd/list.rs:144 and :198 [process::exit(1)] (has_errors) *)
Definition EXIT_LS_ERR : N := 1.
(** clap's usage error (Error::exit -> USAGE_CODE = 2); the command is never executed *)
Definition EXIT_USAGE : N := 2.

(* ------------------------------------------------------------------ results of library calls *)

(** What a Result<_> returned by an OcflRepo method looks like to the command line:
    [ECopyMove n] is RocflError::CopyMoveError with n collected errors (a partial
    failure of cp/mv: some sources were processed, n were not); every other variant
    of RocflError is [EOther]. *)
Inductive lib_err := EOther | ECopyMove (failed : N).
Inductive lib_result := LOk | LErr (e : lib_err).

Definition is_lok (r : lib_result) : bool := match r with LOk => true | LErr _ => false end.

(** The results, in order, of the fallible steps a command performed (library calls and
    the few conversions done with [?] before them).  Every Cmd::exec propagates the first
    Err with [?] up to main (cmds.rs, diff.rs), which prints it - a CopyMoveError line by
    line, rocfl.rs:45-50 - and exits with 1. *)
Definition outcome := list lib_result.

Fixpoint main_exit (o : outcome) : N :=
  match o with
  | [] => 0
  | LOk :: r => main_exit r
  | LErr _ :: _ => EXIT_MAIN_ERR
  end.

(* ------------------------------------------------------------------ validate *)

Inductive level := LvInfo | LvWarn | LvError.
Definition level_eqb (a c : level) : bool :=
  match a, c with LvInfo, LvInfo | LvWarn, LvWarn | LvError, LvError => true | _, _ => false end.

(** A validation result of the library: the codes of its errors and warnings
    (E069 is 69, W005 is 5), in the order reported. *)
Record vresult := mkVR { vr_errors : list N; vr_warnings : list N }.
Definition empty_vr : vresult := mkVR [] [].
(** the incremental validator appends to its hierarchy result while iterating *)
Definition vr_app (a c : vresult) : vresult :=
  mkVR (vr_errors a ++ vr_errors c) (vr_warnings a ++ vr_warnings c).

(** opts.rs ValidateCmd: -p -n -l -w -e *)
Record vflags := mkVF {
  vf_paths : bool;            (* -p: positional parameters are object root paths *)
  vf_no_fixity : bool;        (* -n *)
  vf_level : level;           (* -l, default info *)
  vf_sup_w : list N;          (* -w CODE ... *)
  vf_sup_e : list N           (* -e CODE ... *)
}.

Definition memN (x : N) (l : list N) : bool := existsb (N.eqb x) l.

(** validate.rs:253-260 suppress_errors_warnings: retain(|e| !suppress_error.contains(&e.code)) *)
Definition suppress (f : vflags) (r : vresult) : vresult :=
  mkVR (filter (fun e => negb (memN e (vf_sup_e f))) (vr_errors r))
       (filter (fun w => negb (memN w (vf_sup_w f))) (vr_warnings r)).

Definition has_errors (r : vresult) : bool := match vr_errors r with [] => false | _ => true end.
Definition has_warnings (r : vresult) : bool := match vr_warnings r with [] => false | _ => true end.

(** validate.rs:245-249 should_print *)
Definition should_print (f : vflags) (r : vresult) : bool :=
  has_errors r
  || (has_warnings r && negb (level_eqb (vf_level f) LvError))
  || level_eqb (vf_level f) LvInfo.

(** one positional parameter / one item of the incremental validator:
    Ok(result) or Err(e) *)
Inductive vobj := VRes (r : vresult) | VErr.

Record vstate := mkVS { vs_obj_count : N; vs_invalid : N; vs_err : bool; vs_printed : N }.
Definition vs_init : vstate := mkVS 0 0 false 0.

(** loop body, validate.rs:55-113 (objects) and :160-199 (repository): an Err sets
    error_validating and continues; an Ok result is suppressed first, then counted. *)
Definition vstep (f : vflags) (st : vstate) (o : vobj) : vstate :=
  match o with
  | VErr => mkVS (vs_obj_count st) (vs_invalid st) true (vs_printed st)
  | VRes r =>
      let r' := suppress f r in
      mkVS (vs_obj_count st + 1)
           (if has_errors r' then vs_invalid st + 1 else vs_invalid st)
           (vs_err st)
           (if should_print f r' then vs_printed st + 1 else vs_printed st)
  end.

Definition vloop (f : vflags) (objs : list vobj) (st : vstate) : vstate := fold_left (vstep f) objs st.

(** validate.rs:41-127 validate_objects; exit at :120-124 *)
Definition validate_objects_exit (f : vflags) (objs : list vobj) : N :=
  let st := vloop f objs vs_init in
  if 0 <? vs_invalid st then EXIT_VALIDATE_INVALID
  else if vs_err st then EXIT_VALIDATE_OPERATIONAL
  else 0.

(** number of "Object ... is ..." blocks written to stdout by validate_objects *)
Definition validate_objects_printed (f : vflags) (objs : list vobj) : N :=
  vs_printed (vloop f objs vs_init).

(** What repo.validate_repo(..) hands to the command once it has been iterated to the
    end: the storage root result (available immediately), one item per object found,
    and the hierarchy result accumulated during the iteration. *)
Record repo_results := mkRR { rr_root : vresult; rr_objects : list vobj; rr_hier : vresult }.

(** The storage results as validate_repo holds them when it computes the summary
    (validate.rs:222-223), line by line (the code of /repo after commit 33c0c45). *)
Definition validate_repo_root (f : vflags) (rr : repo_results) : vresult :=
  (* validate.rs:144  self.suppress_errors_warnings(validator.storage_root_result_mut());
     the ROOT result, complete when repo.validate_repo(..) returns (validate/mod.rs:663-697),
     is suppressed in place before it is printed (:146-158) and before it is counted (:222) *)
  suppress f (rr_root rr).

Definition validate_repo_hier (f : vflags) (rr : repo_results) : vresult :=
  (* the HIERARCHY result starts empty (IncrementalValidatorImpl::new, validate/mod.rs:1873:
     StorageValidationResult::new()); the iteration validate.rs:160-199 appends the hierarchy
     problems to it (validate/mod.rs:1953-2005);
     validate.rs:201  self.suppress_errors_warnings(validator.storage_hierarchy_result_mut());
     once, after the iteration *)
  suppress f (vr_app empty_vr (rr_hier rr)).

(** validate.rs:222-223  storage_errors: the "Storage issues:" line of the summary (:232) *)
Definition validate_repo_storage_issues (f : vflags) (rr : repo_results) : N :=
  N.of_nat (List.length (vr_errors (validate_repo_root f rr)))
  + N.of_nat (List.length (vr_errors (validate_repo_hier f rr))).

(** validate.rs:129-243 validate_repo, exit at :236-240 *)
Definition validate_repo_exit (f : vflags) (rr : repo_results) : N :=
  (* :160-199 *)
  let st := vloop f (rr_objects rr) vs_init in
  (* :236-240 *)
  if (0 <? vs_invalid st) || (0 <? validate_repo_storage_issues f rr) then EXIT_VALIDATE_INVALID
  else if vs_err st then EXIT_VALIDATE_OPERATIONAL
  else 0.

(** validate.rs:296-360 Display for DisplayStorageValidationResult: the codes listed in a
    "Storage <location> is ..." block: every error of the result; its warnings unless -l error
    (:334).  [None]: the block is not written (should_print false, validate.rs:146 and :203). *)
Definition storage_block (f : vflags) (r : vresult) : option (list N * list N) :=
  if should_print f r
  then Some (vr_errors r, if level_eqb (vf_level f) LvError then [] else vr_warnings r)
  else None.

(** the "Storage root is ..." block, validate.rs:146-158 (after the suppression of :144) *)
Definition validate_repo_root_block (f : vflags) (rr : repo_results) : option (list N * list N) :=
  storage_block f (validate_repo_root f rr).
(** the "Storage hierarchy is ..." block, validate.rs:203-220 (after the suppression of :201) *)
Definition validate_repo_hier_block (f : vflags) (rr : repo_results) : option (list N * list N) :=
  storage_block f (validate_repo_hier f rr).

(** HISTORICAL NOTE, not the model of /repo: validate_repo before commit 33c0c45.  Line 144 read
    [self.suppress_errors_warnings(validator.storage_hierarchy_result_mut())]: the (still empty)
    hierarchy result was suppressed a first time and the root result never.  Kept only to
    state what the repair changed (Proofs/CliFacts.v, section "before the repair"). *)
Definition validate_repo_exit_before_fix (f : vflags) (rr : repo_results) : N :=
  let hier0 := suppress f empty_vr in
  let root := rr_root rr in
  let st := vloop f (rr_objects rr) vs_init in
  let hier := suppress f (vr_app hier0 (rr_hier rr)) in
  let storage_errors := N.of_nat (List.length (vr_errors root)) + N.of_nat (List.length (vr_errors hier)) in
  if (0 <? vs_invalid st) || (0 <? storage_errors) then EXIT_VALIDATE_INVALID
  else if vs_err st then EXIT_VALIDATE_OPERATIONAL
  else 0.

(** validate.rs:135 [repo.validate_repo(..)?]: an Err of the call itself goes to main *)
Definition validate_repo_cmd_exit (f : vflags) (call : option repo_results) : N :=
  match call with
  | None => EXIT_MAIN_ERR
  | Some rr => validate_repo_exit f rr
  end.

(** number of "Object ... is ..." blocks written by validate_repo *)
Definition validate_repo_printed (f : vflags) (rr : repo_results) : N :=
  vs_printed (vloop f (rr_objects rr) vs_init).

(** The specification the property states: what "invalid after suppression" means. *)
Definition unsuppressed (f : vflags) (r : vresult) : bool :=
  existsb (fun e => negb (memN e (vf_sup_e f))) (vr_errors r).
Definition vobj_invalid (f : vflags) (o : vobj) : bool :=
  match o with VRes r => unsuppressed f r | VErr => false end.
Definition is_verr (o : vobj) : bool := match o with VErr => true | VRes _ => false end.
Definition objects_invalid_after_suppression (f : vflags) (objs : list vobj) : bool :=
  existsb (vobj_invalid f) objs.
Definition repo_invalid_after_suppression (f : vflags) (rr : repo_results) : bool :=
  unsuppressed f (rr_root rr) || objects_invalid_after_suppression f (rr_objects rr)
  || unsuppressed f (rr_hier rr).

(* ------------------------------------------------------------------ ls *)

(** list.rs:43-66, 68-146, 148-200: [list_objects(..)?] then one item per object root
    found; an Err item is logged, skipped and remembered (has_errors -> exit(1) after
    the listing was written).  list.rs:202-233, 301-306: [get_object(..)?], then the glob is
    compiled with [?] (an invalid glob is an Err of the command). *)
Inductive ls_outcome :=
| LsObjects (call : lib_result) (items : list lib_result)
| LsContents (call : lib_result) (glob_ok : bool).

Definition ls_exit (o : ls_outcome) : N :=
  match o with
  | LsObjects (LErr _) _ => EXIT_MAIN_ERR
  | LsObjects LOk items => if forallb is_lok items then 0 else EXIT_LS_ERR
  | LsContents (LErr _) _ => EXIT_MAIN_ERR
  | LsContents LOk glob_ok => if glob_ok then 0 else EXIT_MAIN_ERR
  end.

(** lines of the listing (without header): one per Ok item *)
Definition ls_objects_entries (items : list lib_result) : N :=
  N.of_nat (List.length (filter is_lok items)).

(* ------------------------------------------------------------------ one command, one exit status *)

Inductive cmd_outcome :=
| OPlain (o : outcome)                                   (* every command but ls / validate *)
| OLs (o : ls_outcome)
| OValidateObjects (f : vflags) (objs : list vobj)
| OValidateRepo (f : vflags) (call : option repo_results)
| ONoRepo                                                (* config.validate / create_repo failed, mod.rs:39,49 *)
| OUsage.                                                (* rejected by clap *)

Definition cli_exit (c : cmd_outcome) : N :=
  match c with
  | OPlain o => main_exit o
  | OLs o => ls_exit o
  | OValidateObjects f objs => validate_objects_exit f objs
  | OValidateRepo f call => validate_repo_cmd_exit f call
  | ONoRepo => EXIT_MAIN_ERR
  | OUsage => EXIT_USAGE
  end.

(** "the command succeeded": every library call returned Ok and, for validate, no
    error is left after suppression. *)
Definition ls_success (o : ls_outcome) : bool :=
  match o with
  | LsObjects c items => is_lok c && forallb is_lok items
  | LsContents c g => is_lok c && g
  end.

Definition cmd_success (c : cmd_outcome) : bool :=
  match c with
  | OPlain o => forallb is_lok o
  | OLs o => ls_success o
  | OValidateObjects f objs =>
      negb (objects_invalid_after_suppression f objs) && negb (existsb is_verr objs)
  | OValidateRepo f None => false
  | OValidateRepo f (Some rr) =>
      negb (repo_invalid_after_suppression f rr) && negb (existsb is_verr (rr_objects rr))
  | ONoRepo => false
  | OUsage => false
  end.

(* ------------------------------------------------------------------ options -> library calls *)

Inductive spec_version := Ocfl1_0 | Ocfl1_1.
Inductive digest_alg := Sha256 | Sha512.
Inductive layout_name :=
  LyNone | LyFlatDirect | LyHashedNTuple | LyHashedNTupleObjectId | LyFlatOmitPrefix | LyNTupleOmitPrefix.
Inductive sort_field := FDefault | FName | FVersion | FUpdated | FPhysical | FDigest | FNone.

(** types.rs:448-452 [From<Option<VersionNum>> for VersionRef]; the version text is kept as typed *)
Inductive version_ref := VHead | VNumber (v : bytes).
Definition vref_of (v : option bytes) : version_ref :=
  match v with None => VHead | Some x => VNumber x end.

(** The global options of RocflArgs that decide which repository is opened (opts.rs RocflArgs). *)
Record globals := mkG {
  g_root : option bytes;        (* -r *)
  g_staging : option bytes;     (* -s *)
  g_bucket : option bytes;      (* -b *)
  g_region : option bytes;      (* -R *)
  g_endpoint : option bytes     (* -e *)
}.

(** opts.rs ListCmd *)
Record ls_opts := mkLs {
  ls_logical_dirs : bool;       (* -D *)
  ls_long : bool;               (* -l *)
  ls_physical : bool;           (* -p *)
  ls_digest : bool;             (* -d *)
  ls_header : bool;             (* -H *)
  ls_tsv : bool;                (* -t *)
  ls_staged : bool;             (* -S, conflicts_with version *)
  ls_version : option bytes;    (* -v *)
  ls_sort : option sort_field;  (* -s, default_value "default" *)
  ls_reverse : bool;            (* -r *)
  ls_objects : bool             (* -o *)
}.

(** What the user typed: one constructor per sub-command; [None] = option absent, so
    that the defaults of opts.rs are part of the model.  Positional parameters last. *)
Inductive subcmd :=
| SInit (v : option spec_version) (c : option bytes) (l : option layout_name)
| SNew (v : option spec_version) (d : option digest_alg) (c : option bytes) (z : option N) (id : bytes)
| SCp (r i : bool) (v : option bytes) (id : bytes) (src : list bytes) (dst : bytes)
| SMv (i : bool) (id : bytes) (src : list bytes) (dst : bytes)
| SRm (r : bool) (id : bytes) (paths : list bytes)
| SReset (r : bool) (id : bytes) (paths : list bytes)
| SCommit (p : bool) (n a m c r : option bytes) (id : bytes)
| SUpgrade (v : spec_version) (p : bool) (n a m c : option bytes) (id : option bytes)
| SPurge (f : bool) (answer_yes : bool) (id : bytes)      (* answer_yes: the line read from stdin is "y" *)
| SLs (o : ls_opts) (id path : option bytes)
| SCat (s : bool) (v : option bytes) (id path : bytes)
| SLog (c h t r : bool) (n : option N) (id : bytes) (path : option bytes)
| SShow (s m : bool) (id : bytes) (v : option bytes)
| SDiff (id left right : bytes)
| SStatus (id : option bytes)
| SValidate (p n : bool) (l : option level) (w e : list N) (ids : list bytes)
| SInfo (s : bool) (id : option bytes)
| SConfig.

(** right-hand version of a diff: given by the user, or the version number found in the
    object details fetched by the preceding call (show, diff.rs:125-127) *)
Inductive diff_right := RGiven (v : bytes) | RFromDetails.

(** The calls on OcflRepo (src/ocfl/repo.rs) the command line makes, with their parameters. *)
Inductive lib_call :=
| InitFsRepo (root : bytes) (staging : option bytes) (spec : spec_version) (layout : layout_name) (layout_config : option bytes)
| CreateObject (id : bytes) (spec : option spec_version) (alg : digest_alg) (content_dir : bytes) (padding : N)
| CopyFilesInternal (id : bytes) (v : version_ref) (src : list bytes) (dst : bytes) (recursive : bool)
| CopyFilesExternal (id : bytes) (src : list bytes) (dst : bytes) (recursive : bool)
| MoveFilesInternal (id : bytes) (src : list bytes) (dst : bytes)
| MoveFilesExternal (id : bytes) (src : list bytes) (dst : bytes)
| RemoveFiles (id : bytes) (paths : list bytes) (recursive : bool)
| ResetFiles (id : bytes) (paths : list bytes) (recursive : bool)
| ResetAll (id : bytes)
| CommitMetaWithUser (name address : option bytes)        (* CommitMeta::with_user(..)? : fallible *)
| Commit (id : bytes) (name address message created : option bytes) (object_root : option bytes) (pretty : bool)
| UpgradeObject (id : bytes) (spec : spec_version) (name address message created : option bytes) (pretty : bool)
| UpgradeRepo (spec : spec_version)
| PurgeObject (id : bytes)
| ListObjects (glob : option bytes)
| ListStagedObjects (glob : option bytes)
| GetObject (id : bytes) (v : version_ref)
| GetStagedObject (id : bytes)
| LogicalPathTryFrom (path : bytes)                       (* [path.try_into()?] before the call *)
| GetObjectFile (id path : bytes) (v : version_ref)
| GetStagedObjectFile (id path : bytes)
| ListFileVersions (id path : bytes)
| ListObjectVersions (id : bytes)
| GetObjectDetails (id : bytes) (v : version_ref)
| GetStagedObjectDetails (id : bytes)
| DiffVersions (id : bytes) (left : option bytes) (right : diff_right)
| DiffStaged (id : bytes)
| ValidateObject (id : bytes) (fixity : bool)
| ValidateObjectAt (path : bytes) (fixity : bool)
| ValidateRepo (fixity : bool)
| DescribeRepo
| DescribeObject (id : bytes)
| DescribeStagedObject (id : bytes)
| EditConfig.

Definition dflt {A} (d : A) (o : option A) : A := match o with Some x => x | None => d end.
Definition is_some {A} (o : option A) : bool := match o with Some _ => true | None => false end.
Definition is_nil {A} (l : list A) : bool := match l with [] => true | _ => false end.

(** How the repository is constructed from the global options with an empty
    configuration file: mod.rs:268-319 resolve_config + default_values, config/mod.rs:42-60
    validate, mod.rs:159-175 create_repo. *)
Inductive repo_ctor :=
| FsRepo (root : bytes) (staging : option bytes)     (* OcflRepo::fs_repo(root, staging) *)
| S3Repo                                             (* bucket given: out of scope here (C15/C16) *)
| ConfigInvalid.                                     (* Config::validate refuses: exit 1, no library call *)

Definition repo_of_globals (g : globals) : repo_ctor :=
  if is_some (g_bucket g) then
    (if is_some (g_region g) then S3Repo else ConfigInvalid)       (* config/mod.rs:43-48 *)
  else if is_some (g_region g) || is_some (g_endpoint g) then ConfigInvalid   (* :49-55 *)
  else FsRepo (dflt (b ".") (g_root g)) (g_staging g).             (* mod.rs:314-316: root "." *)

(** clap's declared constraints (opts.rs): conflicts_with, requires, required = true.
    A command line violating them is rejected with a usage error before anything runs. *)
Definition clap_accepts (s : subcmd) : bool :=
  match s with
  | SCp r i v id src dst => (negb (is_some v) || i) && negb (is_nil src)     (* opts.rs:470 requires="internal"; :478 required *)
  | SMv i id src dst => negb (is_nil src)                                    (* opts.rs:502 *)
  | SRm r id paths => negb (is_nil paths)                                    (* opts.rs:529 *)
  | SLs o id path => negb (ls_staged o && is_some (ls_version o))            (* opts.rs:183 conflicts_with="version" *)
  | SCat s v id path => negb (s && is_some v)                                (* opts.rs:290 *)
  | SShow s m id v => negb (s && is_some v)                                  (* opts.rs:254 *)
  | _ => true
  end.

(** the fixity flag handed to the validator: [!self.no_fixity_check] *)
Definition fixity_of (n : bool) : bool := negb n.

(** Cmd::exec of every sub-command: the sequence of fallible library calls made when
    every one of them succeeds (the first Err ends the command).  [root]/[staging] are
    the resolved repository location (only init uses them here; all other commands
    work on the repository opened by create_repo). *)
Definition calls_of (root : bytes) (staging : option bytes) (s : subcmd) : list lib_call :=
  match s with
  (* mod.rs:125-157 init_repo; opts.rs:312-340: default spec 1.1, default layout 0004 *)
  | SInit v c l => [InitFsRepo root staging (dflt Ocfl1_1 v) (dflt LyHashedNTuple l) c]
  (* cmds.rs:68-88; opts.rs:393-432: default sha512, content dir "content", padding 0 *)
  | SNew v d c z id => [CreateObject id v (dflt Sha512 d) (dflt (b "content") c) (dflt 0 z)]
  (* cmds.rs:90-115 *)
  | SCp r i v id src dst =>
      if i then [CopyFilesInternal id (vref_of v) src dst r]
      else [CopyFilesExternal id src dst r]
  (* cmds.rs:117-131 *)
  | SMv i id src dst => if i then [MoveFilesInternal id src dst] else [MoveFilesExternal id src dst]
  (* cmds.rs:133-143 *)
  | SRm r id paths => [RemoveFiles id paths r]
  (* cmds.rs:145-159 *)
  | SReset r id paths => if is_nil paths then [ResetAll id] else [ResetFiles id paths r]
  (* cmds.rs:161-182; author name/address come from -n/-a (mod.rs:288-304) *)
  | SCommit p n a m c r id => [CommitMetaWithUser n a; Commit id n a m c r p]
  (* cmds.rs:184-212 *)
  | SUpgrade v p n a m c None => [UpgradeRepo v]
  | SUpgrade v p n a m c (Some id) => [CommitMetaWithUser n a; UpgradeObject id v n a m c p]
  (* cmds.rs:252-279: without -f a line is read from stdin; anything but "y" aborts with Ok *)
  | SPurge f yes id => if f || yes then [PurgeObject id] else []
  (* list.rs:27-41, 43-53, 202-213 *)
  | SLs o id path =>
      if ls_objects o || negb (is_some id) then
        [if ls_staged o then ListStagedObjects id else ListObjects id]
      else
        [if ls_staged o then GetStagedObject (dflt [] id) else GetObject (dflt [] id) (vref_of (ls_version o))]
  (* cmds.rs:17-40 *)
  | SCat s v id path =>
      if s then [LogicalPathTryFrom path; GetStagedObjectFile id path]
      else [LogicalPathTryFrom path; GetObjectFile id path (vref_of v)]
  (* diff.rs:22-43 *)
  | SLog c h t r n id None => [ListObjectVersions id]
  | SLog c h t r n id (Some path) => [LogicalPathTryFrom path; ListFileVersions id path]
  (* diff.rs:84-132 *)
  | SShow s m id v =>
      if s then (if m then [] else [GetStagedObjectDetails id]) ++ [DiffStaged id]
      else [GetObjectDetails id (vref_of v); DiffVersions id None RFromDetails]
  (* diff.rs:134-150: equal versions return Ok without touching the repository *)
  | SDiff id l r => if bytes_eqb l r then [] else [DiffVersions id (Some l) (RGiven r)]
  (* cmds.rs:214-250: status = show -S <id>  /  ls -S -l -H -s name *)
  | SStatus (Some id) => [GetStagedObjectDetails id; DiffStaged id]
  | SStatus None => [ListStagedObjects None]
  (* validate.rs:20-39, 55-78, 135 *)
  | SValidate p n l w e ids =>
      if is_nil ids then [ValidateRepo (fixity_of n)]
      else map (fun x => if p then ValidateObjectAt x (fixity_of n) else ValidateObject x (fixity_of n)) ids
  (* cmds.rs:281-358 *)
  | SInfo s None => [DescribeRepo]
  | SInfo s (Some id) => if s then [DescribeStagedObject id] else [DescribeObject id]
  (* mod.rs:46-47 *)
  | SConfig => [EditConfig]
  end.

(** Outcome of parsing + dispatch. *)
Inductive dispatch :=
| Rejected                                   (* clap usage error, exit 2 *)
| NoRepo                                     (* configuration refused, exit 1 *)
| OutOfScope                                 (* S3 *)
| Calls (open_repo : bool) (root : bytes) (staging : option bytes) (calls : list lib_call).

(** mod.rs:32-76 exec_command: init and config do not open a repository; every other
    sub-command first opens it with OcflRepo::fs_repo(root, staging). *)
Definition argv_to_call (g : globals) (s : subcmd) : dispatch :=
  if negb (clap_accepts s) then Rejected
  else match repo_of_globals g with
       | ConfigInvalid => NoRepo
       | S3Repo => OutOfScope
       | FsRepo root staging =>
           match s with
           | SInit _ _ _ | SConfig => Calls false root staging (calls_of root staging s)
           | _ => Calls true root staging (calls_of root staging s)
           end
       end.

(** flags record handed to the exit-status model for a validate invocation; default level info *)
Definition vflags_of (p n : bool) (l : option level) (w e : list N) : vflags :=
  mkVF p n (dflt LvInfo l) w e.

(** The sub-commands that may legitimately make no library call at all. *)
Definition no_call_cmd (s : subcmd) : bool :=
  match s with
  | SPurge f yes _ => negb (f || yes)
  | SDiff _ l r => bytes_eqb l r
  | _ => false
  end.
