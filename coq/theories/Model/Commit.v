(** C04 / C05 - the commit protocol of rocfl on a local file system as monadic programs over
    Model/FsTree.v, transcribed from /repo/src/ocfl/{repo.rs, store/fs.rs, lock.rs, util.rs}
    (line numbers of the current tree are cited at each definition).  Definitions only.

    The monad is state + error with three injectable events, each tied to a position in the
    sequence of file-system calls ("steps") the process issues:

      Fault n   the (n+1)-th step is not executed and fails with an I/O error (EIO/ENOSPC/EACCES);
                every later step works (single-fault sequences)
      Kill n    the process dies on entering the (n+1)-th step: nothing after it happens, no
                error handler, no Drop runs
      Stop n    a stop request (ctrl-c -> OcflRepo::close, repo.rs:153-157) arrives on entering the
                (n+1)-th step: the call is executed, the repository and its MAIN store are closed

    A step is one system call of the counted set of vplib/strace.py: mkdir (effective or a failing
    probe of create_dir_all), open O_CREAT|O_EXCL, open O_TRUNC, fchmod / first data write / final
    zero-length copy_file_range of fs::copy, rename, unlink, rmdir.  A file is written in two
    steps (truncate, then the data), so that a kill or a fault in between leaves [CPartial].
    Every effective mutating step appends its [FsOps.fsop] to the trace; every issued step is
    appended to the log (used to align model positions with the calls of the real process). *)
From Coq Require Import List NArith Ascii Bool.
From Rocfl Require Import Base.Bytes Model.FsOps Model.FsTree.
Import ListNotations.

Inductive cerr : Type :=
| EFs (e : fserr)      (* the OS refused a call *)
| EInjected            (* the injected I/O error *)
| ELock                (* RocflError::LockAcquire *)
| EIllegal             (* IllegalState / IllegalOperation: a precondition check failed *)
| ECorrupt             (* an inventory that cannot be parsed *)
| ENotFound            (* RocflError::NotFound *)
| ENoStaged            (* "No staged changes found for object" *)
| EClosed              (* RocflError::Closed *)
| EGeneral.            (* write_new_version's "Failed to create new version" after its rollback;
                          purge_object's CorruptObject "Failed to purge object" *)

Inductive out (A : Type) : Type :=
| ROk (a : A)
| RErr (e : cerr)
| RKilled.
Arguments ROk {A} a.
Arguments RErr {A} e.
Arguments RKilled {A}.

Inductive inj : Type := NoInj | Fault (n : nat) | Kill (n : nat) | Stop (n : nat).

Inductive stepk : Type :=
| SMkdir (p : fpath)                  (* mkdir: effective, or a probe failing with EEXIST / ENOENT *)
| SCreateNew (p : fpath) (c : content)
| STrunc (p : fpath)
| SChmod (p : fpath)                  (* fchmod on the descriptor fs::copy just opened *)
| SWrite (p : fpath) (c : content)    (* all data-carrying writes on the descriptor, collapsed *)
| STail (p : fpath)                   (* the copy_file_range that returns 0 and ends fs::copy *)
| SRename (a c : fpath)
| SUnlink (p : fpath)
| SRmdir (p : fpath).

Record world : Type := mkW {
  w_tree : tree;
  w_inj : inj;
  w_closed : bool;                    (* OcflRepo.closed / the main store's closed flag *)
  w_trace : list fsop;                (* effective mutating operations, in order *)
  w_log : list stepk;                 (* every step issued, in order *)
  w_fired : option stepk              (* the call that was failed by the injected fault *)
}.

Definition M (A : Type) : Type := world -> out A * world.

Definition ret {A} (a : A) : M A := fun w => (ROk a, w).
Definition throw {A} (e : cerr) : M A := fun w => (RErr e, w).

Definition bind {A B} (m : M A) (f : A -> M B) : M B := fun w =>
  match m w with
  | (ROk a, w') => f a w'
  | (RErr e, w') => (RErr e, w')
  | (RKilled, w') => (RKilled, w')
  end.

Definition andthen {A B} (m : M A) (k : M B) : M B := bind m (fun _ => k).

Notation "'do' x <- m ;; k" := (bind m (fun x => k)) (at level 200, x name, m at level 99, k at level 200).
Notation "m ;; k" := (andthen m k) (at level 100, right associativity).

(** `match m { Err(e) => h(e), ok => ok }`; a kill is not an error *)
Definition catch {A} (m : M A) (h : cerr -> M A) : M A := fun w =>
  match m w with
  | (RErr e, w') => h e w'
  | r => r
  end.

Definition get_tree : M tree := fun w => (ROk (w_tree w), w).
Definition get_closed : M bool := fun w => (ROk (w_closed w), w).

(** run m; an error becomes a value (`if let Err(e) = ...`); a kill stays a kill *)
Definition attempt {A} (m : M A) : M (option cerr) :=
  catch (bind m (fun _ => ret None)) (fun e => ret (Some e)).

(** `let _guard = ...; body`: fin runs when body returned (Ok or Err) - not when the process died;
    the outcome of fin is dropped (Drop cannot fail the caller) *)
Definition finally {A} (m : M A) (fin : M unit) : M A :=
  catch (do a <- m ;; attempt fin ;; ret a) (fun e => attempt fin ;; throw e).

Fixpoint forM_ {A} (l : list A) (f : A -> M unit) : M unit :=
  match l with
  | [] => ret tt
  | x :: l' => f x ;; forM_ l' f
  end.

Definition tick (i : inj) : inj :=
  match i with
  | Fault (S n) => Fault n
  | Kill (S n) => Kill n
  | Stop (S n) => Stop n
  | _ => NoInj
  end.

Definition apply_step (s : stepk) (t : tree) : fsres :=
  match s with
  | SMkdir p => fs_mkdir t p
  | SCreateNew p c => fs_create_new t p c
  | STrunc p => fs_trunc t p
  | SChmod _ => FOk t
  | SWrite p c => fs_finish t p c
  | STail _ => FOk t
  | SRename a c => fs_rename t a c
  | SUnlink p => fs_unlink t p
  | SRmdir p => fs_rmdir t p
  end.

Definition op_of (s : stepk) : list fsop :=
  match s with
  | SMkdir p => [Mkdir p]
  | SCreateNew p _ => [CreateNew p]
  | STrunc p => [Create p]
  | SRename a c => [Rename a c]
  | SUnlink p => [Unlink p]
  | SRmdir p => [Rmdir p]
  | SChmod _ | SWrite _ _ | STail _ => []
  end.

(** one system call *)
Definition step (s : stepk) : M unit := fun w =>
  match w_inj w with
  | Kill O => (RKilled, w)
  | Fault O => (RErr EInjected, mkW (w_tree w) NoInj (w_closed w) (w_trace w) (w_log w ++ [s]) (Some s))
  | i =>
    let cl := match i with Stop O => true | _ => w_closed w end in
    match apply_step s (w_tree w) with
    | FOk t' => (ROk tt, mkW t' (tick i) cl (w_trace w ++ op_of s) (w_log w ++ [s]) (w_fired w))
    | FErr e => (RErr (EFs e), mkW (w_tree w) (tick i) cl (w_trace w) (w_log w ++ [s]) (w_fired w))
    end
  end.

(** * library and utility functions *)

(** std::fs::create_dir_all (DirBuilder::create_dir_all of the toolchain that builds rocfl, library/std/src/fs.rs):
    walk from the path upwards calling mkdir until one call succeeds or finds an existing directory
    (only AlreadyExists is forgiven, and only for a directory), counting the NotFound answers; then
    mkdir the uncreated directories top-down.  [rp] is the reversed path. *)
Fixpoint cda_up (rp : list fseg) : M nat :=
  match rp with
  | [] => ret O
  | _ :: rpar =>
    let p := rev rp in
    do r <- attempt (step (SMkdir p)) ;;
    match r with
    | None => ret O
    | Some (EFs ENOENT) => do n <- cda_up rpar ;; ret (S n)
    | Some (EFs EEXIST) => do t <- get_tree ;; if is_dir t p then ret O else throw (EFs EEXIST)
    | Some e => throw e
    end
  end.
Fixpoint cda_down (rp : list fseg) (n : nat) : M unit :=
  match n, rp with
  | S n', _ :: rpar =>
    cda_down rpar n' ;;
    (do r <- attempt (step (SMkdir (rev rp))) ;;
     match r with
     | None => ret tt
     | Some (EFs EEXIST) => do t <- get_tree ;; if is_dir t (rev rp) then ret tt else throw (EFs EEXIST)
     | Some e => throw e
     end)
  | _, _ => ret tt
  end.
Definition create_dir_all (p : fpath) : M unit :=
  do n <- cda_up (rev p) ;; cda_down (rev p) n.

(** util.rs:14-23 clean_dirs_up: while dir_is_empty(current)? { remove_dir(current)?; current = parent } *)
Fixpoint cdu_rev (rp : list fseg) : M unit :=
  match rp with
  | [] => ret tt
  | _ :: rpar =>
    let p := rev rp in
    do t <- get_tree ;;
    if negb (is_dir t p) then throw (EFs ENOENT)              (* read_dir fails *)
    else if has_children t p then ret tt
    else step (SRmdir p) ;; cdu_rev rpar
  end.
Definition clean_dirs_up (p : fpath) : M unit := cdu_rev (rev p).

(** util.rs:25-36 clean_dirs_down: WalkDir(start).contents_first(true); every directory that is empty when
    it is reached (its contents were visited before it) is removed - the start directory included, never
    anything above it *)
Fixpoint cdd (fuel : nat) (p : fpath) : M unit :=
  (match fuel with
   | O => ret tt
   | S f =>
     do t <- get_tree ;;
     forM_ (children t p) (fun e => match snd e with Dir => cdd f (fst e) | File _ => ret tt end)
   end) ;;
  do t2 <- get_tree ;;
  if has_children t2 p then ret tt else step (SRmdir p).
Definition clean_dirs_down (p : fpath) : M unit :=
  do t <- get_tree ;; cdd (List.length t) p.

(** util.rs:39-46 remove_file_ignore_not_found *)
Definition remove_file_inf (p : fpath) : M unit :=
  do r <- attempt (step (SUnlink p)) ;;
  match r with
  | None | Some (EFs ENOENT) => ret tt
  | Some e => throw e
  end.

(** File::create(p) + write(s) (stage_inventory fs.rs:848-861; fs::write in the rollback fs.rs:455-456) *)
Definition write_file (p : fpath) (c : content) : M unit :=
  step (STrunc p) ;; step (SWrite p c).

(** std::fs::copy on Linux: open(from), open(to, O_TRUNC), fchmod, copy_file_range until it returns 0 *)
Definition copy_file (from to : fpath) : M unit :=
  do t <- get_tree ;;
  match read_file t from with
  | None => throw (EFs ENOENT)
  | Some c => step (STrunc to) ;; step (SChmod to) ;; step (SWrite to c) ;; step (STail to)
  end.

(** fs.rs:1381-1391 write_object_namaste: create_new(true) + write! *)
Definition write_namaste (dir : fpath) (spec : fseg) : M unit :=
  step (SCreateNew (dir ++ [spec]) CPartial) ;; step (SWrite (dir ++ [spec]) (CDecl spec)).

(** std::fs::remove_dir_all: read the directory, remove every entry (recursively for directories),
    then rmdir the directory itself *)
Fixpoint rm_all (fuel : nat) (p : fpath) : M unit :=
  match fuel with
  | O => step (SRmdir p)
  | S f =>
    do t <- get_tree ;;
    forM_ (children t p)
          (fun e => match snd e with Dir => rm_all f (fst e) | File _ => step (SUnlink (fst e)) end) ;;
    step (SRmdir p)
  end.
Definition remove_dir_all (p : fpath) : M unit :=
  do t <- get_tree ;; rm_all (List.length t) p.

Definition decl_prefix : fseg := b "0=ocfl_object_".
Definition is_decl_name (s : fseg) : bool :=
  starts_with decl_prefix s && negb (Nat.eqb (List.length s) (List.length decl_prefix)).

(** * configuration of one commit *)

Record cfg : Type := mkCfg {
  c_locks : fpath;     (* <staging root>/extensions/rocfl-locks *)
  c_lock : fseg;       (* <sha256(object id)>.lock, lock.rs:33-34 *)
  c_so : fpath;        (* root of the staged object (staging layout is always 0004, repo.rs:1419-1422) *)
  c_mo : fpath;        (* root of the object in the main repository (layout path or --object-root) *)
  c_inv : fseg;        (* inventory.json *)
  c_side : fseg;       (* inventory.json.<digestAlgorithm> *)
  c_cdir : fseg;       (* the object's content directory *)
  c_newk : N;          (* identity of the inventory bytes commit_inner serialises (dedup_head and update_meta applied) *)
  c_midk : N;          (* ... of the inventory upgrade_object stages before it calls commit_inner *)
  c_freshk : N;        (* ... of the inventory stage_object writes for an object without staged version *)
  c_vnext : fseg;      (* the version directory name create_staging_head adds (head + 1) *)
  c_target : fseg      (* upgrade: declaration file name of the requested spec version *)
}.

Record invr : Type := mkInv { i_k : N; i_vs : list fseg; i_spec : fseg; i_man : list fpath; i_dups : list fpath }.
Definition tok_of (i : invr) : content := CInv (i_k i) (i_vs i) (i_spec i) (i_man i) (i_dups i).
Definition head_of (i : invr) : fseg := last (i_vs i) [].
(** Inventory::is_new: the head is version 1 *)
Definition inv_is_new (i : invr) : bool := match i_vs i with [_] => true | _ => false end.

Definition mem_path (p : fpath) (l : list fpath) : bool := existsb (path_eqb p) l.
Definition minus_paths (l r : list fpath) : list fpath := filter (fun p => negb (mem_path p r)) l.

(** the inventory commit_inner writes: Inventory::dedup_head (repo.rs:1052) drops the duplicates from
    the manifest, update_meta stamps the version *)
Definition committed_inv (c : cfg) (i : invr) : invr :=
  mkInv (c_newk c) (i_vs i) (i_spec i) (minus_paths (i_man i) (i_dups i)) [].


(** fs.rs:1407-1414 find_files(dir, OBJECT_NAMASTE_FILE_PREFIX): full paths *)
Definition find_decls (t : tree) (dir : fpath) : list fpath :=
  map fst (filter (fun e => is_decl_name (last (fst e) [])) (children t dir)).

(** is_object_root (fs.rs): some regular file in the directory starts with 0=ocfl_object_ *)
Definition is_object_rootb (t : tree) (p : fpath) : bool :=
  existsb (fun e => match snd e with File _ => starts_with decl_prefix (last (fst e) []) | Dir => false end)
          (children t p).

(** fs.rs:232-264 get_inventory -> get_inventory_by_path -> parse_inventory (the sidecar is not consulted).  Since
    01aa490 the path holds an object only if it is a directory with a 0=ocfl_object_* file or an inventory file:
    an empty directory (left by a fault while the staged object was being created) is NotFound *)
Definition get_inventory (c : cfg) (root : fpath) : M invr :=
  do t <- get_tree ;;
  if negb (is_dir t root && (is_object_rootb t root || exists_at t (root ++ [c_inv c]))) then throw ENotFound
  else match read_file t (root ++ [c_inv c]) with
       | Some (CInv k vs sp man dups) => ret (mkInv k vs sp man dups)
       | _ => throw ECorrupt
       end.

Definition ensure_open : M unit :=
  do cl <- get_closed ;; if cl then throw EClosed else ret tt.

(** fs.rs:245-264 copy_inventory_files *)
Definition copy_inventory_files (c : cfg) (from to : fpath) : M unit :=
  copy_file (from ++ [c_inv c]) (to ++ [c_inv c]) ;;
  copy_file (from ++ [c_side c]) (to ++ [c_side c]).

(** fs.rs:838-870 stage_inventory *)
Definition stage_inventory (c : cfg) (i : invr) (finalize : bool) : M unit :=
  write_file (c_so c ++ [c_inv c]) (tok_of i) ;;
  write_file (c_so c ++ [c_side c]) (CSide (i_k i)) ;;
  if finalize then
    create_dir_all (c_so c ++ [head_of i]) ;;
    copy_inventory_files c (c_so c) (c_so c ++ [head_of i])
  else ret tt.

(** fs.rs:794-805 rm_staged_files *)
Definition rm_staged_files (c : cfg) (paths : list fpath) : M unit :=
  forM_ paths (fun d =>
    remove_file_inf (c_so c ++ d) ;; clean_dirs_up (parent (c_so c ++ d))).

(** regular files below dir, in list order (the files WalkDir yields) *)
Definition files_below (t : tree) (dir : fpath) : list fpath :=
  map fst (filter (fun e => below dir (fst e) && match snd e with File _ => true | Dir => false end) t).

(** fs.rs:849-881 rm_orphaned_files: files of the head content directory that are not in the manifest; then
    (9d3a720, fs.rs:874-877) the empty directories an earlier failed attempt may have left.  Since a04a002 the
    existence / file tests use util::metadata_if_exists (util.rs:50-56): only NotFound means absent, any other
    failure of the stat aborts the commit (reads are not numbered as fault positions of their own here: see
    Corr.CheckCommit.ORead) *)
Definition rm_orphaned_files (c : cfg) (i : invr) : M unit :=
  let cd := c_so c ++ [head_of i; c_cdir c] in
  do t <- get_tree ;;
  if exists_at t cd then
    forM_ (filter (fun f => negb (mem_path (skipn (List.length (c_so c)) f) (i_man i))) (files_below t cd))
          (fun f => remove_file_inf f ;; clean_dirs_up (parent f)) ;;
    do t2 <- get_tree ;;
    if exists_at t2 cd then clean_dirs_down cd else ret tt
  else ret tt.

(** fs.rs:361-403 write_new_object (validate_new_object_root, 158-194, only reads) *)
Definition write_new_object (c : cfg) : M unit :=
  ensure_open ;;
  do t <- get_tree ;;
  if exists_at t (c_mo c) then throw EIllegal
  else create_dir_all (parent (c_mo c)) ;; step (SRename (c_so c) (c_mo c)).

(** fs.rs:426-539 write_new_version, with the rollbacks of 0c48950 and f6ecfaf: everything after the rename of the
    version directory - the two inventory copies and, for an upgrade, the creation of the new declaration and the
    removal of the old ones (listed BEFORE the rename, fs.rs:489-492) - is one protected closure; when it fails
    the new declaration is removed, the saved root inventory and sidecar are written back and the version
    directory is renamed back.  (The comparison of the earlier versions, fs.rs:446-459, only reads.) *)
Definition write_new_version (c : cfg) (i : invr) : M unit :=
  ensure_open ;;
  if inv_is_new i then throw EIllegal else
  ensure_open ;;
  do ex <- get_inventory c (c_mo c) ;;                                    (* fs.rs:436 *)
  if negb (seg_eqb (head_of ex) (last (removelast (i_vs i)) [])) then throw EIllegal     (* fs.rs:439 *)
  else
  let dest := c_mo c ++ [head_of i] in
  let src := c_so c ++ [head_of i] in
  do t <- get_tree ;;
  if exists_at t dest then throw EIllegal else                             (* fs.rs:464 *)
  match read_file t (c_mo c ++ [c_inv c]), read_file t (c_mo c ++ [c_side c]) with   (* fs.rs:480-481 *)
  | Some old_inv, Some old_side =>
    let upgrade := negb (seg_eqb (i_spec i) (i_spec ex)) in                (* fs.rs:484-488 *)
    let old := if upgrade then find_decls t (c_mo c) else [] in            (* fs.rs:489-492 *)
    step (SRename src dest) ;;                                             (* fs.rs:494 *)
    (do r <- attempt (copy_inventory_files c dest (c_mo c) ;;              (* fs.rs:496-507 *)
                      (if upgrade then write_namaste (c_mo c) (i_spec i) ;; forM_ old remove_file_inf else ret tt)) ;;
     match r with
     | Some _ =>
       attempt (if upgrade then remove_file_inf (c_mo c ++ [i_spec i]) else ret tt) ;;                  (* fs.rs:510-518 *)
       attempt (write_file (c_mo c ++ [c_inv c]) old_inv ;; write_file (c_mo c ++ [c_side c]) old_side) ;;  (* 519-524 *)
       attempt (step (SRename dest src)) ;;                                 (* fs.rs:525-528 *)
       throw EGeneral                                                       (* fs.rs:530 *)
     | None => ret tt
     end)
  | _, _ => throw (EFs ENOENT)
  end.

(** fs.rs:1139-1147 contains_object_root: WalkDir min_depth(2) finds a regular file named 0=ocfl_object_* *)
Definition contains_object_rootb (t : tree) (p : fpath) : bool :=
  existsb (fun e => below p (fst e) && Nat.leb (2 + List.length p) (List.length (fst e))
                    && match snd e with File _ => starts_with decl_prefix (last (fst e) []) | Dir => false end) t.

(** fs.rs:499-561 purge_object of the STAGING store (its own closed flag is never set): the layout
    gives the root (validate_object_root only reads and accepts a hashed path); an existing path is
    left alone when it is not a directory (516) or when it holds no declaration but some directory
    beneath it does (526, 11ac34d); the id comparison of 520-525 needs a parseable inventory of
    another object; remove_dir_all failing -> CorruptObject; a failing clean_dirs_up is only logged *)
Definition purge_staged (c : cfg) : M unit :=
  do t <- get_tree ;;
  if exists_at t (c_so c)
     && (negb (is_dir t (c_so c)) || (negb (is_object_rootb t (c_so c)) && contains_object_rootb t (c_so c)))
  then ret tt
  else
  (if exists_at t (c_so c) then
     do r <- attempt (remove_dir_all (c_so c)) ;;
     match r with None => ret tt | Some _ => throw EGeneral end
   else ret tt) ;;
  do t2 <- get_tree ;;
  if exists_at t2 (parent (c_so c)) then attempt (clean_dirs_up (parent (c_so c))) ;; ret tt
  else ret tt.

(** repo.rs:1033-1084 commit_inner, in three named parts: the preparation inside the staged object,
    the installation into the main repository, the removal of the staged object *)
Definition prep (c : cfg) : M invr :=
  do i0 <- catch (get_inventory c (c_so c))                                 (* repo.rs:1041-1050 *)
                 (fun e => match e with ENotFound => throw ENoStaged | _ => throw e end) ;;
  let i := committed_inv c i0 in                                            (* repo.rs:1052-1056 *)
  stage_inventory c i true ;;                                               (* repo.rs:1058 *)
  rm_staged_files c (i_dups i0) ;;                                          (* repo.rs:1059-1065 *)
  rm_orphaned_files c i ;;                                                  (* repo.rs:1066 *)
  ret i.

(** fs.rs:711-736 stage_object_declaration (82abd15, 9f4b67d): the declaration the inventory requires is read;
    unless it is there with exactly its content it is removed and written again; then every other
    0=ocfl_object_* file is removed - idempotent on every intermediate state of itself *)
Definition stage_object_declaration (c : cfg) (i : invr) : M unit :=
  do t <- get_tree ;;
  let old := find_decls t (c_so c) in                                       (* fs.rs:716 *)
  let ep := c_so c ++ [i_spec i] in
  let complete := match read_file t ep with Some (CDecl s) => seg_eqb s (i_spec i) | _ => false end in   (* 721-722 *)
  (if complete then ret tt
   else remove_file_inf ep ;; write_namaste (c_so c) (i_spec i)) ;;         (* fs.rs:724-727 *)
  forM_ (filter (fun q => negb (path_eqb q ep)) old) remove_file_inf.       (* fs.rs:729-733 *)

Definition install (c : cfg) (i : invr) : M unit :=                         (* repo.rs:1075-1088 *)
  if inv_is_new i then
    stage_object_declaration c i ;;                                         (* repo.rs:1079 (7857f07) *)
    write_new_object c
  else write_new_version c i.

Definition mid (c : cfg) (i : invr) : M unit :=
  do cl <- get_closed ;;                                                    (* repo.rs:1069 "last chance" *)
  if cl then ret tt
  else install c i ;; purge_staged c.                                       (* repo.rs:1080 *)

Definition commit_inner (c : cfg) : M unit :=
  do i <- prep c ;; mid c i.

(** repo.rs:1426-1436 get_lock_manager (create_dir_all of the locks directory), lock.rs:32-47 acquire,
    lock.rs:50-59 Drop *)
Definition acquire (c : cfg) : M unit :=
  create_dir_all (c_locks c) ;;
  catch (step (SCreateNew (c_locks c ++ [c_lock c]) (CBlob 0))) (fun _ => throw ELock).

Definition unlock (c : cfg) : M unit := remove_file_inf (c_locks c ++ [c_lock c]).

Definition with_lock (c : cfg) (body : M unit) : M unit :=
  acquire c ;; finally body (unlock c).

(** repo.rs:934-947 commit *)
Definition commit (c : cfg) : M unit :=
  ensure_open ;; with_lock c (commit_inner c).

(** repo.rs:1089-1123 get_or_created_staged_inventory with fs.rs:662-692 stage_object *)
Definition get_or_create_staged (c : cfg) : M invr :=
  catch (get_inventory c (c_so c))
        (fun e => match e with
                  | ENotFound =>
                    ensure_open ;;                                          (* fs.rs:308 main store *)
                    do m <- get_inventory c (c_mo c) ;;
                    let i := mkInv (c_freshk c) (i_vs m ++ [c_vnext c]) (i_spec m) [] [] in   (* create_staging_head *)
                    create_dir_all (c_so c) ;;                              (* fs.rs:686 *)
                    write_namaste (c_so c) (i_spec m) ;;                    (* fs.rs:688 *)
                    stage_inventory c i false ;;                            (* fs.rs:689 *)
                    ret i
                  | _ => throw e
                  end).

(** repo.rs:952-1004 upgrade_object (only the spec versions 1.0 < 1.1 exist: "version <= current" is
    equality with the current one; the repository version check only reads) *)
Definition upgrade_object (c : cfg) : M unit :=
  ensure_open ;;
  with_lock c
    (do i0 <- get_or_create_staged c ;;
     if seg_eqb (i_spec i0) (c_target c) then throw EIllegal                (* repo.rs:966-971 *)
     else
       let i := mkInv (c_midk c) (i_vs i0) (c_target c) (i_man i0) (i_dups i0) in   (* repo.rs:994 *)
       stage_inventory c i false ;;                                          (* repo.rs:1006 *)
       commit_inner c).                                                      (* repo.rs:1008 *)

(** repo.rs:836-844 reset_all (no lock is taken) *)
Definition reset_all (c : cfg) : M unit :=
  ensure_open ;; purge_staged c.

(** what a user does after a failed upgrade: the same command again; when that is refused because the
    staged inventory already carries the new type, commit *)
Definition retry_upgrade (c : cfg) : M unit :=
  catch (upgrade_object c) (fun e => match e with EIllegal => commit c | _ => throw e end).

Definition init_world (t : tree) (i : inj) : world := mkW t i false [] [] None.
Definition run {A} (m : M A) (t : tree) (i : inj) : out A * world := m (init_world t i).
Definition run_tree {A} (m : M A) (t : tree) (i : inj) : tree := w_tree (snd (run m t i)).

(** * the validator of C05 (iii): exactly the rules the anchors name
    validate/mod.rs:1131-1217 entries of the object root (E001 unknown file / version directory not in
    the inventory, E010 missing version directory), 1089-1129 sidecar (E060), serde.rs:44-63 unparsable
    inventory, the declaration that the inventory's type requires (E003 / E007 / E038), and the head
    version's inventory copy (E064).  Digests are injective: a sidecar matches iff it carries the
    identity of the inventory bytes. *)
Definition obj_validb (c : cfg) (t : tree) (root : fpath) : bool :=
  match read_file t (root ++ [c_inv c]) with
  | Some (CInv k vs spec man dups) =>
      match read_file t (root ++ [c_side c]) with Some (CSide k') => N.eqb k k' | _ => false end
      && match read_file t (root ++ [spec]) with Some (CDecl s) => seg_eqb s spec | _ => false end
      && forallb (fun e => let n := last (fst e) [] in
                           match snd e with
                           | File _ => seg_eqb n (c_inv c) || seg_eqb n (c_side c) || seg_eqb n spec
                           | Dir => existsb (seg_eqb n) vs
                           end) (children t root)
      && forallb (fun v => is_dir t (root ++ [v])) vs
      && match vs with
         | [] => false
         | _ => onode_eqb (lookup t (root ++ [last vs []; c_inv c])) (Some (File (CInv k vs spec man dups)))
                && onode_eqb (lookup t (root ++ [last vs []; c_side c])) (Some (File (CSide k)))
         end
  | _ => false
  end.

(** E024: no empty directory below the object root *)
Definition no_empty_dirb (t : tree) (root : fpath) : bool :=
  forallb (fun e => negb (under root (fst e)) || match snd e with Dir => has_children t (fst e) | File _ => true end) t.

(** * vocabulary of the property statements (Props/C04.v, Props/C05.v) *)

(** the object (or anything else) rooted at q is the same in t1 and t2: every path at or below q
    resolves to the same node - "byte-for-byte what it was" *)
Definition same_at (q : fpath) (t1 t2 : tree) : Prop :=
  forall p, under q p = true -> lookup t1 p = lookup t2 p.

Definition lockp (c : cfg) : fpath := c_locks c ++ [c_lock c].

(** the run installed something in the main repository: a rename whose destination lies in the object root *)
Definition installs (c : cfg) (o : fsop) : bool :=
  match o with Rename _ d => under (c_mo c) d | _ => false end.
Definition installed (c : cfg) (w : world) : bool := existsb (installs c) (w_trace w).

(** the configuration is sane: the staged object, the main object and the lock file do not overlap,
    and the reserved file names are distinct *)
Record cfg_ok (c : cfg) : Prop := mkCfgOk {
  ok_so_ne : c_so c <> [];
  ok_mo_ne : c_mo c <> [];
  ok_so_mo : under (c_so c) (c_mo c) = false;
  ok_mo_so : under (c_mo c) (c_so c) = false;
  ok_so_locks : under (c_so c) (c_locks c) = false;
  ok_mo_locks : under (c_mo c) (c_locks c) = false;
  ok_lock_so : under (lockp c) (c_so c) = false;
  ok_lock_mo : under (lockp c) (c_mo c) = false;
  ok_so_lock : under (c_so c) (lockp c) = false;
  ok_mo_lock : under (c_mo c) (lockp c) = false;
  ok_inv_side : c_inv c <> c_side c;
  ok_cdir_inv : c_cdir c <> c_inv c;
  ok_cdir_side : c_cdir c <> c_side c;
  ok_inv_nodecl : is_decl_name (c_inv c) = false;
  ok_side_nodecl : is_decl_name (c_side c) = false
}.

(** content path of the head version: <head>/<content dir>/<at least one more segment> *)
Definition content_path (c : cfg) (h : fseg) (d : fpath) : Prop :=
  exists rest, rest <> [] /\ d = h :: c_cdir c :: rest.

(** the staged object S_o is complete (Appendix D, StagedWF at the tree level): it holds a parseable
    inventory whose head content files are all there; the version directory (if it exists yet)
    is a directory *)
Record staged_ok (c : cfg) (t : tree) (i : invr) : Prop := mkStagedOk {
  st_anc : forall q, q <> [] -> under q (c_so c) = true -> lookup t q = Some Dir;   (* S_o and its ancestors are directories *)
  st_inv : read_file t (c_so c ++ [c_inv c]) = Some (tok_of i);
  st_vs : i_vs i <> [];
  st_head_inv : head_of i <> c_inv c;
  st_head_side : head_of i <> c_side c;
  st_spec_inv : i_spec i <> c_inv c;
  st_spec_side : i_spec i <> c_side c;
  st_man : forall d, In d (i_man i) -> content_path c (head_of i) d /\ exists n, lookup t (c_so c ++ d) = Some (File (CBlob n));
  st_dups : forall d, In d (i_dups i) -> In d (i_man i)
}.

(** the object M_o in the main repository before the commit: absent (first version), or a valid object
    whose versions are exactly the earlier versions of the staged inventory *)
Inductive main_ok (c : cfg) (t : tree) (i : invr) : Prop :=
| MainAbsent :
    i_vs i = [head_of i] ->
    (forall x, under (c_mo c) x = true -> lookup t x = None) ->
    main_ok c t i
| MainPresent (k0 : N) (vs0 : list fseg) (spec0 : fseg) (man0 dups0 : list fpath) :
    vs0 <> [] ->
    i_vs i = vs0 ++ [head_of i] ->
    ~ In (head_of i) vs0 ->
    lookup t (c_mo c) = Some Dir ->
    read_file t (c_mo c ++ [c_inv c]) = Some (CInv k0 vs0 spec0 man0 dups0) ->
    obj_validb c t (c_mo c) = true ->
    k0 <> c_newk c ->
    (forall x, under (c_mo c ++ [head_of i]) x = true -> lookup t x = None) ->
    (* declaration files: the old one is there (validity); the one a changed type requires is not, and is
       neither a reserved name nor a version *)
    (i_spec i <> spec0 -> lookup t (c_mo c ++ [i_spec i]) = None /\ i_spec i <> c_inv c /\ i_spec i <> c_side c
                          /\ is_decl_name spec0 = true /\ is_decl_name (i_spec i) = true) ->
    main_ok c t i.

(** precondition of commit: sane configuration, lock free, staged object complete, main object as above *)
Record commit_pre (c : cfg) (t : tree) (i : invr) : Prop := mkCommitPre {
  pre_cfg : cfg_ok c;
  pre_locks : is_dir t (c_locks c) = true;
  pre_lock_free : lookup t (lockp c) = None;
  pre_staged : staged_ok c t i;
  pre_main : main_ok c t i
}.

(** the versions committed before ([vs0]) are untouched *)
Definition versions_intact (c : cfg) (vs0 : list fseg) (t t' : tree) : Prop :=
  forall v, In v vs0 -> same_at (c_mo c ++ [v]) t' t.

(** every content file of the version being committed is, complete, in the staged object or in the object *)
Definition content_somewhere (c : cfg) (i : invr) (t t' : tree) : Prop :=
  forall d, In d (i_man (committed_inv c i)) ->
    lookup t' (c_so c ++ d) = lookup t (c_so c ++ d) \/ lookup t' (c_mo c ++ d) = lookup t (c_so c ++ d).

(** the commit does not change the inventory type (it is not the tail of an upgrade) *)
Definition same_type (c : cfg) (t : tree) (i : invr) : Prop :=
  forall k vs sp man dups, read_file t (c_mo c ++ [c_inv c]) = Some (CInv k vs sp man dups) -> i_spec i = sp.

(** the versions the staged inventory lists before its head *)
Definition earlier_versions (i : invr) : list fseg := removelast (i_vs i).

(** * the precondition as a boolean (evaluated on the abstracted pre-states of the real scenarios by the
    correspondence check, and used for the non-vacuity examples); sound w.r.t. [commit_pre]:
    Proofs/CommitPre.v *)
Fixpoint prefixes_ne (acc : fpath) (p : fpath) : list fpath :=
  match p with
  | [] => []
  | a :: p' => (acc ++ [a]) :: prefixes_ne (acc ++ [a]) p'
  end.

Definition none_under (t : tree) (r : fpath) : bool := forallb (fun e => negb (under r (fst e))) t.
Definition seglist_eqb := content_eqb_seglist.

Definition cfg_ok_b (c : cfg) : bool :=
  negb (path_eqb (c_so c) []) && negb (path_eqb (c_mo c) [])
  && negb (under (c_so c) (c_mo c)) && negb (under (c_mo c) (c_so c))
  && negb (under (c_so c) (c_locks c)) && negb (under (c_mo c) (c_locks c))
  && negb (under (lockp c) (c_so c)) && negb (under (lockp c) (c_mo c))
  && negb (under (c_so c) (lockp c)) && negb (under (c_mo c) (lockp c))
  && negb (seg_eqb (c_inv c) (c_side c)) && negb (seg_eqb (c_cdir c) (c_inv c)) && negb (seg_eqb (c_cdir c) (c_side c))
  && negb (is_decl_name (c_inv c)) && negb (is_decl_name (c_side c)).

Definition is_blob (o : option node) : bool := match o with Some (File (CBlob _)) => true | _ => false end.

Definition staged_ok_b (c : cfg) (t : tree) (i : invr) : bool :=
  forallb (fun q => onode_eqb (lookup t q) (Some Dir)) (prefixes_ne [] (c_so c))
  && match read_file t (c_so c ++ [c_inv c]) with Some x => content_eqb x (tok_of i) | None => false end
  && negb (match i_vs i with [] => true | _ => false end)
  && negb (seg_eqb (head_of i) (c_inv c)) && negb (seg_eqb (head_of i) (c_side c))
  && negb (seg_eqb (i_spec i) (c_inv c)) && negb (seg_eqb (i_spec i) (c_side c))
  && forallb (fun d => match d with
                       | hh :: cd :: _ :: _ => seg_eqb hh (head_of i) && seg_eqb cd (c_cdir c) && is_blob (lookup t (c_so c ++ d))
                       | _ => false
                       end) (i_man i)
  && forallb (fun d => mem_path d (i_man i)) (i_dups i).

Definition main_ok_b (c : cfg) (t : tree) (i : invr) : bool :=
  match i_vs i with
  | [_] => none_under t (c_mo c)
  | _ =>
    match read_file t (c_mo c ++ [c_inv c]) with
    | Some (CInv k0 vs0 spec0 man0 dups0) =>
        negb (match vs0 with [] => true | _ => false end)
        && seglist_eqb (i_vs i) (vs0 ++ [head_of i])
        && negb (existsb (seg_eqb (head_of i)) vs0)
        && onode_eqb (lookup t (c_mo c)) (Some Dir)
        && obj_validb c t (c_mo c)
        && negb (N.eqb k0 (c_newk c))
        && none_under t (c_mo c ++ [head_of i])
        && (seg_eqb (i_spec i) spec0
            || (onode_eqb (lookup t (c_mo c ++ [i_spec i])) None && negb (seg_eqb (i_spec i) (c_inv c))
                && negb (seg_eqb (i_spec i) (c_side c)) && is_decl_name spec0 && is_decl_name (i_spec i)))
    | _ => false
    end
  end.

Definition commit_pre_b (c : cfg) (t : tree) (i : invr) : bool :=
  cfg_ok_b c && is_dir t (c_locks c) && onode_eqb (lookup t (lockp c)) None
  && staged_ok_b c t i && main_ok_b c t i.

(** same_type, decided *)
Definition same_type_b (c : cfg) (t : tree) (i : invr) : bool :=
  match read_file t (c_mo c ++ [c_inv c]) with
  | Some (CInv _ _ sp _ _) => seg_eqb (i_spec i) sp
  | _ => true
  end.
