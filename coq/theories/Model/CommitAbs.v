(** C01, file-system level - the bridge between the two tree models:

      Model/FsTree.v + Model/Commit.v   the commit protocol over an abstract file tree whose regular files carry
                                         the tokens [content] (CBlob n | CInv k .. | CSide k | CDecl spec | CPartial)
      Model/ObjTree.v                   one stored object as the list of its leaves, with the oracles
                                         digest / parse_inv / parse_sidecar / parse_decl, and [written_by_rocfl]

    [abs] maps the subtree of an FsTree below an object root to an ObjTree.  What has to be supplied from outside is
    exactly what Commit.v leaves abstract (Section variables; hypotheses about them are stated where they are used,
    Proofs/CommitAbs*.v):

      aseg     the abstraction of file names (injective; [aseg_tab] below is a concrete instance)
      interp   the meaning of the inventory bytes identified by k (the [k] of [CInv k ..] / [CSide k]):
               Some inv iff serde::parse accepts them without error
      dg       the digest function on tokens
      al       the digest algorithm of the object at hand (fixes which digest a sidecar records)

    Tokens are interpreted by [atok]: residue classes mod 5 keep the five kinds of [content] apart.
    Definitions only. *)
From Coq Require Import List NArith Ascii Bool.
From Rocfl Require Import Base.Bytes Model.FsOps Model.FsTree Model.Commit.
From Rocfl Require Model.ObjTree.
Import ListNotations.
Open Scope N_scope.

Notation oseg := ObjTree.seg.
Notation opath := ObjTree.path.
Notation otree := ObjTree.tree.
Notation oinv := ObjTree.inventory.
Notation oalg := ObjTree.alg.

(** * names *)

(** an injective numbering of byte strings: the little-endian value of the bytes followed by a 1 *)
Fixpoint enc (s : fseg) : N :=
  match s with
  | [] => 1
  | a :: r => N_of_ascii a + 256 * enc r
  end.

Definition decl10 : fseg := b "0=ocfl_object_1.0".
Definition decl11 : fseg := b "0=ocfl_object_1.1".
Definition decl_name (v : ObjTree.spec_version) : fseg :=
  match v with ObjTree.V10 => decl10 | ObjTree.V11 => decl11 end.

(** position (counted from n) of the first occurrence *)
Fixpoint index_of (s : fseg) (l : list fseg) (n : N) : option N :=
  match l with
  | [] => None
  | x :: r => if seg_eqb x s then Some n else index_of s r (N.succ n)
  end.

(** a concrete name abstraction for one object: the reserved names, the version directory names [vs]
    (v1, v2, ... in the object's zero-padding style, as many as needed), everything else by [enc] *)
Definition aseg_tab (inv side : fseg) (a : oalg) (pad : N) (vs : list fseg) (s : fseg) : oseg :=
  if seg_eqb s inv then ObjTree.SInv
  else if seg_eqb s side then ObjTree.SSidecar a
  else if seg_eqb s decl10 then ObjTree.SDecl ObjTree.V10
  else if seg_eqb s decl11 then ObjTree.SDecl ObjTree.V11
  else match index_of s vs 1 with
       | Some n => ObjTree.SVer pad n
       | None => ObjTree.SName (enc s)
       end.

(** * tokens *)
Definition atok (c : content) : ObjTree.token :=
  match c with
  | CBlob n => 5 * n
  | CInv k _ _ _ _ => 5 * k + 1
  | CSide k => 5 * k + 2
  | CDecl s => 5 * enc s + 3
  | CPartial => 4
  end.

(** decidable equality of inventories *)
Definition pair_N_path_eqb (x y : N * opath) : bool := N.eqb (fst x) (fst y) && ObjTree.path_eqb (snd x) (snd y).
Definition fix_eqb (x y : N * N * opath) : bool :=
  N.eqb (fst (fst x)) (fst (fst y)) && N.eqb (snd (fst x)) (snd (fst y)) && ObjTree.path_eqb (snd x) (snd y).
Definition inv_eqb (x y : oinv) : bool :=
  N.eqb (ObjTree.inv_id x) (ObjTree.inv_id y)
  && ObjTree.spec_eqb (ObjTree.inv_spec x) (ObjTree.inv_spec y)
  && ObjTree.alg_eqb (ObjTree.inv_alg x) (ObjTree.inv_alg y)
  && N.eqb (ObjTree.inv_pad x) (ObjTree.inv_pad y)
  && N.eqb (ObjTree.inv_cdir x) (ObjTree.inv_cdir y)
  && ObjTree.list_eqb pair_N_path_eqb (ObjTree.inv_manifest x) (ObjTree.inv_manifest y)
  && ObjTree.list_eqb ObjTree.state_eqb (ObjTree.inv_versions x) (ObjTree.inv_versions y)
  && ObjTree.list_eqb fix_eqb (ObjTree.inv_fixity x) (ObjTree.inv_fixity y).

Fixpoint nodup_fpathb (l : list fpath) : bool :=
  match l with [] => true | p :: r => negb (mem_path p r) && nodup_fpathb r end.

Section Abs.
  Variable aseg : fseg -> oseg.
  Variable interp : N -> option oinv.
  Variable dg : oalg -> ObjTree.token -> N.
  Variable al : oalg.

  Definition apath (p : fpath) : opath := map aseg p.

  (** ** the oracles of Model/ObjTree.v, read off the tokens *)
  Definition parse_inv (tk : ObjTree.token) : option oinv :=
    if N.eqb (tk mod 5) 1 then interp (tk / 5) else None.

  (** [CSide k] is the complete sidecar recording the [al]-digest of the inventory bytes k *)
  Definition parse_sidecar (tk : ObjTree.token) : option N :=
    if N.eqb (tk mod 5) 2 then Some (dg al (5 * (tk / 5) + 1)) else None.

  (** [CDecl s] is the complete declaration the file name s requires *)
  Definition parse_decl (tk : ObjTree.token) : option ObjTree.spec_version :=
    if N.eqb (tk mod 5) 3 then
      if N.eqb (tk / 5) (enc decl10) then Some ObjTree.V10
      else if N.eqb (tk / 5) (enc decl11) then Some ObjTree.V11
      else None
    else None.

  (** ** the abstraction function: the leaves below [root] - regular files and EMPTY directories, paths relative to
      [root] - exactly the recursive listing Model/ObjTree.v describes *)
  Definition abs (t : tree) (root : fpath) : otree :=
    flat_map (fun e =>
      match snd e with
      | File c => [(apath (fst e), ObjTree.File (atok c))]
      | Dir => if has_children t (root ++ fst e) then [] else [(apath (fst e), ObjTree.Dir)]
      end) (subtree t root).

  Definition written (o : otree) : Prop := ObjTree.written_by_rocfl dg parse_inv parse_sidecar parse_decl o.
  Definition writtenb (o : otree) : bool := ObjTree.written_by_rocflb dg parse_inv parse_sidecar parse_decl o.

  (** ** well-formed file trees: every key once, every entry inside a directory (the representation of
      Model/FsTree.v allows lists that are no trees; every tree read from a disk is well formed) *)
  Definition twf (t : tree) : Prop :=
    NoDup (map fst t) /\ forall p n, In (p, n) t -> p <> [] /\ is_dir t (parent p) = true.

  Fixpoint nodup_keysb (t : tree) : bool :=
    match t with
    | [] => true
    | e :: r => negb (existsb (fun e' => path_eqb (fst e') (fst e)) r) && nodup_keysb r
    end.

  Definition twf_b (t : tree) : bool :=
    nodup_keysb t
    && forallb (fun e => match fst e with [] => false | _ => is_dir t (parent (fst e)) end) t.

  (** ** the inventory commit_inner writes: Inventory::dedup_head removes the duplicate paths from the manifest *)
  Definition dedup_inv (s : oinv) (dups : list opath) : oinv :=
    ObjTree.mkInv (ObjTree.inv_id s) (ObjTree.inv_spec s) (ObjTree.inv_alg s) (ObjTree.inv_pad s) (ObjTree.inv_cdir s)
      (filter (fun dp => negb (ObjTree.mem_path (snd dp) dups)) (ObjTree.inv_manifest s))
      (ObjTree.inv_versions s) (ObjTree.inv_fixity s).

  (** inventory-level validity of the committed inventory (what Props/C01.v proves of the manifest/state algebra:
      every manifest digest is used, every state digest has a content path; unique paths) *)
  Definition inv_good_b (v : oinv) : bool :=
    negb (ObjTree.nilb (ObjTree.inv_versions v))
    && ObjTree.closedb v
    && ObjTree.nodup_pathb (map snd (ObjTree.inv_manifest v))
    && forallb (fun st => ObjTree.nodup_lpathb (map snd st)) (ObjTree.inv_versions v)
    && ObjTree.nilb (ObjTree.inv_fixity v).

  Definition is_head_path (h : N) (p : opath) : bool :=
    match ObjTree.path_version p with Some n => N.eqb n h | None => false end.

  (** the version directory names are v1, v2, ... of the inventory's padding *)
  Fixpoint vs_ok_from (pad n : N) (vs : list fseg) : bool :=
    match vs with
    | [] => true
    | v :: r => ObjTree.seg_eqb (aseg v) (ObjTree.SVer pad n) && negb (is_decl_name v) && vs_ok_from pad (N.succ n) r
    end.

  Definition head_no (i : invr) : N := N.of_nat (List.length (i_vs i)).

  (** ** the staged inventory [CInv k vs spec man dups] and the inventory [sinv] its bytes parse to tell the same *)
  Definition tok_ok_b (c : cfg) (i : invr) (sinv : oinv) : bool :=
    ObjTree.alg_eqb (ObjTree.inv_alg sinv) al
    && ObjTree.seg_eqb (aseg (c_inv c)) ObjTree.SInv
    && ObjTree.seg_eqb (aseg (c_side c)) (ObjTree.SSidecar al)
    && ObjTree.seg_eqb (aseg (c_cdir c)) (ObjTree.SName (ObjTree.inv_cdir sinv))
    && ObjTree.seg_eqb (aseg decl10) (ObjTree.SDecl ObjTree.V10)
    && ObjTree.seg_eqb (aseg decl11) (ObjTree.SDecl ObjTree.V11)
    && seg_eqb (i_spec i) (decl_name (ObjTree.inv_spec sinv))
    && N.eqb (ObjTree.inv_head sinv) (head_no i)
    && vs_ok_from (ObjTree.inv_pad sinv) 1 (i_vs i)
    (* the head paths of the manifest are the token's [man] *)
    && forallb (fun dp => negb (is_head_path (head_no i) (snd dp)) || ObjTree.mem_path (snd dp) (map apath (i_man i)))
               (ObjTree.inv_manifest sinv)
    && forallb (fun d => ObjTree.mem_path (apath d) (map snd (ObjTree.inv_manifest sinv))) (i_man i)
    && ObjTree.nodup_pathb (map snd (ObjTree.inv_manifest sinv))
    && nodup_fpathb (i_dups i).

  (** ** the staged object on disk (Appendix D, I4), beyond [Commit.staged_ok] *)
  Definition is_filen (n : node) : bool := match n with File _ => true | Dir => false end.
  Definition none_or_file (o : option node) : bool := match o with Some Dir => false | _ => true end.
  Definition none_or_dir (o : option node) : bool := match o with Some (File _) => false | _ => true end.

  Definition staged_tree_b (c : cfg) (t : tree) (i : invr) (sinv : oinv) : bool :=
    let so := c_so c in
    let hd := so ++ [head_of i] in
    let cd := hd ++ [c_cdir c] in
    negb (is_decl_name (head_of i))
    && none_or_file (lookup t (so ++ [c_side c]))
    && none_or_dir (lookup t hd)
    && none_or_file (lookup t (hd ++ [c_inv c])) && none_or_file (lookup t (hd ++ [c_side c]))
    && none_or_dir (lookup t cd)
    (* the version directory holds nothing but inventory, sidecar and the content directory *)
    && forallb (fun e => negb (below hd (fst e))
                         || path_eqb (fst e) (hd ++ [c_inv c]) || path_eqb (fst e) (hd ++ [c_side c])
                         || under cd (fst e)) t
    (* every content file of the manifest carries the digest the manifest records *)
    && forallb (fun d => match lookup t (so ++ d) with
                         | Some (File (CBlob n)) =>
                             ObjTree.opt_eqb N.eqb (ObjTree.mdigest (ObjTree.inv_manifest sinv) (apath d))
                                             (Some (dg al (atok (CBlob n))))
                         | _ => false
                         end) (i_man i)
    (* a never committed object: the staged root holds nothing but inventory, sidecar, declarations (files) and
       the version directory - it is moved into the repository as a whole *)
    && (if inv_is_new i then
          forallb (fun e => negb (below so (fst e)) || under hd (fst e)
                            || path_eqb (fst e) (so ++ [c_inv c]) || path_eqb (fst e) (so ++ [c_side c])
                            || (is_child so (fst e) && is_decl_name (last (fst e) []) && is_filen (snd e))) t
          && forallb (fun q => none_or_dir (lookup t q)) (prefixes_ne [] (parent (c_mo c)))
        else true).

  (** ** the object in the repository and the staged inventory continue each other (Appendix D, I1 I2 I7) *)
  Definition extends_b (inv0 sinv : oinv) : bool :=
    let h := ObjTree.inv_head sinv in
    N.eqb (ObjTree.inv_id inv0) (ObjTree.inv_id sinv)
    && ObjTree.alg_eqb (ObjTree.inv_alg inv0) (ObjTree.inv_alg sinv)
    && N.eqb (ObjTree.inv_pad inv0) (ObjTree.inv_pad sinv)
    && N.eqb (ObjTree.inv_cdir inv0) (ObjTree.inv_cdir sinv)
    && ObjTree.spec_leb (ObjTree.inv_spec inv0) (ObjTree.inv_spec sinv)
    && N.eqb (N.succ (ObjTree.inv_head inv0)) h
    && ObjTree.list_eqb ObjTree.state_eqb (ObjTree.firstn_N (ObjTree.inv_head inv0) 1 (ObjTree.inv_versions sinv))
                        (ObjTree.inv_versions inv0)
    && ObjTree.incl_pairs (ObjTree.inv_manifest inv0) (ObjTree.inv_manifest sinv)
    && forallb (fun dp => is_head_path h (snd dp) || ObjTree.mem_pair dp (ObjTree.inv_manifest inv0))
               (ObjTree.inv_manifest sinv).

  (** the staged inventory continues the root inventory of the object in the repository *)
  Definition link_b (c : cfg) (t : tree) (i : invr) (sinv : oinv) : bool :=
    if inv_is_new i then
      (* a first version: every content path of the manifest lies in it *)
      forallb (fun dp => is_head_path (head_no i) (snd dp)) (ObjTree.inv_manifest sinv)
    else
      match ObjTree.root_inv parse_inv (abs t (c_mo c)) with
      | Some inv0 => extends_b inv0 sinv
      | None => false
      end.

  (** the object in the repository is one rocfl wrote; a directory is never named like a declaration
      (write_new_version removes every 0=ocfl_object_* entry of the object root as a file) *)
  Definition decls_files_b (c : cfg) (t : tree) : bool :=
    forallb (fun e => negb (is_child (c_mo c) (fst e) && is_decl_name (last (fst e) [])) || is_filen (snd e)) t.

  Definition main_written_b (c : cfg) (t : tree) : bool :=
    none_under t (c_mo c) || (writtenb (abs t (c_mo c)) && decls_files_b c t).

  (** ** the extra precondition of the file-system level theorem: the part about the staged object ... *)
  Definition staged_pre_b (c : cfg) (t : tree) (i : invr) : bool :=
    match interp (i_k i) with
    | None => false
    | Some sinv =>
        twf_b t
        && tok_ok_b c i sinv
        && ObjTree.opt_eqb inv_eqb (interp (c_newk c)) (Some (dedup_inv sinv (map apath (i_dups i))))
        && inv_good_b (dedup_inv sinv (map apath (i_dups i)))
        && staged_tree_b c t i sinv
        && link_b c t i sinv
    end.

  (** ... and the part about the object in the repository (an invariant of commit histories: Props/C01.v) *)
  Definition commit_pre_tree_b (c : cfg) (t : tree) (i : invr) : bool :=
    staged_pre_b c t i && main_written_b c t.

  Definition staged_pre (c : cfg) (t : tree) (i : invr) : Prop := staged_pre_b c t i = true.
  Definition main_written (c : cfg) (t : tree) : Prop := main_written_b c t = true.
  Definition commit_pre_tree (c : cfg) (t : tree) (i : invr) : Prop := commit_pre_tree_b c t i = true.

  (** ** histories of commits of one object (root [mo]): the object is absent at first; between two commits
      anything may happen outside the object root (staging, other objects), then a commit that satisfies
      [commit_pre] and the staged part of the precondition runs without fault *)
  Inductive reach (mo : fpath) : tree -> Prop :=
  | reach_absent t : twf t -> none_under t mo = true -> reach mo t
  | reach_commit t ts c i :
      reach mo t -> c_mo c = mo -> twf ts -> same_at mo ts t ->
      commit_pre c ts i -> staged_pre c ts i ->
      reach mo (run_tree (commit c) ts NoInj).
End Abs.

(** the staged inventory of a tree, as the record of Model/Commit.v *)
Definition staged_invr (c : cfg) (t : tree) : option invr :=
  match read_file t (c_so c ++ [c_inv c]) with
  | Some (CInv k vs sp man dups) => Some (mkInv k vs sp man dups)
  | _ => None
  end.

(** * purge of an object in the MAIN store: fs.rs:499-561 purge_object as Model/Commit.v [purge_staged] transcribes it
    for the staging store, with the main store's closed check: a path that is no directory, or that holds no
    declaration while something beneath it does, is left alone; remove_dir_all failing -> CorruptObject; then
    clean_dirs_up of the parent, a failure of which is only logged *)
Definition purge_main (mo : fpath) : M unit :=
  ensure_open ;;
  do t <- get_tree ;;
  if exists_at t mo && (negb (is_dir t mo) || (negb (is_object_rootb t mo) && contains_object_rootb t mo))
  then ret tt
  else
  (if exists_at t mo then
     do r <- attempt (remove_dir_all mo) ;;
     match r with None => ret tt | Some _ => throw EGeneral end
   else ret tt) ;;
  do t2 <- get_tree ;;
  if exists_at t2 (parent mo) then attempt (clean_dirs_up (parent mo)) ;; ret tt
  else ret tt.

(** * the correspondence checker of checks/c01.py (stage "file-system level"): the hypotheses of the theorem on the
    abstraction of a real pre-state, [written_by_rocflb] of the abstraction of the real post-state, and the model's
    fault-free result against the real one (every path at or below the object root).  The name abstraction is
    [aseg_tab] with the object's version directory names, inventories come as a table, digests are abstracted
    injectively by the driver so that the digest of a token is the token. *)
Fixpoint tab_lookup {A} (l : list (N * A)) (k : N) : option A :=
  match l with
  | [] => None
  | (k', a) :: r => if N.eqb k k' then Some a else tab_lookup r k
  end.

Definition dg_id (_ : oalg) (k : ObjTree.token) : N := k.

Definition c01_fs_check (a : oalg) (pad : N) (vs : list fseg) (itab : list (N * oinv)) (c : cfg) (T P : tree)
  : bool * bool * bool * bool :=
  let aseg := aseg_tab (c_inv c) (c_side c) a pad vs in
  let interp := tab_lookup itab in
  match staged_invr c T with
  | None => (false, false, false, false)
  | Some i => (commit_pre_b c T i, commit_pre_tree_b aseg interp dg_id a c T i,
               writtenb interp dg_id a (abs aseg P (c_mo c)),
               same_underb (c_mo c) (run_tree (commit c) T NoInj) P)
  end.

(** the conjuncts of the precondition one by one (diagnosis of a correspondence break) *)
Definition c01_fs_detail (a : oalg) (pad : N) (vs : list fseg) (itab : list (N * oinv)) (c : cfg) (T : tree) : list bool :=
  let aseg := aseg_tab (c_inv c) (c_side c) a pad vs in
  let interp := tab_lookup itab in
  match staged_invr c T with
  | None => []
  | Some i =>
    match interp (i_k i) with
    | None => [false]
    | Some sinv =>
      [cfg_ok_b c; staged_ok_b c T i; main_ok_b c T i; twf_b T; tok_ok_b aseg a c i sinv;
       ObjTree.opt_eqb inv_eqb (interp (c_newk c)) (Some (dedup_inv sinv (map (apath aseg) (i_dups i))));
       inv_good_b (dedup_inv sinv (map (apath aseg) (i_dups i)));
       staged_tree_b aseg dg_id a c T i sinv; link_b aseg interp c T i sinv; main_written_b aseg interp dg_id a c T]
    end
  end.

(** [written_by_rocflb] of the abstraction of a real object root alone (post-state of an upgrade) *)
Definition c01_fs_written (a : oalg) (pad : N) (vs : list fseg) (itab : list (N * oinv)) (inv side : fseg)
           (mo : fpath) (P : tree) : bool :=
  writtenb (tab_lookup itab) dg_id a (abs (aseg_tab inv side a pad vs) P mo).
