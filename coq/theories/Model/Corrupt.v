(** * Corrupt: single corruptions of a stored object as partial tree edits (C06)

    [apply_corruption c t = Some t'] : the corruption is applicable to [t] and REALLY
    changes it (a content change needs a different token, a swap needs two different
    contents, a sidecar change needs a different recorded digest ...), so that nothing
    "compensated" is ever produced.  Directories are implicit in ObjTree, therefore
    deleting the last file of a directory leaves an explicit empty-directory entry and
    adding a file below an empty directory removes that entry.

    No proofs here. *)

From Coq Require Import List NArith Bool.
From Rocfl Require Import Model.ObjTree.
Import ListNotations.
Open Scope N_scope.

Inductive corruption :=
| ChangeContent (p : path) (k' : token)       (* some byte of a content file changed *)
| Truncate (p : path) (k' : token)            (* content file cut short ... *)
| Extend (p : path) (k' : token)              (* ... or grown: both are "other bytes at p" *)
| DeleteFile (p : path)
| AddFile (p : path) (k : token)              (* a new file somewhere below a content directory (directories are created) *)
| RenameFile (p q : path)
| SwapFiles (p q : path)                      (* two content files with different bytes exchange their bytes *)
| ReplaceBySymlink (p : path)                 (* file or whole directory *)
| ReplaceDirByEmptyDir (p : path)
| ReplaceFileByEmptyDir (p : path)
| ChangeInventoryByte (p : path) (k' : token) (* p = inventory.json of the root or of a version *)
| ChangeSidecarDigest (p : path) (k' : token) (* p = a sidecar; the recorded digest differs *)
| DeleteDeclaration
| AlterDeclaration (k' : token)
| AddStrayFile (p : path) (k : token)         (* a new file in an existing directory *)
| RemoveVersionDir (w n : N).

(** structure = anything but the bytes inside a content file *)
Definition is_structural (c : corruption) : bool :=
  match c with
  | ChangeContent _ _ | Truncate _ _ | Extend _ _ | SwapFiles _ _ => false
  | _ => true
  end.

Definition remove (p : path) (t : tree) : tree :=
  filter (fun e => negb (path_eqb (fst e) p)) t.

(** p and everything below it *)
Definition remove_sub (p : path) (t : tree) : tree :=
  filter (fun e => negb (is_prefix p (fst e))) t.

Definition set (p : path) (n : node) (t : tree) : tree := (p, n) :: remove p t.

Definition parent (p : path) : path := removelast p.

(** the directory d exists *)
Definition exists_dir (d : path) (t : tree) : bool :=
  nilb d || below d t || match lookup d t with Some Dir => true | _ => false end.

(** unlink p; an emptied parent directory stays behind as an empty directory *)
Definition del_file (p : path) (t : tree) : tree :=
  let t1 := remove p t in
  if nilb (parent p) || below (parent p) t1 then t1 else (parent p, Dir) :: t1.

(** nothing is at q, q is no directory, and only empty directories are on the way to q *)
Definition can_add (q : path) (t : tree) : bool :=
  negb (nilb q)
  && forallb (fun e => negb (is_prefix q (fst e))
                       && (if is_prefix (fst e) q then match snd e with Dir => true | _ => false end else true)) t.

(** create q (and the directories leading to it); empty directories on the way are no longer empty *)
Definition add_leaf (q : path) (n : node) (t : tree) : tree :=
  (q, n) :: filter (fun e => negb (is_prefix (fst e) q)) t.

Definition is_inventory_path (p : path) : bool :=
  match p with [SInv] | [SVer _ _; SInv] => true | _ => false end.
Definition is_sidecar_path (p : path) : bool :=
  match p with [SSidecar _] | [SVer _ _; SSidecar _] => true | _ => false end.

Section Apply.
  Variable parse_inv : token -> option inventory.
  Variable parse_sidecar : token -> option N.
  Variable parse_decl : token -> option spec_version.

  (** p lies below the content directory of a version of the root inventory *)
  Definition content_shaped (t : tree) (p : path) : bool :=
    match root_inv parse_inv t, p with
    | Some root, SVer w n :: SName c :: _ :: _ =>
        N.eqb w (inv_pad root) && in_versions root n && N.eqb c (inv_cdir root)
    | _, _ => false
    end.

  Definition declaration_path (t : tree) : option path :=
    if has_file [] (SDecl V10) t then Some [SDecl V10]
    else if has_file [] (SDecl V11) t then Some [SDecl V11]
    else None.

  Definition change_content (p : path) (k' : token) (t : tree) : option tree :=
    match file_tok p t with
    | Some k => if content_shaped t p && negb (N.eqb k k') then Some (set p (File k') t) else None
    | None => None
    end.

  Definition apply_corruption (c : corruption) (t : tree) : option tree :=
    match c with
    | ChangeContent p k' | Truncate p k' | Extend p k' => change_content p k' t
    | DeleteFile p =>
        match file_tok p t with Some _ => Some (del_file p t) | None => None end
    | AddFile p k =>
        if content_shaped t p && can_add p t then Some (add_leaf p (File k) t) else None
    | RenameFile p q =>
        match file_tok p t with
        | Some k =>
            let t1 := del_file p t in
            if negb (path_eqb p q) && can_add q t1 && (exists_dir (parent q) t1 || content_shaped t q)
            then Some (add_leaf q (File k) t1) else None
        | None => None
        end
    | SwapFiles p q =>
        match file_tok p t, file_tok q t with
        | Some kp, Some kq =>
            if content_shaped t p && content_shaped t q && negb (N.eqb kp kq)
            then Some (set p (File kq) (set q (File kp) t)) else None
        | _, _ => None
        end
    | ReplaceBySymlink p =>
        match file_tok p t with
        | Some _ => Some (set p Symlink t)
        | None => if negb (nilb p) && below p t then Some ((p, Symlink) :: remove_sub p t) else None
        end
    | ReplaceDirByEmptyDir p =>
        if negb (nilb p) && below p t then Some ((p, Dir) :: remove_sub p t) else None
    | ReplaceFileByEmptyDir p =>
        match file_tok p t with Some _ => Some (set p Dir t) | None => None end
    | ChangeInventoryByte p k' =>
        match file_tok p t with
        | Some k => if is_inventory_path p && negb (N.eqb k k') then Some (set p (File k') t) else None
        | None => None
        end
    | ChangeSidecarDigest p k' =>
        match file_tok p t with
        | Some k => if is_sidecar_path p && negb (opt_eqb N.eqb (parse_sidecar k) (parse_sidecar k'))
                    then Some (set p (File k') t) else None
        | None => None
        end
    | DeleteDeclaration =>
        match declaration_path t with Some p => Some (del_file p t) | None => None end
    | AlterDeclaration k' =>
        match declaration_path t with
        | Some p => match file_tok p t with
                    | Some k => if negb (opt_eqb spec_eqb (parse_decl k) (parse_decl k'))
                                then Some (set p (File k') t) else None
                    | None => None
                    end
        | None => None
        end
    | AddStrayFile p k =>
        if can_add p t && exists_dir (parent p) t then Some (add_leaf p (File k) t) else None
    | RemoveVersionDir w n =>
        if below [SVer w n] t then Some (remove_sub [SVer w n] t) else None
    end.
End Apply.
