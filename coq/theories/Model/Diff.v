(** Model of the history queries of rocfl (property C18):
      Version::diff                src/ocfl/inventory.rs:795-863
      Inventory::diff_versions     src/ocfl/inventory.rs:294-316
      OcflRepo::list_file_versions src/ocfl/repo.rs:418-458
      OcflRepo::list_object_versions src/ocfl/repo.rs:358-369
      ObjectVersion::construct_state (last_update) src/ocfl/types.rs:1083-1186
      Version::update_meta / CommitMeta / VersionDetails::from_version
                                   src/ocfl/inventory.rs:634-641, types.rs:1253-1266, 1292-1326
    Executable definitions only.

    A version state (PathBiMap<LogicalPath>: path -> digest) is an association
    list [list (P * D)]; the order of the list is the order in which the HashMap
    happens to be iterated.  P (logical paths) and D (digests, compared
    case-insensitively by HexDigest::eq, digest.rs:279-283) are abstract types
    with boolean equalities; [ple] is the order used by sort_unstable. *)
From Rocfl Require Export Base.Bytes.
Open Scope N_scope.

Section DiffModel.
  Variables P D : Type.
  Variable peqb : P -> P -> bool.
  Variable deqb : D -> D -> bool.
  Variable ple : P -> P -> bool.

  Definition state := list (P * D).

  (** Version::lookup_digest, inventory.rs:668 *)
  Fixpoint lookup (p : P) (s : state) : option D :=
    match s with
    | [] => None
    | (q, d) :: s' => if peqb q p then Some d else lookup p s'
    end.

  Definition keys (s : state) : list P := map fst s.

  Fixpoint pmem (p : P) (l : list P) : bool :=
    match l with [] => false | q :: l' => peqb q p || pmem p l' end.

  (** enum Diff, types.rs *)
  Inductive diff_entry : Type :=
  | Added (p : P)
  | Modified (p : P)
  | Deleted (p : P)
  | Renamed (original renamed : list P).

  (** HashMap<Rc<HexDigest>, V> as an association list (first match wins;
      [aset] replaces the value of an existing key or appends a new key,
      [adel] drops every entry of the key). *)
  Section AMap.
    Variable V : Type.
    Fixpoint aget (d : D) (m : list (D * V)) : option V :=
      match m with
      | [] => None
      | (k, v) :: m' => if deqb k d then Some v else aget d m'
      end.
    Fixpoint aset (d : D) (v : V) (m : list (D * V)) : list (D * V) :=
      match m with
      | [] => [(d, v)]
      | (k, w) :: m' => if deqb k d then (k, v) :: m' else (k, w) :: aset d v m'
      end.
    Fixpoint adel (d : D) (m : list (D * V)) : list (D * V) :=
      match m with
      | [] => []
      | (k, w) :: m' => if deqb k d then adel d m' else (k, w) :: adel d m'
      end.
  End AMap.
  Arguments aget {V}. Arguments aset {V}. Arguments adel {V}.

  (** sort_unstable on Vec<Rc<LogicalPath>> (inventory.rs:850-851): insertion sort *)
  Fixpoint sort_insert (p : P) (l : list P) : list P :=
    match l with
    | [] => [p]
    | q :: l' => if ple p q then p :: q :: l' else q :: sort_insert p l'
    end.
  Definition sort_paths (l : list P) : list P := fold_right sort_insert [] l.

  Definition deletes_t := list (D * list P).
  Definition renames_t := list (D * (list P * list P)).

  (** first loop, inventory.rs:805-821: one entry (path, left_digest) of the left state.
      accumulator = (diffs, deletes, seen) *)
  Definition left_step (right : state) (a : list diff_entry * deletes_t * list P) (e : P * D)
    : list diff_entry * deletes_t * list P :=
    let '(ds, dels, seen) := a in
    let (path, left_digest) := e in
    match lookup path right with
    | None =>
        (* deletes.entry(left_digest).or_insert_with(Vec::new).push(path) *)
        let v := match aget left_digest dels with Some v => v | None => [] end in
        (ds, aset left_digest (v ++ [path]) dels, seen)
    | Some right_digest =>
        (* seen.insert(path); if left_digest != right_digest { diffs.push(Modified(path)) } *)
        (if deqb left_digest right_digest then ds else ds ++ [Modified path], dels, path :: seen)
    end.

  (** second loop, inventory.rs:825-843: one entry (path, digest) of the right state.
      accumulator = (diffs, deletes, renames) *)
  Definition right_step (seen : list P) (a : list diff_entry * deletes_t * renames_t) (e : P * D)
    : list diff_entry * deletes_t * renames_t :=
    let '(ds, dels, rens) := a in
    let (path, digest) := e in
    if pmem path seen then a                                   (* continue *)
    else match aget digest dels with
         | Some original =>                                     (* deletes.remove(digest) *)
             (ds, adel digest dels, aset digest (original, [path]) rens)
         | None =>
             match aget digest rens with
             | Some (original, renamed) =>                      (* renames.get_mut(digest): renamed.push(path) *)
                 (ds, dels, aset digest (original, renamed ++ [path]) rens)
             | None => (ds ++ [Added path], dels, rens)
             end
         end.

  (** inventory.rs:845-855: remaining deletes, then the renames with sorted path lists *)
  Definition flush (ds : list diff_entry) (dels : deletes_t) (rens : renames_t) : list diff_entry :=
    ds ++ flat_map (fun kv => map Deleted (snd kv)) dels
       ++ map (fun kv => Renamed (sort_paths (fst (snd kv))) (sort_paths (snd (snd kv)))) rens.

  Definition left_loop (left right : state) :=
    fold_left (left_step right) left ([], [], []).
  Definition right_loop (seen : list P) (right : state) (ds : list diff_entry) (dels : deletes_t) :=
    fold_left (right_step seen) right (ds, dels, []).

  (** Version::diff(&self = right, other = left), inventory.rs:798-863 *)
  Definition diff (left : option state) (right : state) : list diff_entry :=
    match left with
    | Some l =>
        let '(ds, dels, seen) := left_loop l right in
        let '(ds2, dels2, rens) := right_loop seen right ds dels in
        flush ds2 dels2 rens
    | None => map (fun e => Added (fst e)) right
    end.

  (** the paths an entry / a report talks about *)
  Definition mention (e : diff_entry) : list P :=
    match e with
    | Added p | Modified p | Deleted p => [p]
    | Renamed o r => o ++ r
    end.
  Definition mentions (ds : list diff_entry) : list P := flat_map mention ds.

  (** Applying a report to the path set of the left state (the reading of the
      property: "applying the report to the left state yields the right state"):
      drop the Deleted paths and the originals of renames, add the Added paths and
      the targets of renames. *)
  Definition removed (ds : list diff_entry) : list P :=
    flat_map (fun e => match e with Deleted p => [p] | Renamed o _ => o | _ => [] end) ds.
  Definition inserted (ds : list diff_entry) : list P :=
    flat_map (fun e => match e with Added p => [p] | Renamed _ r => r | _ => [] end) ds.
  Definition apply_diff (ds : list diff_entry) (ps : list P) : list P :=
    filter (fun p => negb (pmem p (removed ds))) ps ++ inserted ds.

  (** An object's committed history: the states of v1, v2, ... (BTreeMap<VersionNum, Version>;
      VersionNum is compared by number only, types.rs:407-431). *)
  Definition history := list state.

  Fixpoint get_version {A} (h : list A) (v : N) : option A :=
    match h with
    | [] => None
    | s :: h' => if v =? 1 then Some s else if v =? 0 then None else get_version h' (v - 1)
    end.

  Definition res_of_opt {A} (o : option A) : res A := match o with Some a => Ok a | None => Err end.

  (** Inventory::diff_versions, inventory.rs:297-316 *)
  Definition diff_versions (h : history) (left : option N) (right : N) : res (list diff_entry) :=
    if match left with Some l => l =? right | None => false end then Ok []
    else
      res_bind
        (match left with
         | Some l => res_bind (res_of_opt (get_version h l)) (fun s => Ok (Some s))
         | None =>
             if 1 <? right
             then res_bind (res_of_opt (get_version h (right - 1))) (fun s => Ok (Some s))
             else Ok None
         end)
        (fun l => res_bind (res_of_opt (get_version h right)) (fun r => Ok (diff l r))).

  (** OcflRepo::diff_staged, repo.rs:478-490: the staged inventory holds the committed
      versions plus the staged head; [staged = None]: nothing staged for the object. *)
  Definition diff_staged (h : history) (staged : option state) : res (list diff_entry) :=
    match staged with
    | None => Ok []
    | Some s => diff_versions (h ++ [s]) None (N.of_nat (List.length h) + 1)
    end.

  (** list_file_versions, repo.rs:432-458: [cur] = current_digest, [v] = number of the
      version at the head of [h] *)
  Fixpoint file_versions_loop (p : P) (cur : option D) (v : N) (h : history) : list N :=
    match h with
    | [] => []
    | s :: h' =>
        match lookup p s with
        | Some d =>
            if match cur with None => true | Some c => negb (deqb c d) end
            then v :: file_versions_loop p (Some d) (v + 1) h'
            else file_versions_loop p cur (v + 1) h'
        | None =>
            match cur with
            | Some _ => v :: file_versions_loop p None (v + 1) h'
            | None => file_versions_loop p None (v + 1) h'
            end
        end
    end.

  Definition list_file_versions (h : history) (p : P) : res (list N) :=
    match file_versions_loop p None 1 h with
    | [] => Err                                   (* versions.is_empty() -> NotFound *)
    | vs => Ok vs
    end.

  (** construct_state, types.rs:1083-1186, reduced to the last_update attribution:
      [c] = current_version_num, [tgt] = target_path_map; the result pairs every path
      with the number of the version recorded in its FileDetails.  [fuel] bounds the
      walk (the number decreases in every round); running out of fuel = Panic (shown
      unreachable). *)
  Definition same_in (prev : state) (e : P * D) : bool :=
    match lookup (fst e) prev with
    | Some d' => deqb d' (snd e)
    | None => false
    end.

  Fixpoint cs_walk (fuel : nat) (h : history) (c : N) (tgt : state) : res (list (P * N)) :=
    match tgt with
    | [] => Ok []                                                   (* while !target_path_map.is_empty() *)
    | _ :: _ =>
        if c =? 1 then Ok (map (fun e => (fst e, c)) tgt)           (* types.rs:1110-1138 *)
        else match fuel with
             | O => Panic
             | S f =>
                 if c =? 0 then Panic                               (* previous(): 0 - 1 underflows, types.rs:283-294; unreachable *)
                 else
                   res_bind (res_of_opt (get_version h (c - 1)))    (* remove_version(previous) *)
                     (fun prev =>
                        let upd := filter (fun e => negb (same_in prev e)) tgt in
                        let not_found := filter (same_in prev) tgt in
                        res_bind (cs_walk f h (c - 1) not_found)
                          (fun rest => Ok (map (fun e => (fst e, c)) upd ++ rest)))
             end
    end.

  Definition last_updates (h : history) (target : N) : res (list (P * N)) :=
    res_bind (res_of_opt (get_version h target))
      (fun tgt => cs_walk (List.length h) h target tgt).

  Fixpoint lookup_lu (p : P) (l : list (P * N)) : option N :=
    match l with
    | [] => None
    | (q, v) :: l' => if peqb q p then Some v else lookup_lu p l'
    end.
End DiffModel.

Arguments Added {P}. Arguments Modified {P}. Arguments Deleted {P}. Arguments Renamed {P}.
Arguments lookup {P D}. Arguments keys {P D}. Arguments pmem {P}.
Arguments aget {D} deqb {V}. Arguments aset {D} deqb {V}. Arguments adel {D} deqb {V}.
Arguments sort_insert {P}. Arguments sort_paths {P}.
Arguments left_step {P D}. Arguments right_step {P D}. Arguments flush {P D}.
Arguments left_loop {P D}. Arguments right_loop {P D}.
Arguments mention {P}. Arguments mentions {P}.
Arguments removed {P}. Arguments inserted {P}. Arguments apply_diff {P}.
Arguments diff {P D}. Arguments diff_versions {P D}. Arguments diff_staged {P D}.
Arguments file_versions_loop {P D}. Arguments list_file_versions {P D}.
Arguments same_in {P D}. Arguments cs_walk {P D}. Arguments last_updates {P D}.
Arguments lookup_lu {P}.

(** Commit metadata.  [T] = DateTime<Local>. *)
Section Meta.
  Variable T : Type.

  Record commit_meta := mkCM {
    cm_name : option bytes; cm_address : option bytes; cm_message : option bytes; cm_created : option T }.

  (** CommitMeta::new / with_user / with_message / with_created, types.rs:1292-1326 *)
  Definition cm_new : commit_meta := mkCM None None None None.
  Definition with_user (m : commit_meta) (name address : option bytes) : res commit_meta :=
    match address, name with
    | Some _, None => Err
    | _, _ => Ok (mkCM name address (cm_message m) (cm_created m))
    end.
  Definition with_message (m : commit_meta) (message : option bytes) : commit_meta :=
    mkCM (cm_name m) (cm_address m) message (cm_created m).
  Definition with_created (m : commit_meta) (created : option T) : commit_meta :=
    mkCM (cm_name m) (cm_address m) (cm_message m) created.

  (** the metadata part of Version: user: Option<User{name: Option, address: Option}> *)
  Record vmeta := mkVM {
    vm_user : option (option bytes * option bytes); vm_message : option bytes; vm_created : T }.

  (** Version::update_meta, inventory.rs:634-641; [now] = Local::now() *)
  Definition update_meta (now : T) (meta : commit_meta) (v : vmeta) : vmeta :=
    mkVM (match cm_name meta with
          | Some name => Some (Some name, cm_address meta)     (* User::new(name, address) *)
          | None => None
          end)
         (cm_message meta)
         (match cm_created meta with Some c => c | None => now end).

  (** VersionDetails::from_version, types.rs:1253-1266: (name, address, message, created) *)
  Definition details (v : vmeta) : option bytes * option bytes * option bytes * T :=
    let '(name, address) := match vm_user v with Some u => u | None => (None, None) end in
    (name, address, vm_message v, vm_created v).

  (** list_object_versions, repo.rs:358-369: the BTreeMap in ascending order *)
  Fixpoint log_from (v : N) (h : list vmeta) : list (N * (option bytes * option bytes * option bytes * T)) :=
    match h with
    | [] => []
    | m :: h' => (v, details m) :: log_from (v + 1) h'
    end.
  Definition object_log (h : list vmeta) := log_from 1 h.
End Meta.
Arguments mkCM {T}. Arguments cm_new {T}. Arguments with_user {T}. Arguments with_message {T}.
Arguments with_created {T}. Arguments mkVM {T}. Arguments update_meta {T}. Arguments details {T}.
Arguments log_from {T}. Arguments object_log {T}.
Arguments cm_name {T}. Arguments cm_address {T}. Arguments cm_message {T}. Arguments cm_created {T}.
Arguments vm_user {T}. Arguments vm_message {T}. Arguments vm_created {T}.
