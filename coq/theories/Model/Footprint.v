(** File-system footprint of rocfl's operations (C03, C12): path algebra, the path
    computations of rocfl transcribed from the Rust, the set of paths each kind of
    operation may mutate ([allowed]) and the generating model of the system calls of
    the fault-free runs ([gen]).  Definitions only; lemmas in Proofs/Footprint*.v.

    Vocabulary: [fsop] / [fpath] of Model/FsOps.v - the abstraction vplib/strace.py
    produces from the system calls of the real process.  A path STRING as the Rust code
    builds it ([PathBuf::join], [format!]) is [bytes]; what the kernel resolves it to
    (no symbolic links) is [normalize base string]. *)
From Rocfl Require Import Base.Bytes Model.FsOps Generated.Consts.
Open Scope N_scope.

(** * (a) path algebra *)

Definition SLASH : ascii := "/"%char.

(** [str::split('/')]: the pieces between the separators, always at least one *)
Fixpoint split_slash (s : bytes) : list bytes :=
  match s with
  | [] => [[]]
  | c :: t =>
      if Ascii.eqb c SLASH then [] :: split_slash t
      else match split_slash t with p :: r => (c :: p) :: r | [] => [[c]] end
  end.

Definition is_abs (s : bytes) : bool := match s with c :: _ => Ascii.eqb c SLASH | [] => false end.
Definition is_dot (p : bytes) : bool := seg_eqb p (b ".").
Definition is_dotdot (p : bytes) : bool := seg_eqb p (b "..").
(** pieces that name nothing: the empty piece ("a//b", trailing '/') and "." *)
Definition is_skip (p : bytes) : bool := match p with [] => true | _ => is_dot p end.

(** one step of lexical resolution: ".." pops (at the root it stays at the root, as in the kernel) *)
Definition nstep (acc : fpath) (p : bytes) : fpath :=
  if is_skip p then acc else if is_dotdot p then removelast acc else acc ++ [p].

(** [base.join(rel)] resolved as the OS does without symbolic links: an absolute [rel]
    REPLACES the base ([PathBuf::push] semantics = resolution restarts at the root) *)
Definition normalize (base : fpath) (rel : bytes) : fpath :=
  fold_left nstep (split_slash rel) (if is_abs rel then [] else base).

Definition within (root p : fpath) : bool := under root p.

Definition fpath_eqb (a c : fpath) : bool := under a c && Nat.eqb (List.length a) (List.length c).
Definition mem_path (p : fpath) (l : list fpath) : bool := existsb (fpath_eqb p) l.
Definition mem_seg (s : fseg) (l : list fseg) : bool := existsb (seg_eqb s) l.

(** the components of a path string that are not skipped: [Normal] and [ParentDir] components of
    [std::path::Path::components] (interior and trailing "." and empty pieces are dropped there
    too; a leading "." is reported as [CurDir] and names nothing) *)
Definition ncomps (s : bytes) : list bytes := filter (fun p => negb (is_skip p)) (split_slash s).
Definition no_dotdot (s : bytes) : bool := forallb (fun p => negb (is_dotdot p)) (ncomps s).
Definition is_nil {A} (l : list A) : bool := match l with [] => true | _ => false end.

(** every component is [Normal] or [CurDir] (no [RootDir], no [ParentDir]) *)
Definition rel_inside (s : bytes) : bool := negb (is_abs s) && no_dotdot s.
(** ... and there is at least one [Normal] component *)
Definition rel_safe (s : bytes) : bool := rel_inside s && negb (is_nil (ncomps s)).

(** a path segment that is a [Normal] component: not empty, not "." or "..", no '/' *)
Definition seg_normal (s : bytes) : bool :=
  negb (is_skip s) && negb (is_dotdot s) && forallb (fun c => negb (Ascii.eqb c SLASH)) s.

(** * (b) the path computations of rocfl *)

(** util.rs:68-82 *)
Fixpoint trim_leading_slashes (s : bytes) : bytes :=
  match s with c :: t => if Ascii.eqb c SLASH then trim_leading_slashes t else s | [] => [] end.
Definition trim_trailing_slashes (s : bytes) : bytes := rev (trim_leading_slashes (rev s)).
Definition trim_slashes (s : bytes) : bytes := trim_trailing_slashes (trim_leading_slashes s).

(** [InventoryPathInner::try_from], types.rs:765-788 - the rule of every [LogicalPath] and
    [ContentPath]: leading/trailing slashes trimmed, then no "", "." or ".." part.
    [None] = InvalidValue *)
Definition inv_path_parse (value : bytes) : option bytes :=
  let t := trim_slashes value in
  match t with
  | [] => Some []
  | _ => if existsb (fun p => is_nil p || is_dot p || is_dotdot p) (split_slash t) then None else Some t
  end.

(** validate/mod.rs:52-61: the content directory may not be "." or ".." and may not contain '/' *)
Definition validate_content_dir (d : bytes) : bool :=
  negb (is_dot d || is_dotdot d || existsb (fun c => Ascii.eqb c SLASH) d).
(** create_object, repo.rs:578-591: in addition the name may not be blank, inventory.json or
    inventory.json.* (the theorems about staged paths need [validate_content_dir] only) *)
Definition create_content_dir_ok (d : bytes) : bool :=
  validate_content_dir d
  && negb (is_nil d || seg_eqb d K_INVENTORY_FILE || starts_with K_INVENTORY_SIDECAR_PREFIX d).

(** [VersionNum::to_string] = "v" followed by decimal digits (zero padded), types.rs:393-399;
    Model/VersionNum.v proves this shape of [vdisplay]; here the string is an input *)
Definition is_vstr (v : bytes) : bool :=
  match v with
  | c :: ds => Ascii.eqb c "v"%char && negb (is_nil ds) && forallb is_digit ds
  | [] => false
  end.

(** [Inventory::new_content_path] -> [ContentPath::for_logical_path], inventory.rs:483-485,
    types.rs:749-760: format!("{}/{}/{}", version_num, content_dir, logical_path) *)
Definition new_content_path (vstr cdir lpath : bytes) : bytes :=
  vstr ++ SLASH :: cdir ++ SLASH :: lpath.

(** the staging root, repo.rs:57-61 + paths.rs:73-81 *)
Definition default_staging (R : fpath) : fpath := R ++ [K_EXTENSIONS_DIR; K_ROCFL_STAGING_EXTENSION].
Definition staging_root (R : fpath) (ext : option fpath) : fpath :=
  match ext with Some s => s | None => default_staging R end.

Definition is_hex_digit (c : ascii) : bool :=
  ((48 <=? code c) && (code c <=? 57)) || ((97 <=? code c) && (code c <=? 102)).
Definition hex_ok (h : bytes) : bool := negb (is_nil h) && forallb is_hex_digit h.

(** the staging store always uses layout 0004 with its defaults (repo.rs:1416-1424:
    sha256, tupleSize 3, numberOfTuples 3, shortObjectRoot false): layout.rs:427-453 gives
    "abc/def/012/abcdef012..." - the id enters ONLY through the hex digest [hex] *)
Definition hashed_rel (hex : bytes) : bytes :=
  firstn 3 hex ++ SLASH :: firstn 3 (skipn 3 hex) ++ SLASH :: firstn 3 (skipn 6 hex) ++ SLASH :: hex.
(** fs.rs:679-682: storage_root.join(layout path) *)
Definition staged_root (S : fpath) (hex : bytes) : fpath := normalize S (hashed_rel hex).
(** paths.rs:84-92, lock.rs:32-34: <staging>/extensions/rocfl-locks/<sha256(id)>.lock *)
Definition locks_dir (S : fpath) : fpath := S ++ [K_EXTENSIONS_DIR; K_ROCFL_LOCKS_EXTENSION].
Definition lock_file (S : fpath) (hex : bytes) : fpath := normalize (locks_dir S) (hex ++ b ".lock").

(** fs.rs:369-381: the storage-root relative root of a NEW object: the layout path of the id
    or, without layout, trim_slashes(--object-root) *)
Definition new_object_rel (layout_path object_root_arg : option bytes) : option bytes :=
  match layout_path with
  | Some p => Some p
  | None => match object_root_arg with Some r => Some (trim_slashes r) | None => None end
  end.
(** fs.rs:385 / 430 / 498: storage_root.join(root path) *)
Definition main_root (R : fpath) (rel : bytes) : fpath := normalize R rel.

(** ** pre-state summary *)
Record mobj := mkObj {
  m_root : fpath;                (* root directory of an object of the main repository *)
  m_versions : list fseg }.      (* its version directories (committed) *)
Record pre := mkPre {
  p_objs : list mobj;            (* the objects of the main repository *)
  p_staged : list fpath;         (* object roots (directories with a 0=ocfl_object_ file) below the staging root *)
  p_occupied : bool }.           (* the target path of the new object exists although no object lies at or below it *)

(** fs.rs:1107-1121 [is_object_root]: the directory contains a file named 0=ocfl_object_* *)
Definition is_object_root (s : pre) (p : fpath) : bool :=
  existsb (fun o => fpath_eqb (m_root o) p) (p_objs s) || mem_path p (p_staged s).

(** the proper ancestors of R/c1/../cn that lie below R: R/c1, ..., R/c1/../c(n-1) *)
Fixpoint proper_prefixes (acc : fpath) (cs : list fseg) : list fpath :=
  match cs with
  | [] => []
  | c :: t => match t with [] => [] | _ => (acc ++ [c]) :: proper_prefixes (acc ++ [c]) t end
  end.

(** [validate_object_root], fs.rs:158-206 (fixes 3d2a8ca, 4ac5c07, a1975f1), used for "create"
    and for "purge": every component Normal or CurDir, the first Normal component is not
    `extensions` (reserved by OCFL for the storage root; rocfl's staging lives there), at least
    one Normal component (current != storage_root), and no proper ancestor directory is an
    object root.  (An I/O error of the directory probe is a refusal as well.) *)
Definition first_is_extensions (rel : bytes) : bool :=
  match ncomps rel with sg :: _ => seg_eqb sg K_EXTENSIONS_DIR | [] => false end.
Definition validate_object_root (s : pre) (R : fpath) (rel : bytes) : bool :=
  rel_safe rel && negb (first_is_extensions rel)
  && forallb (fun a => negb (is_object_root s a)) (proper_prefixes R (ncomps rel)).

(** fs.rs:387-393: storage_path.exists() *)
Definition target_exists (s : pre) (N : fpath) : bool :=
  p_occupied s || existsb (fun o => under N (m_root o)) (p_objs s) || existsb (under N) (p_staged s).

Definition new_root_ok (s : pre) (R : fpath) (rel : bytes) : bool :=
  validate_object_root s R rel && negb (target_exists s (main_root R rel)).

Definition mobj_at (s : pre) (p : fpath) : option mobj := find (fun o => fpath_eqb (m_root o) p) (p_objs s).

(** [p] is [base/sg] for a name [sg] accepted by [ok] *)
Definition last_seg (p : fpath) : option fseg := match rev p with sg :: _ => Some sg | [] => None end.
Definition child_with (base p : fpath) (ok : fseg -> bool) : bool :=
  match last_seg p with Some sg => ok sg && fpath_eqb p (base ++ [sg]) | None => false end.

(** names in an object root *)
Definition is_sidecar (s : fseg) : bool :=
  starts_with K_INVENTORY_SIDECAR_PREFIX s && Nat.ltb (List.length K_INVENTORY_SIDECAR_PREFIX) (List.length s) && seg_normal s.
Definition is_obj_decl (s : fseg) : bool := starts_with K_OBJECT_NAMASTE_FILE_PREFIX s && seg_normal s.
Definition is_root_decl (s : fseg) : bool := starts_with K_ROOT_NAMASTE_FILE_PREFIX s && seg_normal s.
Definition is_spec_file (s : fseg) : bool := starts_with (b "ocfl_") s && seg_normal s.

(** * (c) what an operation may mutate *)

Inductive opkind :=
| KNew | KCpExt | KMvExt | KCpInt | KMvInt | KRm | KReset | KResetAll
| KCommit | KUpgrade | KPurge | KInit | KUpgradeRepo.

Record cfg := mkCfg {
  c_root : fpath;                (* storage root (absolute) *)
  c_stg : fpath }.               (* staging root (absolute): [staging_root] *)

Record opd := mkOp {
  o_kind : opkind;
  o_hex : bytes;                 (* lower-case hex sha256 of the object id *)
  o_head : bytes;                (* name of the head version directory of the staged version, "v3" *)
  o_rel : bytes;                 (* storage-root relative root of the object in the main repository:
                                    existing object: its root; new object: [new_object_rel] *)
  o_exists : bool;               (* the object exists in the main repository *)
  o_srcs : list fpath;           (* mv (external): the named sources, lexically normalised (what the calls name) *)
  o_csrcs : list fpath }.        (* mv (external): fs::canonicalize of the named sources that exist (symbolic
                                    links and ".." resolved); equal to [o_srcs] when no symbolic link is involved *)

(** [is_relative_descendant], fs.rs:1173-1185 (fix 3fb070d): plain components only and at least one;
    [get_inventory_by_path] (fs.rs:232-238) answers NotFound for any other layout path, whatever
    lies there: for this repository the object does not exist *)
Definition is_relative_descendant (rel : bytes) : bool := rel_safe rel.
Definition o_found (o : opd) : bool := o_exists o && is_relative_descendant (o_rel o).

Definition S_o (c : cfg) (o : opd) : fpath := staged_root (c_stg c) (o_hex o).
Definition lockf (c : cfg) (o : opd) : fpath := lock_file (c_stg c) (o_hex o).
Definition N_o (c : cfg) (o : opd) : fpath := main_root (c_root c) (o_rel o).
Definition S_head (c : cfg) (o : opd) : fpath := normalize (S_o c o) (o_head o).   (* paths.rs:40-46 *)
Definition N_head (c : cfg) (o : opd) : fpath := normalize (N_o c o) (o_head o).

(** the staging repository itself, created on first use: [init_if_needed] -> [init_new_repo]
    (fs.rs:110-120, 1289-1379; always spec 1.0 and layout 0004) and the locks directory
    (repo.rs:1426-1436).  [create_dir_all] also creates missing ancestors of the staging root. *)
Definition stage_infra (c : cfg) (f : fsop) : bool :=
  let S := c_stg c in
  let E := S ++ [K_EXTENSIONS_DIR] in
  match f with
  | Mkdir p => under p S || mem_path p [E; E ++ [K_HASHED_NTUPLE_LAYOUT_EXTENSION]; locks_dir S]
  | Create p => mem_path p [S ++ [K_ROOT_NAMASTE_FILE_1_0]; S ++ [b "ocfl_1.0.txt"]; S ++ [K_OCFL_LAYOUT_FILE];
                            S ++ [K_HASHED_NTUPLE_LAYOUT_EXTENSION ++ b ".md"];
                            E ++ [K_HASHED_NTUPLE_LAYOUT_EXTENSION; K_EXTENSIONS_CONFIG_FILE]]
  | _ => false
  end.

(** lock.rs:32-45 (create_new) and 49-58 (drop) *)
Definition stage_lock (c : cfg) (o : opd) (f : fsop) : bool :=
  match f with
  | CreateNew p | Unlink p => fpath_eqb p (lockf c o)
  | _ => false
  end.

(** the n-tuple directories from the staging root down to the staged object root:
    [create_dir_all] in stage_object (fs.rs:686) and [clean_dirs_up] after a purge of the
    staged object (fs.rs:533-543, util.rs:14-23) *)
Definition stage_anc (c : cfg) (o : opd) (f : fsop) : bool :=
  match f with
  | Mkdir p | Rmdir p => below (c_stg c) p && under p (S_o c o)
  | _ => false
  end.

(** anything strictly below the staged object root (fs.rs:660-871 resolve every path from the
    staged inventory's storage_path) *)
Definition stage_body (c : cfg) (o : opd) (f : fsop) : bool :=
  match f with
  | Mkdir p | CreateNew p | Create p | Unlink p | Rmdir p => below (S_o c o) p
  | Rename a d => below (S_o c o) a && below (S_o c o) d
  | Other k p => (k =? 3) && below (S_o c o) p          (* fchmod of fs::copy *)
  end.

(** which kinds of calls the body of an operation kind issues below the staged root *)
Definition body_ops (k : opkind) (f : fsop) : bool :=
  match k, f with
  | (KInit | KUpgradeRepo), _ => false
  | (KCommit | KUpgrade), _ => true
  | (KResetAll | KPurge), (Unlink _ | Rmdir _) => true
  | (KResetAll | KPurge), _ => false
  | _, (Mkdir _ | CreateNew _ | Create _) => true       (* stage_object, stage_inventory, file copies *)
  | KCpInt, Other _ _ => true                           (* fs::copy *)
  | KMvInt, (Rename _ _ | Rmdir _) => true              (* move_staged_file *)
  | (KRm | KReset), (Unlink _ | Rmdir _) => true        (* rm_staged_files *)
  | _, _ => false
  end.

Definition takes_lock (k : opkind) : bool :=
  match k with KResetAll | KPurge | KInit | KUpgradeRepo => false | _ => true end.
Definition uses_staging (k : opkind) : bool :=
  match k with KInit | KUpgradeRepo => false | _ => true end.

(** mv (external) refuses, before doing anything, when a named source is part of the repository
    (fix 128b230): repo.rs:721-730 asks [contains_local_path] (fs.rs:679-685: canonicalize(path)
    starts_with canonicalize(root) or vice versa) of the main store and of the staging store.
    [get_staging] may have to create the staging repository for that question. *)
Definition src_in_repo (c : cfg) (s : fpath) : bool :=
  under (c_root c) s || under s (c_root c) || under (c_stg c) s || under s (c_stg c).
Definition mv_refused (c : cfg) (o : opd) : bool := existsb (src_in_repo c) (o_csrcs o).
(** does the operation get past its up-front refusals? *)
Definition op_runs (c : cfg) (o : opd) : bool :=
  match o_kind o with KMvExt => negb (mv_refused c o) | _ => true end.

(** mv (external): [fs::rename(source file, staged path)] (fs.rs:755-770) and
    [clean_dirs_down] of the named source directories (repo.rs:711-718, util.rs:25-36) *)
Definition mv_sources (c : cfg) (o : opd) (f : fsop) : bool :=
  match f with
  | Rename a d => existsb (fun s => under s a) (o_srcs o) && below (S_o c o) d
  | Rmdir p => existsb (fun s => under s p) (o_srcs o)
  | Unlink p => existsb (fun s => under s p) (o_srcs o)   (* a named source that is a symbolic link: its content is
                                                            copied into the staged version (a Create of the body) and the
                                                            link itself removed (repo.rs move_file) *)
  | _ => false
  end.

(** commit of a NEW object, fs.rs:361-403: only if the guard accepts and the target does not
    exist: create_dir_all(parent) - the parent may be the storage root itself, whose mkdir is a
    failing EEXIST probe - and one rename of the whole staged object *)
Definition commit_new (c : cfg) (s : pre) (o : opd) (f : fsop) : bool :=
  negb (o_found o) && new_root_ok s (c_root c) (o_rel o) &&
  match f with
  | Mkdir p => under (c_root c) p && below p (N_o c o)
  | Rename a d => fpath_eqb a (S_o c o) && fpath_eqb d (N_o c o)
  | _ => false
  end.

(** commit of a new VERSION, fs.rs:410-484: the version directory that does not exist yet is
    renamed in (and back, in the rollback branch), root inventory and sidecar are overwritten
    (fs::copy = create + fchmod; rollback: fs::write), on a spec upgrade the new declaration is
    created and the old ones are unlinked *)
Definition commit_version (c : cfg) (s : pre) (o : opd) (f : fsop) : bool :=
  o_found o &&
  match mobj_at s (N_o c o) with
  | None => false
  | Some m =>
      let root_file (p : fpath) (ok : fseg -> bool) := child_with (N_o c o) p ok in
      match f with
      | Rename a d =>
          negb (mem_seg (o_head o) (m_versions m)) && is_vstr (o_head o) &&
          ((fpath_eqb a (S_head c o) && fpath_eqb d (N_head c o)) ||
           (fpath_eqb a (N_head c o) && fpath_eqb d (S_head c o)))
      | Create p => root_file p (fun sg => seg_eqb sg K_INVENTORY_FILE || is_sidecar sg)
      | Other k p => (k =? 3) && root_file p (fun sg => seg_eqb sg K_INVENTORY_FILE || is_sidecar sg)
      | CreateNew p | Unlink p =>
          match o_kind o with KUpgrade => root_file p is_obj_decl | _ => false end
      | _ => false
      end
  end.

(** purge of an object, fs.rs:499-561 (fixes 4f95370, 4ac5c07, 11ac34d) - the same function
    serves the main repository and the staging repository (reset, and the end of commit):
    [validate_object_root] must accept the root path; an existing directory is removed if it is
    an object root (and, when its inventory parses, carries the purged id: [idok]), or if it is
    no object root and no object root lies beneath it ([contains_object_root], fs.rs:1138-1147:
    debris of a failed operation); then the emptied ancestors ([clean_dirs_up] stops at the
    storage root, which is never empty; this also runs when the path does not exist) *)
Definition any_root_below (s : pre) (N : fpath) : bool :=
  existsb (fun m => below N (m_root m)) (p_objs s) || existsb (below N) (p_staged s).
Definition purge_removes (s : pre) (idok : bool) (N : fpath) : bool :=
  if is_object_root s N then idok else negb (any_root_below s N).

Definition purge_main (c : cfg) (s : pre) (o : opd) (f : fsop) : bool :=
  validate_object_root s (c_root c) (o_rel o) &&
  match f with
  | Unlink p => purge_removes s (o_exists o) (N_o c o) && below (N_o c o) p
  | Rmdir p => (purge_removes s (o_exists o) (N_o c o) && under (N_o c o) p)
               || (below (c_root c) p && below p (N_o c o))
  | _ => false
  end.

(** reset / purge remove the staged object directory under the same rule *)
Definition body_gate (c : cfg) (s : pre) (o : opd) : bool :=
  match o_kind o with KResetAll | KPurge => purge_removes s true (S_o c o) | _ => true end.

(** init (fs.rs:1289-1379): the storage root, its ancestors, files and the layout extension
    directory inside it;  upgrade of the repository (fs.rs:638-650) *)
Definition init_ops (c : cfg) (f : fsop) : bool :=
  match f with
  | Mkdir p => under p (c_root c) || below (c_root c ++ [K_EXTENSIONS_DIR]) p || fpath_eqb p (c_root c ++ [K_EXTENSIONS_DIR])
  | Create p => below (c_root c) p
  | _ => false
  end.
Definition upgrade_repo_ops (c : cfg) (f : fsop) : bool :=
  match f with
  | Create p => child_with (c_root c) p (fun sg => (is_root_decl sg || is_spec_file sg) && negb (is_obj_decl sg))
  | Unlink p => child_with (c_root c) p is_root_decl
  | _ => false
  end.

(** THE predicate: may operation [o] in configuration [c] and pre-state [s] issue [f]? *)
Definition allowed (c : cfg) (s : pre) (o : opd) (f : fsop) : bool :=
  let k := o_kind o in
  (uses_staging k && stage_infra c f)
  || (op_runs c o &&
      ((takes_lock k && stage_lock c o f)
       || (uses_staging k && stage_anc c o f)
       || (body_ops k f && stage_body c o f && body_gate c s o)
       || (match k with KMvExt => mv_sources c o f | _ => false end)
       || (match k with KCommit | KUpgrade => commit_new c s o f || commit_version c s o f | _ => false end)
       || (match k with KPurge => purge_main c s o f | _ => false end)
       || (match k with KInit => init_ops c f | _ => false end)
       || (match k with KUpgradeRepo => upgrade_repo_ops c f | _ => false end))).

(** ** the zones of the two properties *)

(** C12: where a target may lie *)
Definition in_zone (c : cfg) (o : opd) (f : fsop) (p : fpath) : bool :=
  under (c_root c) p || under (c_stg c) p
  || (match f with Mkdir _ => under p (c_stg c) || under p (c_root c) | _ => false end)
  || (match o_kind o with KMvExt => existsb (fun s => under s p) (o_srcs o) | _ => false end).

(** C03: inside a committed version directory of some object *)
Definition in_committed (s : pre) (p : fpath) : bool :=
  existsb (fun m => existsb (fun v => under (m_root m ++ [v]) p) (m_versions m)) (p_objs s).

(** the only entries directly inside an object root that an operation other than purge touches *)
Definition root_entry_ok (o : opd) (m : mobj) (sg : fseg) : bool :=
  seg_eqb sg K_INVENTORY_FILE || is_sidecar sg || is_obj_decl sg
  || (seg_eqb sg (o_head o) && negb (mem_seg sg (m_versions m))).

(** * (d) the generating model: the calls of the fault-free run *)

(** abstract inputs of one operation (nothing here comes from the system-call trace) *)
Record gin := mkGin {
  g_restage : option fseg;            (* stage_object runs: name of the declaration file it creates *)
  g_sidecar : fseg;                   (* inventory.json.<digestAlgorithm> *)
  g_create : list bytes;              (* content paths (relative to the staged root) written with File::create *)
  g_copy : list bytes;                (* content paths written with fs::copy (create + fchmod) *)
  g_rename : list (bytes * bytes);    (* staged content path -> staged content path *)
  g_mvsrc : list (fpath * bytes);     (* external file -> content path *)
  g_remove : list bytes;              (* content paths unlinked *)
  g_srcdirs : list fpath;             (* directories at/below the mv sources *)
  g_files : list fpath;               (* purge / reset: files below the purged root *)
  g_dirs : list fpath;                (* purge / reset: directories below the purged root *)
  g_olddecl : list fseg;              (* upgrade: declarations removed *)
  g_newdecl : option fseg }.          (* upgrade: declaration created *)

(** [create_dir_all]: one mkdir per missing directory, parents first *)
Fixpoint mkdir_chain (acc : fpath) (segs : list fseg) : list fsop :=
  match segs with
  | [] => []
  | sg :: t => Mkdir (acc ++ [sg]) :: mkdir_chain (acc ++ [sg]) t
  end.
(** [clean_dirs_up]: rmdir of the emptied directories, deepest first (as a set: same paths) *)
Fixpoint rmdir_chain (acc : fpath) (segs : list fseg) : list fsop :=
  match segs with
  | [] => []
  | sg :: t => rmdir_chain (acc ++ [sg]) t ++ [Rmdir (acc ++ [sg])]
  end.

Definition may (f : fsop) : bool * fsop := (false, f).
Definition must (f : fsop) : bool * fsop := (true, f).

Definition g_infra (c : cfg) : list (bool * fsop) :=
  let S := c_stg c in
  let E := S ++ [K_EXTENSIONS_DIR] in
  map may (mkdir_chain [] S ++
           [Create (S ++ [K_ROOT_NAMASTE_FILE_1_0]); Create (S ++ [b "ocfl_1.0.txt"]); Create (S ++ [K_OCFL_LAYOUT_FILE]);
            Mkdir E; Mkdir (E ++ [K_HASHED_NTUPLE_LAYOUT_EXTENSION]);
            Create (E ++ [K_HASHED_NTUPLE_LAYOUT_EXTENSION; K_EXTENSIONS_CONFIG_FILE]);
            Create (S ++ [K_HASHED_NTUPLE_LAYOUT_EXTENSION ++ b ".md"]); Mkdir (locks_dir S)]).

Definition g_acquire (c : cfg) (o : opd) : list (bool * fsop) := [must (CreateNew (lockf c o))].
Definition g_release (c : cfg) (o : opd) : list (bool * fsop) := [must (Unlink (lockf c o))].

Definition g_inventory (c : cfg) (o : opd) (g : gin) : list (bool * fsop) :=
  [must (Create (S_o c o ++ [K_INVENTORY_FILE])); must (Create (S_o c o ++ [g_sidecar g]))].

(** stage_object, fs.rs:662-692 *)
Definition g_stage_object (c : cfg) (o : opd) (g : gin) : list (bool * fsop) :=
  match g_restage g with
  | None => []
  | Some decl =>
      map may (mkdir_chain (c_stg c) (ncomps (hashed_rel (o_hex o))))
      ++ [must (CreateNew (S_o c o ++ [decl]))] ++ g_inventory c o g
  end.

(** a file below the staged root given by its content path: parents, then the file *)
Definition g_parents (c : cfg) (o : opd) (cp : bytes) : list (bool * fsop) :=
  map may (mkdir_chain (S_o c o) (removelast (ncomps cp))).
Definition g_cleanup (c : cfg) (o : opd) (cp : bytes) : list (bool * fsop) :=
  map may (rmdir_chain (S_o c o) (removelast (ncomps cp))).
Definition g_file (c : cfg) (o : opd) (cp : bytes) : fpath := normalize (S_o c o) cp.

Definition g_body (c : cfg) (o : opd) (g : gin) : list (bool * fsop) :=
  flat_map (fun cp => g_parents c o cp ++ [must (Create (g_file c o cp))]) (g_create g)
  ++ flat_map (fun cp => g_parents c o cp ++ [must (Create (g_file c o cp)); must (Other 3 (g_file c o cp))]) (g_copy g)
  ++ flat_map (fun ab => g_parents c o (snd ab) ++ [must (Rename (g_file c o (fst ab)) (g_file c o (snd ab)))]
                         ++ g_cleanup c o (fst ab)) (g_rename g)
  ++ flat_map (fun sd => g_parents c o (snd sd) ++ [must (Rename (fst sd) (g_file c o (snd sd)))]) (g_mvsrc g)
  ++ flat_map (fun cp => [must (Unlink (g_file c o cp))] ++ g_cleanup c o cp) (g_remove g).

(** purge of the staged object: remove_dir_all + clean_dirs_up *)
Definition g_purge_staged (c : cfg) (o : opd) (g : gin) : list (bool * fsop) :=
  map (fun p => must (Unlink p)) (g_files g) ++ map (fun p => must (Rmdir p)) (g_dirs g)
  ++ map may (rmdir_chain (c_stg c) (ncomps (hashed_rel (o_hex o)))).

(** stage_inventory(finalize = true), fs.rs:838-870 *)
Definition g_finalize (c : cfg) (o : opd) (g : gin) : list (bool * fsop) :=
  g_inventory c o g
  ++ [may (Mkdir (S_head c o));
      must (Create (S_head c o ++ [K_INVENTORY_FILE])); must (Other 3 (S_head c o ++ [K_INVENTORY_FILE]));
      must (Create (S_head c o ++ [g_sidecar g])); must (Other 3 (S_head c o ++ [g_sidecar g]))].

Definition g_install (c : cfg) (o : opd) (g : gin) : list (bool * fsop) :=
  if o_found o then
    [must (Rename (S_head c o) (N_head c o));
     must (Create (N_o c o ++ [K_INVENTORY_FILE])); must (Other 3 (N_o c o ++ [K_INVENTORY_FILE]));
     must (Create (N_o c o ++ [g_sidecar g])); must (Other 3 (N_o c o ++ [g_sidecar g]))]
    ++ (match o_kind o, g_newdecl g with
        | KUpgrade, Some d => must (CreateNew (N_o c o ++ [d])) :: map (fun x => must (Unlink (N_o c o ++ [x]))) (g_olddecl g)
        | _, _ => []
        end)
  else
    map may (mkdir_chain (c_root c) (removelast (ncomps (o_rel o))))
    ++ [must (Rename (S_o c o) (N_o c o))].

Definition gen (c : cfg) (o : opd) (g : gin) : list (bool * fsop) :=
  match o_kind o with
  | KInit | KUpgradeRepo => []                        (* not generated: only [allowed] is checked *)
  | KResetAll => g_infra c ++ g_purge_staged c o g
  | KPurge =>
      g_infra c
      ++ map (fun p => must (Unlink p)) (g_files g) ++ map (fun p => must (Rmdir p)) (g_dirs g)
      ++ map may (rmdir_chain (c_stg c) (ncomps (hashed_rel (o_hex o))))
      ++ map may (rmdir_chain (c_root c) (removelast (ncomps (o_rel o))))
  | KCommit | KUpgrade =>
      g_infra c ++ g_acquire c o ++ g_stage_object c o g ++ g_body c o g ++ g_finalize c o g
      ++ g_install c o g ++ g_purge_staged c o g ++ g_release c o
  | _ =>
      g_infra c ++ g_acquire c o ++ g_stage_object c o g ++ g_body c o g ++ g_inventory c o g
      ++ g_release c o ++ map (fun p => may (Rmdir p)) (g_srcdirs g)
      ++ map (fun p => may (Unlink p)) (match o_kind o with KMvExt => o_srcs o | _ => [] end)
  end.

(** input conditions of [gen] (what the callers of the modelled functions guarantee) *)
Definition seg_ok (sg : fseg) : bool := seg_normal sg.
Definition gin_ok (c : cfg) (s : pre) (o : opd) (g : gin) : bool :=
  hex_ok (o_hex o) && is_vstr (o_head o) && op_runs c o
  && is_sidecar (g_sidecar g)
  && match g_restage g with Some d => is_obj_decl d | None => true end
  && forallb rel_safe (g_create g) && forallb rel_safe (g_copy g) && forallb rel_safe (g_remove g)
  && forallb (fun ab => rel_safe (fst ab) && rel_safe (snd ab)) (g_rename g)
  && forallb (fun sd => rel_safe (snd sd) && existsb (fun x => under x (fst sd)) (o_srcs o)) (g_mvsrc g)
  && forallb (fun d => existsb (fun x => under x d) (o_srcs o)) (g_srcdirs g)
  && match o_kind o with
     | KMvExt => true
     | _ => is_nil (g_mvsrc g) && is_nil (g_srcdirs g)
     end
  && match o_kind o with
     | KCpInt => true | KCommit | KUpgrade => true
     | _ => is_nil (g_copy g)
     end
  && match o_kind o with
     | KMvInt | KCommit | KUpgrade => true
     | _ => is_nil (g_rename g)
     end
  && match o_kind o with
     | KRm | KReset | KCommit | KUpgrade => true
     | _ => is_nil (g_remove g)
     end
  && match o_kind o with
     | KResetAll =>
         (purge_removes s true (S_o c o) || (is_nil (g_files g) && is_nil (g_dirs g)))
         && forallb (fun p => below (S_o c o) p) (g_files g) && forallb (fun p => under (S_o c o) p) (g_dirs g)
     | KCommit | KUpgrade =>
         forallb (fun p => below (S_o c o) p) (g_files g) && forallb (fun p => under (S_o c o) p) (g_dirs g)
     | KPurge =>
         validate_object_root s (c_root c) (o_rel o)
         && forallb (fun p => (purge_removes s (o_exists o) (N_o c o) && below (N_o c o) p)
                              || (purge_removes s true (S_o c o) && below (S_o c o) p)) (g_files g)
         && forallb (fun p => (purge_removes s (o_exists o) (N_o c o) && under (N_o c o) p)
                              || (purge_removes s true (S_o c o) && under (S_o c o) p)) (g_dirs g)
     | _ => is_nil (g_files g) && is_nil (g_dirs g)
     end
  && match o_kind o with
     | KResetAll | KPurge => match g_restage g with None => is_nil (g_create g) | Some _ => false end
     | KCommit | KUpgrade =>
         if o_found o then
           match mobj_at s (N_o c o) with
           | Some m => negb (mem_seg (o_head o) (m_versions m))
           | None => false
           end
           && forallb is_obj_decl (g_olddecl g) && match g_newdecl g with Some d => is_obj_decl d | None => true end
         else new_root_ok s (c_root c) (o_rel o)
     | _ => true
     end.

(** the observed calls are covered by the model, and the calls the model marks [must] occurred *)
Definition fsop_eqb (x y : fsop) : bool :=
  match x, y with
  | Mkdir p, Mkdir q | CreateNew p, CreateNew q | Create p, Create q | Unlink p, Unlink q | Rmdir p, Rmdir q => fpath_eqb p q
  | Rename a d, Rename a' d' => fpath_eqb a a' && fpath_eqb d d'
  | Other k p, Other k' q => (k =? k') && fpath_eqb p q
  | _, _ => false
  end.
Definition covers (model : list (bool * fsop)) (observed : list fsop) : bool :=
  forallb (fun f => existsb (fun m => fsop_eqb (snd m) f) model) observed
  && forallb (fun m => negb (fst m) || existsb (fsop_eqb (snd m)) observed) model.
