(** Shared vocabulary of the file-system level models (C03, C04, C05, C12):
    absolute paths as segment lists and the mutating file-system operations a
    process can issue, exactly the abstraction vplib/strace.py produces from the
    system calls of the real rocfl process (Trace.ops):

      ("mkdir",p) ("createnew",p) ("create",p) ("rename",a,b) ("unlink",p) ("rmdir",p)
      and the kinds rocfl never issues: link, symlink, chmod, utime, truncate.

    Definitions only. *)
From Coq Require Import List NArith Ascii Bool.
Import ListNotations.

(** a path after normalisation by the driver: absolute, split at '/', no empty,
    "." or ".." component left (".." is resolved against the parent as the OS does) *)
Notation fseg := (list ascii).
Notation fpath := (list (list ascii)).

Inductive fsop : Type :=
| Mkdir (p : fpath)                 (* mkdir / mkdirat that succeeded (EEXIST probes of create_dir_all are dropped) *)
| CreateNew (p : fpath)             (* open O_CREAT|O_EXCL (lock files, version declarations) *)
| Create (p : fpath)                (* open O_CREAT|O_TRUNC for writing + all writes to that descriptor *)
| Rename (a c : fpath)              (* rename a -> c *)
| Unlink (p : fpath)
| Rmdir (p : fpath)
| Other (kind : N) (p : fpath).     (* link=1 symlink=2 chmod=3 utime=4 truncate=5: never issued by rocfl *)

(** every path an operation writes to, removes or replaces *)
Definition targets (o : fsop) : list fpath :=
  match o with
  | Mkdir p | CreateNew p | Create p | Unlink p | Rmdir p | Other _ p => [p]
  | Rename a c => [a; c]
  end.

Fixpoint seg_eqb (x y : fseg) : bool :=
  match x, y with
  | [], [] => true
  | c :: x', d :: y' => Ascii.eqb c d && seg_eqb x' y'
  | _, _ => false
  end.

(** [under root p]: p is root itself or lies below it (list prefix) *)
Fixpoint under (root p : fpath) : bool :=
  match root, p with
  | [], _ => true
  | r :: root', s :: p' => seg_eqb r s && under root' p'
  | _ :: _, [] => false
  end.

(** strictly below *)
Definition below (root p : fpath) : bool := under root p && negb (Nat.eqb (length root) (length p)).
