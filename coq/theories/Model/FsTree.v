(** Abstract file tree of the file-system level models (C04, C05): a finite map from
    absolute paths (segment lists, [FsOps.fpath]) to nodes, with the semantics of the
    system calls rocfl issues during a commit.  Definitions only.

    Representation: an association list keyed by the FULL path.  [lookup] returns the first
    binding, [remove] deletes every binding of a key, [insert] = cons after remove - so a
    tree never needs a canonical order and "the object below root q is byte-identical in t1
    and t2" is simply  forall p, under q p = true -> lookup t1 p = lookup t2 p.
    The root directory [] always exists.

    Content of regular files is abstract: tokens.  Two files have the same bytes iff they carry
    the same token (digests are modelled as injective).  [CPartial] is the content of a file
    whose write was interrupted (open with O_TRUNC done, data not or not completely written):
    it is distinct from every complete content by construction. *)
From Coq Require Import List NArith Ascii Bool.
From Rocfl Require Import Model.FsOps.
Import ListNotations.

Inductive content : Type :=
| CBlob (n : N)                       (* any other complete file; n identifies its bytes (0 = empty file) *)
| CInv (k : N)                        (* a complete, parseable inventory.json; k identifies its bytes *)
       (vs : list fseg)               (*   names of the version directories it lists, oldest first; head = last *)
       (spec : fseg)                  (*   name of the declaration file its "type" requires, e.g. 0=ocfl_object_1.1 *)
       (man : list fpath)             (*   manifest: content paths of the HEAD version (relative to the object root) *)
       (dups : list fpath)            (*   the head content paths Inventory::dedup_head would drop from it *)
| CSide (k : N)                       (* complete sidecar recording the digest of the inventory bytes k *)
| CDecl (spec : fseg)                 (* complete declaration file 0=ocfl_object_X with the content X requires *)
| CPartial.                           (* interrupted write: empty or truncated file *)

Inductive node : Type := Dir | File (c : content).

Definition tree := list (fpath * node).

Fixpoint path_eqb (x y : fpath) : bool :=
  match x, y with
  | [], [] => true
  | a :: x', c :: y' => seg_eqb a c && path_eqb x' y'
  | _, _ => false
  end.

Fixpoint lookup (t : tree) (p : fpath) : option node :=
  match t with
  | [] => None
  | (q, n) :: t' => if path_eqb q p then Some n else lookup t' p
  end.

Definition remove (p : fpath) (t : tree) : tree :=
  filter (fun e => negb (path_eqb (fst e) p)) t.

Definition insert (p : fpath) (n : node) (t : tree) : tree := (p, n) :: remove p t.

Definition parent (p : fpath) : fpath := removelast p.

(** the node at p, the root being a directory *)
Definition node_at (t : tree) (p : fpath) : option node :=
  match p with [] => Some Dir | _ => lookup t p end.

Definition is_dir (t : tree) (p : fpath) : bool :=
  match node_at t p with Some Dir => true | _ => false end.

Definition exists_at (t : tree) (p : fpath) : bool :=
  match node_at t p with Some _ => true | None => false end.

Definition read_file (t : tree) (p : fpath) : option content :=
  match node_at t p with Some (File c) => Some c | _ => None end.

(** some entry lies strictly below p: the directory is not empty (read_dir(p).next().is_some()) *)
Definition has_children (t : tree) (p : fpath) : bool :=
  existsb (fun e => below p (fst e)) t.

Definition is_child (p q : fpath) : bool :=
  under p q && Nat.eqb (List.length q) (S (List.length p)).

(** read_dir: the entries directly below p (full paths with their nodes), in list order *)
Definition children (t : tree) (p : fpath) : list (fpath * node) :=
  filter (fun e => is_child p (fst e)) t.

(** errno classes of the calls the OS refuses *)
Inductive fserr : Type := ENOENT | EEXIST | ENOTDIR | EISDIR | ENOTEMPTY | EINVAL.

Inductive fsres : Type := FOk (t : tree) | FErr (e : fserr).

(** p can be created: it does not exist and its parent is a directory *)
Definition creatable (t : tree) (p : fpath) : option fserr :=
  match p with
  | [] => Some EEXIST
  | _ =>
    match lookup t p with
    | Some _ => Some EEXIST
    | None =>
      match node_at t (parent p) with
      | Some Dir => None
      | Some (File _) => Some ENOTDIR
      | None => Some ENOENT
      end
    end
  end.

(** mkdir(2) *)
Definition fs_mkdir (t : tree) (p : fpath) : fsres :=
  match creatable t p with Some e => FErr e | None => FOk (insert p Dir t) end.

(** open(O_CREAT|O_EXCL|O_WRONLY): a new file with content c (the lock file: complete at once;
    a declaration: [CPartial] until its write) *)
Definition fs_create_new (t : tree) (p : fpath) (c : content) : fsres :=
  match creatable t p with Some e => FErr e | None => FOk (insert p (File c) t) end.

(** open(O_CREAT|O_TRUNC|O_WRONLY): the file exists afterwards and is empty *)
Definition fs_trunc (t : tree) (p : fpath) : fsres :=
  match node_at t p with
  | Some Dir => FErr EISDIR
  | Some (File _) => FOk (insert p (File CPartial) t)
  | None =>
    match creatable t p with Some e => FErr e | None => FOk (insert p (File CPartial) t) end
  end.

(** the writes on the descriptor of an open file, collapsed: the file now has content c *)
Definition fs_finish (t : tree) (p : fpath) (c : content) : fsres :=
  match node_at t p with
  | Some (File _) => FOk (insert p (File c) t)
  | Some Dir => FErr EISDIR
  | None => FErr ENOENT
  end.

(** unlink(2) *)
Definition fs_unlink (t : tree) (p : fpath) : fsres :=
  match node_at t p with
  | Some (File _) => FOk (remove p t)
  | Some Dir => FErr EISDIR
  | None => FErr ENOENT
  end.

(** rmdir(2): fails when the directory is not empty *)
Definition fs_rmdir (t : tree) (p : fpath) : fsres :=
  match p with
  | [] => FErr EINVAL
  | _ =>
    match lookup t p with
    | Some Dir => if has_children t p then FErr ENOTEMPTY else FOk (remove p t)
    | Some (File _) => FErr ENOTDIR
    | None => FErr ENOENT
    end
  end.

(** re-key one entry for rename a -> c *)
Definition rekey (a c : fpath) (e : fpath * node) : fpath * node :=
  if under a (fst e) then (c ++ skipn (List.length a) (fst e), snd e) else e.

(** rename(2): a file or a whole directory subtree moves atomically.  The destination may be
    absent, a file replaced by a file, or an EMPTY directory replaced by a directory. *)
Definition fs_rename (t : tree) (a c : fpath) : fsres :=
  match a, c with
  | [], _ | _, [] => FErr EINVAL
  | _, _ =>
    match lookup t a with
    | None => FErr ENOENT
    | Some na =>
      if path_eqb a c then FOk t
      else if under a c then FErr EINVAL
      else
        match node_at t (parent c) with
        | None => FErr ENOENT
        | Some (File _) => FErr ENOTDIR
        | Some Dir =>
          let go := FOk (map (rekey a c) (remove c t)) in
          match lookup t c, na with
          | None, _ => go
          | Some (File _), File _ => go
          | Some (File _), Dir => FErr ENOTDIR
          | Some Dir, File _ => FErr EISDIR
          | Some Dir, Dir => if has_children t c then FErr ENOTEMPTY else go
          end
        end
    end
  end.

(** the entries below root (root itself excluded), as (relative path, node) *)
Definition subtree (t : tree) (root : fpath) : list (fpath * node) :=
  map (fun e => (skipn (List.length root) (fst e), snd e)) (filter (fun e => below root (fst e)) t).

(** extensional comparison of two trees below a root (and at the root itself): used by the
    correspondence checkers; the theorems use the Prop [forall p, under q p = true -> lookup ...] *)
Definition content_eqb_seglist := fix f (x y : list fseg) : bool :=
  match x, y with [], [] => true | a :: x', c :: y' => seg_eqb a c && f x' y' | _, _ => false end.

Definition pathlist_eqb := fix f (x y : list fpath) : bool :=
  match x, y with [], [] => true | a :: x', c :: y' => path_eqb a c && f x' y' | _, _ => false end.

Definition content_eqb (x y : content) : bool :=
  match x, y with
  | CBlob a, CBlob c => N.eqb a c
  | CInv k vs sp man dups, CInv k' vs' sp' man' dups' =>
      N.eqb k k' && content_eqb_seglist vs vs' && seg_eqb sp sp' && pathlist_eqb man man' && pathlist_eqb dups dups'
  | CSide a, CSide c => N.eqb a c
  | CDecl a, CDecl c => seg_eqb a c
  | CPartial, CPartial => true
  | _, _ => false
  end.

Definition node_eqb (x y : node) : bool :=
  match x, y with
  | Dir, Dir => true
  | File a, File c => content_eqb a c
  | _, _ => false
  end.

Definition onode_eqb (x y : option node) : bool :=
  match x, y with
  | None, None => true
  | Some a, Some c => node_eqb a c
  | _, _ => false
  end.

(** t1 and t2 agree on every path under q that one of them binds, and at q *)
Definition same_underb (q : fpath) (t1 t2 : tree) : bool :=
  onode_eqb (node_at t1 q) (node_at t2 q) &&
  forallb (fun e => negb (under q (fst e)) || onode_eqb (lookup t1 (fst e)) (lookup t2 (fst e))) (t1 ++ t2).
