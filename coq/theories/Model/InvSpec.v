(** Specification-level predicates over the inventory model: validity of a
    committed inventory ([InvOK], the inventory-level MUSTs of OCFL that depend on
    the manifest/state algebra: E050, E107, E095, E101 and version bounds), the
    invariant of a staged inventory ([StagedWF], DESIGN.md Appendix D), the
    resolved staging operations and the object life cycle. *)
From Coq Require Import NArith Ascii.
From stdpp Require Import gmap.
From Rocfl Require Import Model.Inventory.

Definition pprefix (a c : lpath) : Prop := ∃ r, r ≠ [] ∧ c = a ++ r.

(** no logical path is both a file and a directory, and the root is not a file *)
Definition NoConflict (st : state) : Prop :=
  st !! [] = None ∧ ∀ p q, is_Some (st !! p) → is_Some (st !! q) → ¬ pprefix p q.

Record InvOK (i : inventory) : Prop := {
  (* E050 and more: every digest of version k+1 has a content path of a version <= k+1,
     so content_path_for_digest cannot fail and reads never look into the future *)
  ok_resolve : ∀ k st, all_states i !! k = Some st → ∀ p d, st !! p = Some d →
               ∃ cp, (fst cp <= N.of_nat (S k))%N ∧ i_manifest i !! cp = Some d;
  (* E107: every manifest entry is referenced by some version *)
  ok_used : ∀ cp d, i_manifest i !! cp = Some d → ∃ st p, st ∈ all_states i ∧ st !! p = Some d;
  (* E095 *)
  ok_noconf : ∀ st, st ∈ all_states i → NoConflict st;
  ok_vers : ∀ cp, is_Some (i_manifest i !! cp) → (1 <= fst cp <= head i)%N;
  (* E101: content paths of one version directory are prefix free *)
  ok_cp_noconf : ∀ v p q, is_Some (i_manifest i !! (v, p)) → is_Some (i_manifest i !! (v, q)) → ¬ pprefix p q;
}.

Definition committed_copy (i : inventory) (d : digest) : Prop :=
  ∃ cp, (fst cp < head i)%N ∧ i_manifest i !! cp = Some d.

Record StagedWF (i : inventory) : Prop := {
  sw_prev_resolve : ∀ k st, i_prev i !! k = Some st → ∀ p d, st !! p = Some d →
                    ∃ cp, (fst cp <= N.of_nat (S k))%N ∧ i_manifest i !! cp = Some d;
  sw_prev_noconf : ∀ st, st ∈ i_prev i → NoConflict st;
  sw_used : ∀ cp d, (fst cp < head i)%N → i_manifest i !! cp = Some d →
            ∃ st p, st ∈ i_prev i ∧ st !! p = Some d;
  sw_vers : ∀ cp, is_Some (i_manifest i !! cp) → (1 <= fst cp <= head i)%N;
  (* I3: a head-version manifest entry is the direct path of a logical path of the
     head state, or its digest also has a committed copy *)
  sw_I3 : ∀ p d, i_manifest i !! ncp i p = Some d → i_hstate i !! p = Some d ∨ committed_copy i d;
  (* I5: every logical path of the head state is backed by its own direct path or a committed copy *)
  sw_I5 : ∀ p d, i_hstate i !! p = Some d → i_manifest i !! ncp i p = Some d ∨ committed_copy i d;
  sw_noconf : NoConflict (i_hstate i);
  sw_cp_noconf : ∀ v p q, (v < head i)%N → is_Some (i_manifest i !! (v, p)) →
                 is_Some (i_manifest i !! (v, q)) → ¬ pprefix p q;
}.

(** * Resolved staging operations: what each (source, destination) pair of a
    cp / mv / rm / reset command does to the staged inventory (repo.rs).
    A failing operation leaves the inventory unchanged (the error is reported). *)
Inductive sop :=
| SAdd (d : digest) (p : lpath)              (* external cp/mv of one file: copy_file/move_file, repo.rs:1212-1257 *)
| SCopyInt (v : N) (src dst : lpath)         (* one pair of copy_files_internal, repo.rs:615-646 *)
| SMoveInt (src dst : lpath)                 (* one pair of move_files_internal, repo.rs:709-737 *)
| SRemove (p : lpath)                        (* rm / reset of an added path, repo.rs:776-785, 856-864 *)
| SResetPrev (p : lpath).                    (* reset of a path of the previous version, repo.rs:867-879 *)

Definition or_unchanged (i : inventory) (o : option inventory) : inventory :=
  match o with Some i' => i' | None => i end.

Definition sapply (o : sop) (i : inventory) : inventory :=
  match o with
  | SAdd d p => or_unchanged i (add_file_to_head d p i)
  | SCopyInt v src dst =>
      if bool_decide (src = dst) && (v =? head i)%N then i    (* fix 1487c5f: same path *)
      else match staged_source i v src with
           | None => i
           | Some (Some d) => or_unchanged i (add_file_to_head d dst i)
           | Some None => or_unchanged i (copy_file_to_head v src dst i)
           end
  | SMoveInt src dst =>
      if bool_decide (src = dst) then i
      else match staged_source i (head i) src with
           | None => i
           | Some (Some d) => or_unchanged i (move_new_in_head_file d src dst i)
           | Some None => or_unchanged i (move_file_in_head src dst i)
           end
  | SRemove p => fst (remove_from_head p i)
  | SResetPrev p =>
      if (head i =? 1)%N then i
      else let i1 := fst (remove_from_head p i) in
           or_unchanged i1 (copy_file_to_head (head i - 1) p p i1)
  end.

(** * Life cycle of one object (single client): main = committed inventory,
    staged = staged inventory.  [OCommit post] carries the outcome of dedup_head
    chosen by the hash-map iteration order; it is applied only if [dedup_okb]. *)
Record ostate := mkO { o_main : option inventory; o_staged : option inventory }.

Inductive oop :=
| ONew                       (* create_object *)
| OStage (s : sop)           (* any resolved staging operation; stages the object first if needed *)
| OCommit (post : inventory)
| OResetAll
| OPurge.

Definition ensure_staged (s : ostate) : option inventory :=
  match o_staged s with
  | Some i => Some i
  | None => match o_main s with Some m => Some (create_staging_head m) | None => None end
  end.

Definition ostep (s : ostate) (o : oop) : ostate :=
  match o with
  | ONew => match o_main s, o_staged s with
            | None, None => mkO None (Some new_inventory)
            | _, _ => s
            end
  | OStage op => match ensure_staged s with
                 | Some i => mkO (o_main s) (Some (sapply op i))
                 | None => s
                 end
  | OCommit post => match o_staged s with
                    | Some i => if dedup_okb i post then mkO (Some post) None else s
                    | None => s
                    end
  | OResetAll => mkO (o_main s) None
  | OPurge => mkO None None
  end.

Definition oinit : ostate := mkO None None.
