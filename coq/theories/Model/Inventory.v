(** Model of the inventory algebra of rocfl (src/ocfl/inventory.rs, bimap.rs):
    manifest and version states as finite maps, the head-version primitives used
    by the staging operations, create_staging_head and dedup_head.

    Representation.  A logical path is its list of '/'-separated segments
    (LogicalPath::try_from guarantees: no empty, "." or ".." segment).  A
    content path is (version number, path below the content directory): every
    content path rocfl itself creates is new_content_path(p) = "v<h>/<cdir>/<p>"
    (inventory.rs:471).  Digests are opaque tokens (N).  The PathBiMap keeps
    path->id and id->paths in step (Model/BiMap.v); here it is the path->id map.

    An inventory is split into the committed versions v1..v(h-1) ([i_prev]) and
    the state of the head version h ([i_hstate]). *)
From Coq Require Import NArith Ascii.
From stdpp Require Import gmap.

Notation seg := (list ascii).
Notation lpath := (list (list ascii)).
Notation digest := N.
Notation cpath := (N * list (list ascii))%type.
Notation state := (gmap lpath digest).
Notation manifest := (gmap cpath digest).

Record inventory := mkInv {
  i_prev : list state;       (* v1 .. v(h-1) *)
  i_hstate : state;          (* state of the head version h *)
  i_manifest : manifest;
}.

Global Instance inventory_eq_dec : EqDecision inventory.
Proof. solve_decision. Defined.

Definition head (i : inventory) : N := N.of_nat (S (length (i_prev i))).

(** state of version [v] (1-based) *)
Definition get_state (i : inventory) (v : N) : option state :=
  if (v =? head i)%N then Some (i_hstate i)
  else if (v =? 0)%N then None
  else i_prev i !! (N.to_nat v - 1)%nat.

Definition all_states (i : inventory) : list state := i_prev i ++ [i_hstate i].

(** new_content_path, inventory.rs:471 *)
Definition ncp (i : inventory) (p : lpath) : cpath := (head i, p).

(** * File / directory conflicts (inventory.rs:695-713, 886-922) *)
Fixpoint pprefixb (a c : lpath) : bool :=      (* a is a proper prefix of c *)
  match a, c with
  | [], _ :: _ => true
  | x :: a', y :: c' => bool_decide (x = y) && pprefixb a' c'
  | _, _ => false
  end.

(** is_dir: the root, or a proper prefix of some file of the state *)
Definition is_dirb (st : state) (p : lpath) : bool :=
  match p with
  | [] => true
  | _ => existsb (fun q => pprefixb p q) (map fst (map_to_list st))
  end.

(** non-empty proper prefixes of p = create_logical_dirs(p) *)
Fixpoint ancestors (p : lpath) : list lpath :=
  match p with
  | [] => []
  | x :: p' => match p' with [] => [] | _ => [x] :: map (cons x) (ancestors p') end
  end.

Definition file_aboveb (st : state) (p : lpath) : bool :=
  existsb (fun d => bool_decide (is_Some (st !! d))) (ancestors p).

(** validate_non_conflicting fails *)
Definition conflictb (st : state) (p : lpath) : bool := is_dirb st p || file_aboveb st p.

(** * Head-version primitives.  [None] = the Rust function returns Err and the
    callers leave the inventory as it was (they validate before mutating). *)

(** add_file_to_head, inventory.rs:369-380 *)
Definition add_file_to_head (d : digest) (p : lpath) (i : inventory) : option inventory :=
  if conflictb (i_hstate i) p then None
  else Some (mkInv (i_prev i) (<[p := d]> (i_hstate i)) (<[ncp i p := d]> (i_manifest i))).

(** copy_file_to_head, inventory.rs:384-403 (with the manifest fix e2e0f78) *)
Definition copy_file_to_head (v : N) (src dst : lpath) (i : inventory) : option inventory :=
  match get_state i v with
  | None => None
  | Some st =>
      match st !! src with
      | None => None
      | Some d =>
          if conflictb (i_hstate i) dst then None
          else Some (mkInv (i_prev i) (<[dst := d]> (i_hstate i)) (delete (ncp i dst) (i_manifest i)))
      end
  end.

(** move_file_in_head, inventory.rs:407-426 *)
Definition move_file_in_head (src dst : lpath) (i : inventory) : option inventory :=
  match i_hstate i !! src with
  | None => None
  | Some d =>
      if conflictb (i_hstate i) dst then None
      else Some (mkInv (i_prev i) (delete src (<[dst := d]> (i_hstate i)))
                       (delete (ncp i dst) (i_manifest i)))
  end.

(** move_new_in_head_file, inventory.rs:436-459 *)
Definition move_new_in_head_file (d : digest) (src dst : lpath) (i : inventory) : option inventory :=
  if conflictb (i_hstate i) dst then None
  else Some (mkInv (i_prev i) (delete src (<[dst := d]> (i_hstate i)))
                   (<[ncp i dst := d]> (delete (ncp i src) (i_manifest i)))).

(** remove_logical_path_from_head, inventory.rs:464-479; the second component
    says whether a staged content file has to be removed *)
Definition remove_from_head (p : lpath) (i : inventory) : inventory * bool :=
  match i_hstate i !! p with
  | None => (i, false)
  | Some _ =>
      match i_manifest i !! ncp i p with
      | Some _ => (mkInv (i_prev i) (delete p (i_hstate i)) (delete (ncp i p) (i_manifest i)), true)
      | None => (mkInv (i_prev i) (delete p (i_hstate i)) (i_manifest i), false)
      end
  end.

(** create_staging_head, inventory.rs:139-146 (the version-number arithmetic is Model/VersionNum.v) *)
Definition create_staging_head (i : inventory) : inventory :=
  mkInv (i_prev i ++ [i_hstate i]) (i_hstate i) (i_manifest i).

(** a brand-new staged object, repo.rs:560-568 *)
Definition new_inventory : inventory := mkInv [] ∅ ∅.

(** is the source of an internal copy / move "staged"?  repo.rs:1484-1510 (with fix 5f5d87f) *)
Definition staged_source (i : inventory) (v : N) (src : lpath) : option (option digest) :=
  match get_state i v with
  | None => None
  | Some st =>
      match st !! src with
      | None => None
      | Some d =>
          if (v =? head i)%N && bool_decide (i_manifest i !! ncp i src = Some d)
          then Some (Some d) else Some None
      end
  end.

(** * dedup_head, inventory.rs:320-361.
    The code iterates hash maps / hash sets, so which one of several head-version
    paths of a digest survives is unspecified: the model is the relation
    [dedup_ok pre post] plus one canonical function.  Characterisation: [post]
    keeps every non-head entry; of the head entries of a digest it keeps none if
    the digest also has a non-head path, and exactly one otherwise. *)
Definition is_head_cp (i : inventory) (cp : cpath) : bool := (fst cp =? head i)%N.

Definition paths_of (m : manifest) (d : digest) : list cpath :=
  map fst (filter (fun kv => bool_decide (snd kv = d)) (map_to_list m)).

Definition has_nonhead (i : inventory) (d : digest) : bool :=
  existsb (fun cp => negb (is_head_cp i cp)) (paths_of (i_manifest i) d).

Definition dedup_okb (pre post : inventory) : bool :=
  bool_decide (i_prev post = i_prev pre) && bool_decide (i_hstate post = i_hstate pre) &&
  (* post ⊆ pre *)
  forallb (fun kv => bool_decide (i_manifest pre !! fst kv = Some (snd kv))) (map_to_list (i_manifest post)) &&
  (* per entry of pre *)
  forallb (fun kv =>
    let cp := fst kv in let d := snd kv in
    if negb (is_head_cp pre cp) then bool_decide (i_manifest post !! cp = Some d)
    else if has_nonhead pre d then bool_decide (i_manifest post !! cp = None)
    else bool_decide (length (filter (fun c => is_head_cp pre c) (paths_of (i_manifest post) d)) = 1%nat))
    (map_to_list (i_manifest pre)).

(** canonical choice: keep the first head path (in map order) of a digest without non-head path *)
Definition dedup_canon (i : inventory) : inventory :=
  let step (acc : manifest) (kv : cpath * digest) : manifest :=
    let cp := fst kv in let d := snd kv in
    if negb (is_head_cp i cp) then <[cp := d]> acc
    else if has_nonhead i d then acc
    else if existsb (fun c => is_head_cp i c) (paths_of acc d) then acc
    else <[cp := d]> acc in
  mkInv (i_prev i) (i_hstate i) (foldl step ∅ (map_to_list (i_manifest i))).

(** paths removed by dedup = what rm_staged_files must delete *)
Definition removed_paths (pre post : inventory) : list cpath :=
  filter (fun cp => bool_decide (i_manifest post !! cp = None)) (map fst (map_to_list (i_manifest pre))).

(** * Reading (inventory.rs:204-275): candidates for a digest at version <= v *)
Definition cpath_candidates (i : inventory) (d : digest) (v : N) : list cpath :=
  filter (fun cp => (fst cp <=? v)%N) (paths_of (i_manifest i) d).
