(** C10 - JSON string layer of the inventory round trip.

    Writer : serde_json 1.0.89 [format_escaped_str] (ser.rs:1987-2066, ESCAPE table,
             [write_char_escape] ser.rs:1705-1735) as used by the derived [Serialize]
             of [Inventory]/[Version]/[User] (src/ocfl/inventory.rs:28-90).
    Reader : serde_json 1.0.89 [SliceRead::parse_str_bytes] + [parse_escape]
             (read.rs:434-482, 847-945) in validating mode, followed by
             [str::from_utf8]; a string is handed to the visitor as *borrowed*
             exactly when the scratch buffer stayed empty, i.e. when the token
             contains no backslash (read.rs:455-467).
    rocfl  : which inventory positions are read through a borrowed-only type
             ([&str], [Vec<&str>], [#[serde(try_from = "&str")]]) in
             src/ocfl/serde.rs and src/ocfl/validate/serde.rs, the visitors
             applied to the decoded string, and the acceptance predicates on the
             writing side.
    Definitions only; lemmas are in Proofs/Json*.v. *)
From Rocfl Require Export Base.Bytes.
From Rocfl Require Import Model.VersionNum Generated.Consts.
Open Scope N_scope.

Definition DQ : ascii := ascii_of_N 34.   (* double quote *)
Definition BSL : ascii := ascii_of_N 92.  (* backslash *)
Definition SL : ascii := ascii_of_N 47.   (* slash *)

(** linear-time list reversal (List.rev is quadratic); equal to [rev] (Proofs/JsonFacts.v) *)
Definition rev_fast {A} (l : list A) : list A := rev_append l [].

Definition is_empty (s : bytes) : bool := match s with [] => true | _ => false end.
Definition is_some {A} (o : option A) : bool := match o with Some _ => true | None => false end.

(** * Writer: serde_json's string escaping *)

(** HEX_DIGITS = "0123456789abcdef" (ser.rs:1721) *)
Definition hex_lower (n : N) : ascii := ascii_of_N (if n <? 10 then 48 + n else 87 + n).

(** ESCAPE table (ser.rs:2045-2063) + write_char_escape (ser.rs:1711-1734) for one byte *)
Definition esc_byte (c : ascii) : bytes :=
  let n := code c in
  if n =? 34 then [BSL; DQ]
  else if n =? 92 then [BSL; BSL]
  else if n =? 8 then [BSL; "b"%char]
  else if n =? 9 then [BSL; "t"%char]
  else if n =? 10 then [BSL; "n"%char]
  else if n =? 12 then [BSL; "f"%char]
  else if n =? 13 then [BSL; "r"%char]
  else if n <? 32 then [BSL; "u"%char; "0"%char; "0"%char; hex_lower (n / 16); hex_lower (n mod 16)]
  else [c].

(** format_escaped_str_contents: unescaped runs are copied verbatim (ser.rs:2010-2030) *)
Definition esc_contents (s : bytes) : bytes := flat_map esc_byte s.

(** format_escaped_str: begin_string, contents, end_string (ser.rs:1992-1994) *)
Definition serde_escape (s : bytes) : bytes := DQ :: esc_contents s ++ [DQ].

(** the bytes the writer has to escape: the double quote, the backslash and everything below 0x20 *)
Definition needs_esc_byte (c : ascii) : bool :=
  (code c =? 34) || (code c =? 92) || (code c <? 32).
Definition needs_escape (s : bytes) : bool := existsb needs_esc_byte s.

(** * RFC 8259 grammar of a string token (independent of the decoder)
    string = quotation-mark *char quotation-mark
    char   = unescaped / escape ( %x22 / %x5C / %x2F / b / f / n / r / t / u 4HEXDIG )
    unescaped = %x20-21 / %x23-5B / %x5D-10FFFF
    state 0: normal; 1: after a backslash; 2..5: that many minus one hex digits still to come *)
Definition is_hex (c : ascii) : bool :=
  let n := code c in
  ((48 <=? n) && (n <=? 57)) || ((97 <=? n) && (n <=? 102)) || ((65 <=? n) && (n <=? 70)).

Definition is_simple_escape (c : ascii) : bool :=
  let n := code c in
  (n =? 34) || (n =? 92) || (n =? 47) || (n =? 98) || (n =? 102) || (n =? 110) || (n =? 114) || (n =? 116).

Fixpoint tok_body (st : N) (t : bytes) : bool :=
  match t with
  | [] => false                                   (* no closing quote *)
  | c :: r =>
      if st =? 0 then
        if code c =? 34 then is_empty r             (* closing quote ends the token *)
        else if code c =? 92 then tok_body 1 r
        else if code c <? 32 then false             (* raw control character *)
        else tok_body 0 r
      else if st =? 1 then
        if is_simple_escape c then tok_body 0 r
        else if code c =? 117 then tok_body 5 r
        else false
      else
        if is_hex c then tok_body (if st =? 2 then 0 else st - 1) r else false
  end.

Definition json_string_token (t : bytes) : bool :=
  match t with
  | q :: r => (code q =? 34) && tok_body 0 r
  | [] => false
  end.

(** * Reader: serde_json's validating string parser *)

(** decode_hex_val: 0-9, a-f, A-F *)
Definition hex_val (c : ascii) : option N :=
  let n := code c in
  if (48 <=? n) && (n <=? 57) then Some (n - 48)
  else if (97 <=? n) && (n <=? 102) then Some (n - 87)
  else if (65 <=? n) && (n <=? 70) then Some (n - 55)
  else None.

(** decode_hex_escape: exactly four hex digits *)
Definition hex4 (r : bytes) : option (N * bytes) :=
  match r with
  | a :: b0 :: c :: d :: r' =>
      match hex_val a, hex_val b0, hex_val c, hex_val d with
      | Some x, Some y, Some z, Some w => Some (((x * 16 + y) * 16 + z) * 16 + w, r')
      | _, _, _, _ => None
      end
  | _ => None
  end.

(** char::encode_utf8 *)
Definition utf8_encode (n : N) : bytes :=
  if n <? 128 then [ascii_of_N n]
  else if n <? 2048 then [ascii_of_N (192 + n / 64); ascii_of_N (128 + n mod 64)]
  else if n <? 65536 then
    [ascii_of_N (224 + n / 4096); ascii_of_N (128 + (n / 64) mod 64); ascii_of_N (128 + n mod 64)]
  else
    [ascii_of_N (240 + n / 262144); ascii_of_N (128 + (n / 4096) mod 64);
     ascii_of_N (128 + (n / 64) mod 64); ascii_of_N (128 + n mod 64)].

(** parse_escape with validate = true (read.rs:847-945): the byte after the
    backslash; returns the bytes pushed to the scratch buffer and the rest.
    Lone or badly paired surrogates are errors in this mode. *)
Definition parse_escape (r : bytes) : option (bytes * bytes) :=
  match r with
  | [] => None
  | c :: r1 =>
      let n := code c in
      if n =? 34 then Some ([DQ], r1)
      else if n =? 92 then Some ([BSL], r1)
      else if n =? 47 then Some ([SL], r1)
      else if n =? 98 then Some ([ascii_of_N 8], r1)
      else if n =? 102 then Some ([ascii_of_N 12], r1)
      else if n =? 110 then Some ([ascii_of_N 10], r1)
      else if n =? 114 then Some ([ascii_of_N 13], r1)
      else if n =? 116 then Some ([ascii_of_N 9], r1)
      else if n =? 117 then
        match hex4 r1 with
        | None => None
        | Some (n1, r2) =>
            if (56320 <=? n1) && (n1 <=? 57343) then None                 (* 0xDC00..=0xDFFF: lone trailing surrogate *)
            else if (55296 <=? n1) && (n1 <=? 56319) then                 (* 0xD800..=0xDBFF *)
              match r2 with
              | b1 :: u1 :: r3 =>
                  if (code b1 =? 92) && (code u1 =? 117) then
                    match hex4 r3 with
                    | None => None
                    | Some (n2, r4) =>
                        if (n2 <? 56320) || (57343 <? n2) then None
                        else Some (utf8_encode (N.lor (N.shiftl (n1 - 55296) 10) (n2 - 56320) + 65536), r4)
                    end
                  else None
              | _ => None
              end
            else Some (utf8_encode n1, r2)
        end
      else None
  end.

(** SliceRead::parse_str_bytes with validate = true (read.rs:447-481); the token
    must end at the closing quote.  One unit of fuel per loop iteration. *)
Fixpoint dec_body (fuel : nat) (t : bytes) : option bytes :=
  match fuel with
  | O => None
  | S f =>
      match t with
      | [] => None                                                (* EofWhileParsingString *)
      | c :: r =>
          if code c =? 34 then (if is_empty r then Some [] else None)
          else if code c =? 92 then
            match parse_escape r with
            | Some (out, r') => option_map (app out) (dec_body f r')
            | None => None
            end
          else if code c <? 32 then None                          (* ControlCharacterWhileParsingString *)
          else option_map (cons c) (dec_body f r)
      end
  end.

(** the decoded bytes before the final UTF-8 check *)
Definition decode_raw (t : bytes) : option bytes :=
  match t with
  | q :: r => if code q =? 34 then dec_body (S (List.length r)) r else None
  | [] => None
  end.

(** str::from_utf8: well-formed UTF-8 (Unicode table 3-7) *)
Definition in_range (lo hi : N) (c : ascii) : bool := (lo <=? code c) && (code c <=? hi).
Definition cont (c : ascii) : bool := in_range 128 191 c.

Fixpoint utf8_valid (s : bytes) : bool :=
  match s with
  | [] => true
  | a :: r =>
      if code a <? 128 then utf8_valid r
      else if in_range 194 223 a then
        match r with b1 :: r1 => cont b1 && utf8_valid r1 | _ => false end
      else if in_range 224 239 a then
        match r with
        | b1 :: b2 :: r2 =>
            (if code a =? 224 then in_range 160 191 b1
             else if code a =? 237 then in_range 128 159 b1
             else cont b1) && cont b2 && utf8_valid r2
        | _ => false
        end
      else if in_range 240 244 a then
        match r with
        | b1 :: b2 :: b3 :: r3 =>
            (if code a =? 240 then in_range 144 191 b1
             else if code a =? 244 then in_range 128 143 b1
             else cont b1) && cont b2 && cont b3 && utf8_valid r3
        | _ => false
        end
      else false
  end.

(** Deserializer::parse_str: the decoded text must be valid UTF-8 (read.rs as_str) *)
Definition decode_string (t : bytes) : option bytes :=
  match decode_raw t with
  | Some r => if utf8_valid r then Some r else None
  | None => None
  end.

(** the scratch buffer was used <-> the token contains a backslash *)
Definition has_escape (t : bytes) : bool := existsb (fun c => code c =? 92) t.

(** a visitor that only accepts [visit_borrowed_str] (Deserialize for &str):
    Reference::Copied ends in "invalid type: string ..., expected a borrowed string" *)
Definition read_borrowed (t : bytes) : option bytes :=
  match decode_string t with
  | Some s => if has_escape t then None else Some s
  | None => None
  end.

Definition read_with (borrowed : bool) (t : bytes) : option bytes :=
  if borrowed then read_borrowed t else decode_string t.

(** * The string positions of an inventory and how rocfl reads each of them *)
Inductive pos :=
| PId | PType | PDigestAlg | PHead | PContentDir
| PManifestDigest | PContentPath | PVersionKey | PCreated | PMessage
| PUserName | PUserAddress | PStateDigest | PLogicalPath.

Definition all_pos : list pos :=
  [PId; PType; PDigestAlg; PHead; PContentDir; PManifestDigest; PContentPath; PVersionKey;
   PCreated; PMessage; PUserName; PUserAddress; PStateDigest; PLogicalPath].

(** ** The CURRENT main reader, src/ocfl/serde.rs after fix bb69bb9 (the reader behind
    every store access)
    id, type            : String                                   serde.rs:132,138
    digestAlgorithm     : DigestAlgorithm (derived, visit_str)     serde.rs:144
    head, version keys  : VersionNum, #[serde(try_from = "&str")]  serde.rs:150,244-245; types.rs:43  (STILL borrowed-only)
    contentDirectory    : Option<String>                           serde.rs:156
    manifest            : next_entry::<Cow<str>, Vec<ContentPath>> serde.rs:412 (ContentPath: visit_str)
    state               : next_entry::<Cow<str>, Vec<Cow<str>>>    serde.rs:454; insert_path serde.rs:497-513
    created             : DateTime<Local> (chrono, visit_str)      serde.rs:334
    message             : Option<String>                           serde.rs:352
    user name, address  : derived Deserialize, Option<String>      inventory.rs:85-90
    [Cow<str>] without #[serde(borrow)] deserializes through [String] (serde's blanket
    impl for Cow<'a, T>: T::Owned::deserialize), i.e. visit_str/visit_string: every
    token the conforming decoder accepts is accepted.
    The only positions left behind a borrowed-only type are [head] and the keys of
    [versions]: a token with a backslash there is refused ("expected a borrowed
    string").  rocfl never writes such a token (a version name is 'v' [0-9]+, no
    byte of it is escaped by serde_json); only an inventory written by OTHER software
    can spell `"head": "v\u0031"`. *)
Definition main_pos_borrowed (p : pos) : bool :=
  match p with
  | PHead | PVersionKey => true
  | _ => false
  end.

(** the tokens on which the main reader still differs from a conforming decoder: an escaped
    spelling at head / a version key.  Not a defect class of C10 (rocfl never writes such a
    token, Proofs/JsonPosFacts.v [written_token_not_escaped_version_name]); it is the
    hypothesis of the theorems about inventories written by other software. *)
Definition escaped_version_name_token (p : pos) (tok : bytes) : bool :=
  main_pos_borrowed p && has_escape tok.

(** HISTORICAL main reader, before fix bb69bb9 (manifest / state digests and logical
    paths were &str / Vec<&str>).  NOT the current code; kept only because
    the `..._before_fix` notes of Props/C10.v refer to it. *)
Definition main_pos_borrowed_before_fix (p : pos) : bool :=
  match p with
  | PHead | PVersionKey | PManifestDigest | PStateDigest | PLogicalPath => true
  | _ => false
  end.

(** HISTORICAL validator reader, src/ocfl/validate/serde.rs before fix 2f36fc5:
    id, digestAlgorithm, head, contentDirectory, created, address : next_value::<&str>;
    manifest / state values : Vec<&str>, their keys and the version keys : next_key to &str;
    type, message, name : String.  NOT the current code; kept only because
    the `..._before_fix` notes of Props/C10.v refer to it.  The current validator reads EVERY
    position through an owned string, see [val_read_pos] below. *)
Definition val_pos_borrowed_before_fix (p : pos) : bool :=
  match p with
  | PType | PMessage | PUserName => false
  | _ => true
  end.

(** ** paths: InventoryPathInner::try_from, types.rs:765-788 *)
Fixpoint trim_start_slash (s : bytes) : bytes :=
  match s with
  | c :: r => if code c =? 47 then trim_start_slash r else s
  | [] => []
  end.
Definition trim_end_slash (s : bytes) : bytes := rev_fast (trim_start_slash (rev_fast s)).

(** str::split('/'): [cur] holds the current part reversed *)
Fixpoint split_slash (s : bytes) (cur : bytes) : list bytes :=
  match s with
  | [] => [rev_fast cur]
  | c :: r => if code c =? 47 then rev_fast cur :: split_slash r [] else split_slash r (c :: cur)
  end.

Definition DOT : ascii := ascii_of_N 46.
Definition part_illegal (p : bytes) : bool :=
  bytes_eqb p [DOT] || bytes_eqb p [DOT; DOT] || is_empty p.

Definition lpath_try_from (v : bytes) : res bytes :=
  let t := trim_end_slash (trim_start_slash v) in
  if is_empty t then Ok t
  else if existsb part_illegal (split_slash t []) then Err else Ok t.

Definition starts_with_slash (v : bytes) : bool := match v with c :: _ => code c =? 47 | [] => false end.
Definition ends_with_slash (v : bytes) : bool := starts_with_slash (rev_fast v).

(** str::find('/') as the prefix before the first slash *)
Fixpoint before_slash (v : bytes) : option bytes :=
  match v with
  | [] => None
  | c :: r => if code c =? 47 then Some []
              else match before_slash r with Some p => Some (c :: p) | None => None end
  end.

(** ContentPath's visitor (types.rs:998-1011) and ContentPath::try_from (types.rs:800-823) *)
Definition cpath_read (v : bytes) : option bytes :=
  if starts_with_slash v || ends_with_slash v then None
  else match lpath_try_from v with
       | Ok inner =>
           if starts_with K_MUTABLE_HEAD_EXT_DIR v then Some inner
           else match before_slash v with
                | Some p => if is_ok (vparse p) then Some inner else None
                | None => None
                end
       | _ => None
       end.

(** names the derived Deserialize of DigestAlgorithm accepts (digest.rs:27-56) *)
Definition digest_algorithms : list bytes :=
  [b "md5"; b "sha1"; b "sha256"; b "sha512"; b "sha512/256"; b "blake2b-512";
   b "blake2b-160"; b "blake2b-256"; b "blake2b-384"].

(** what the visitor of a position does with the decoded string.
    created: chrono's RFC 3339 grammar is not modelled (the position is written
    by chrono's own Serialize, never from user text); type: Inventory::new does
    not constrain the string. *)
Definition post_visit (p : pos) (s : bytes) : option bytes :=
  match p with
  | PLogicalPath => match lpath_try_from s with Ok t => Some t | _ => None end   (* insert_path, serde.rs:497-513 *)
  | PContentPath => cpath_read s
  | PHead | PVersionKey => if is_ok (vparse s) then Some s else None
  | PDigestAlg => if existsb (bytes_eqb s) digest_algorithms then Some s else None
  | _ => Some s
  end.

(** the string rocfl holds after parsing the token at position [p]: CURRENT main reader *)
Definition main_read_pos (p : pos) (t : bytes) : option bytes :=
  match read_with (main_pos_borrowed p) t with
  | Some s => post_visit p s
  | None => None
  end.

(** CURRENT validator reader, string layer only (src/ocfl/validate/serde.rs after fix
    2f36fc5): id 184, digestAlgorithm 235, head 280, contentDirectory 306, created 743,
    address 1216 : next_value::<Cow<str>>; version keys 572 : next_key::<Cow<str>>;
    manifest / state keys 916, 1030 : Cow<str>, their values 921, 1032 : Vec<Cow<str>>;
    type 218, message 824, name 1196 : String.  Every position is the conforming decoder. *)
Definition val_read_pos (p : pos) (t : bytes) : option bytes := decode_string t.

(** HISTORICAL readers (before bb69bb9 / 2f36fc5), NOT the current code *)
Definition main_read_pos_before_fix (p : pos) (t : bytes) : option bytes :=
  match read_with (main_pos_borrowed_before_fix p) t with
  | Some s => post_visit p s
  | None => None
  end.
Definition val_read_pos_before_fix (p : pos) (t : bytes) : option bytes :=
  read_with (val_pos_borrowed_before_fix p) t.

(** a value the position's visitor maps to itself *)
Definition pos_value_ok (p : pos) (s : bytes) : bool :=
  match post_visit p s with Some r => bytes_eqb r s | None => false end.

(** * Acceptance on the writing side *)

(** ** str::trim: Unicode White_Space in UTF-8
    U+0009-000D, U+0020 | U+0085, U+00A0 | U+1680, U+2000-200A, U+2028, U+2029, U+202F, U+205F, U+3000 *)
Definition ws1 (a : ascii) : bool := in_range 9 13 a || (code a =? 32).
Definition ws2 (a b1 : ascii) : bool := (code a =? 194) && ((code b1 =? 133) || (code b1 =? 160)).
Definition ws3 (a b1 b2 : ascii) : bool :=
  ((code a =? 225) && (code b1 =? 154) && (code b2 =? 128))
  || ((code a =? 226) && (code b1 =? 128) &&
      (in_range 128 138 b2 || (code b2 =? 168) || (code b2 =? 169) || (code b2 =? 175)))
  || ((code a =? 226) && (code b1 =? 129) && (code b2 =? 159))
  || ((code a =? 227) && (code b1 =? 128) && (code b2 =? 128)).

Fixpoint trim_ws_start (s : bytes) : bytes :=
  match s with
  | [] => []
  | a :: r =>
      if ws1 a then trim_ws_start r
      else match r with
           | b1 :: r1 =>
               if ws2 a b1 then trim_ws_start r1
               else match r1 with
                    | b2 :: r2 => if ws3 a b1 b2 then trim_ws_start r2 else s
                    | [] => s
                    end
           | [] => s
           end
  end.

(** the same on the reversed string (last byte first) *)
Fixpoint trim_ws_start_rev (s : bytes) : bytes :=
  match s with
  | [] => []
  | a :: r =>
      if ws1 a then trim_ws_start_rev r
      else match r with
           | b1 :: r1 =>
               if ws2 b1 a then trim_ws_start_rev r1
               else match r1 with
                    | b2 :: r2 => if ws3 b2 b1 a then trim_ws_start_rev r2 else s
                    | [] => s
                    end
           | [] => s
           end
  end.

Definition rust_trim (s : bytes) : bytes := rev_fast (trim_ws_start_rev (rev_fast (trim_ws_start s))).

(** create_object (repo.rs:551-557, fix 031a721): an id whose [trim()] is empty is
    refused with InvalidValue, nothing else is done to the id; validate_object_id
    (repo.rs:577; validate/mod.rs:32-39) refuses the empty id (already covered by the
    first test); the id reaches Inventory::builder exactly as given - "Every other
    operation addresses the object by the ID exactly as it is given". *)
Definition create_object_id (id : bytes) : res bytes :=
  if is_empty (rust_trim id) then Err
  else if is_empty id then Err
  else Ok id.

(** historical: before 031a721 create_object stored [object_id.trim()]; only used by the
    `..._before_fix` note of Props/C10.v *)
Definition create_object_id_before_fix (id : bytes) : res bytes :=
  let t := rust_trim id in if is_empty t then Err else Ok t.

(** validate_content_dir, validate/mod.rs:53-61 *)
Definition validate_content_dir (c : bytes) : bool :=
  negb (bytes_eqb c [DOT] || bytes_eqb c [DOT; DOT] || existsb (fun x => code x =? 47) c).

(** create_object's own guard behind validate_content_dir, repo.rs:581-590
    (fix d88c1da): "The inventory files are stored next to the content directory"
      content_dir.is_empty() || content_dir == INVENTORY_FILE
        || content_dir.starts_with(INVENTORY_SIDECAR_PREFIX)
    consts.rs:33-34: INVENTORY_FILE = "inventory.json", INVENTORY_SIDECAR_PREFIX =
    "inventory.json." - EVERY name beginning with the prefix is refused (also the bare
    prefix and `inventory.json.<anything>`), not only the sidecar of the object's own
    digest algorithm. *)
Definition cdir_reserved (c : bytes) : bool :=
  is_empty c || bytes_eqb c K_INVENTORY_FILE || starts_with K_INVENTORY_SIDECAR_PREFIX c.

(** "It is the name of a directory", repo.rs:592-599 (fix 29bc659):
      content_dir.len() > 255 || content_dir.contains('\0')      ([len] counts bytes)
    Without this test such a name was accepted, every cp failed (CopyMoveError) and - since
    a04a002 propagates the failure of fs::metadata on <version dir>/<content dir>,
    fs.rs:852-855 - every commit failed with Io. *)
Definition cdir_not_a_file_name (c : bytes) : bool :=
  (255 <? blen c) || existsb (fun x => code x =? 0) c.

(** the content directory names create_object accepts (repo.rs:579-599): the three tests
    answer InvalidValue before anything is locked or written *)
Definition create_object_cdir (c : bytes) : bool :=
  validate_content_dir c && negb (cdir_reserved c) && negb (cdir_not_a_file_name c).

(** historical: acceptance before d88c1da was validate_content_dir alone; only used
    by the `..._before_fix` notes of Props/C10.v *)
Definition create_object_cdir_before_fix (c : bytes) : bool := validate_content_dir c.

(** CommitMeta::with_user, types.rs:1304-1313 *)
Definition with_user (name address : option bytes) : bool :=
  negb (is_some address && negb (is_some name)).

(** operate_on_external_source (repo.rs:1098-1210) for ONE source file named
    [srcname] copied to [dst] in an object whose head state has no directory
    [dst] (a fresh object and a non-root destination):
    dst.try_into()? ; if dst ends with '/' then logical_path_in_dst_dir (dst + file name)
    else the destination itself *)
Definition cp_logical_path (dst srcname : bytes) : res bytes :=
  match lpath_try_from dst with
  | Ok dst_path =>
      if ends_with_slash dst then lpath_try_from (dst ++ srcname) else Ok dst_path
  | e => e
  end.

(** ContentPath::for_logical_path: format!("{}/{}/{}"), types.rs:750-759 *)
Definition content_path (v : vnum) (cdir lp : bytes) : bytes :=
  vdisplay v ++ SL :: cdir ++ SL :: lp.

(** the version directory also holds inventory.json and its sidecar
    (stage_inventory with finalize copies them there, fs.rs:878-910, 255-274): a
    content directory of one of these two names makes every commit fail ("Is a
    directory").  No name create_object accepts collides (Proofs/JsonPosFacts.v,
    [accepted_cdir_no_collision]). *)
Definition cdir_collides (cdir alg : bytes) : bool :=
  bytes_eqb cdir K_INVENTORY_FILE || bytes_eqb cdir (K_INVENTORY_SIDECAR_PREFIX ++ alg).

(** environment: a Linux file name has no NUL byte and at most 255 bytes *)
Definition fs_name_ok (n : bytes) : bool :=
  negb (existsb (fun c => code c =? 0) n) && (blen n <=? 255).

(** * What later commands see: writer followed by rocfl's CURRENT readers *)
Definition write_read (p : pos) (s : bytes) : option bytes := main_read_pos p (serde_escape s).
Definition write_read_validator (p : pos) (s : bytes) : option bytes := val_read_pos p (serde_escape s).

Definition reads_back (p : pos) (s : bytes) : bool :=
  match write_read p s with Some r => bytes_eqb r s | None => false end.
Definition validator_reads_back (p : pos) (s : bytes) : bool :=
  match write_read_validator p s with Some r => bytes_eqb r s | None => false end.
