(** C07 - JSON documents as values (RFC 8259), independent of serde_json's
    deserialisers: a fuelled recursive-descent parser over bytes and a compact
    printer.  Object members keep their order and their duplicates; numbers are
    kept as their raw text (an inventory has no numbers anywhere, so no
    arithmetic is ever done on them).  String tokens are decoded by the
    conforming decoder [Json.decode_string] (escapes, surrogate pairs, UTF-8).
    Definitions only; lemmas are in Proofs/JsonValueFacts.v. *)
From Rocfl Require Export Base.Bytes.
From Rocfl Require Import Model.Json.
Open Scope N_scope.

Inductive jv :=
| JNull
| JBool (v : bool)
| JNum (raw : bytes)
| JStr (s : bytes)
| JArr (l : list jv)
| JObj (m : list (bytes * jv)).

(** * Lexical layer *)

(** ws = *( %x20 / %x09 / %x0A / %x0D ) *)
Definition is_ws (c : ascii) : bool :=
  (code c =? 32) || (code c =? 9) || (code c =? 10) || (code c =? 13).

Fixpoint skip_ws (s : bytes) : bytes :=
  match s with
  | c :: r => if is_ws c then skip_ws r else s
  | [] => []
  end.

(** the text after an opening quote up to and including the closing quote, and what follows it;
    [esc] = the previous byte was an unescaped backslash *)
Fixpoint scan_tok (esc : bool) (s : bytes) : option (bytes * bytes) :=
  match s with
  | [] => None
  | c :: r =>
      if esc then
        match scan_tok false r with Some (t, rest) => Some (c :: t, rest) | None => None end
      else if code c =? 34 then Some ([c], r)
      else match scan_tok (code c =? 92) r with Some (t, rest) => Some (c :: t, rest) | None => None end
  end.

(** a string token starting at the opening quote [q]: value and rest; [dec] decodes
    the whole token (quotes included) *)
Definition parse_string_with (dec : bytes -> option bytes) (q : ascii) (r : bytes) : option (bytes * bytes) :=
  match scan_tok false r with
  | Some (t, rest) =>
      match dec (q :: t) with
      | Some v => Some (v, rest)
      | None => None
      end
  | None => None
  end.

(** number = [ minus ] int [ frac ] [ exp ]   (RFC 8259 section 6)
    state 0 start | 1 after '-' | 2 after the single leading 0 | 3 in int digits
        | 4 after '.' | 5 in frac digits | 6 after e/E | 7 after the exponent sign | 8 in exp digits *)
Definition num_step (st : N) (c : ascii) : option N :=
  let n := code c in
  let dg := is_digit c in
  if st =? 0 then (if n =? 45 then Some 1 else if n =? 48 then Some 2 else if dg then Some 3 else None)
  else if st =? 1 then (if n =? 48 then Some 2 else if dg then Some 3 else None)
  else if st =? 2 then (if n =? 46 then Some 4 else if (n =? 101) || (n =? 69) then Some 6 else None)
  else if st =? 3 then (if dg then Some 3 else if n =? 46 then Some 4 else if (n =? 101) || (n =? 69) then Some 6 else None)
  else if st =? 4 then (if dg then Some 5 else None)
  else if st =? 5 then (if dg then Some 5 else if (n =? 101) || (n =? 69) then Some 6 else None)
  else if st =? 6 then (if (n =? 43) || (n =? 45) then Some 7 else if dg then Some 8 else None)
  else if st =? 7 then (if dg then Some 8 else None)
  else (if dg then Some 8 else None).

Definition num_final (st : N) : bool := (st =? 2) || (st =? 3) || (st =? 5) || (st =? 8).

Fixpoint num_run (st : N) (s : bytes) : bool :=
  match s with
  | [] => num_final st
  | c :: r => match num_step st c with Some st' => num_run st' r | None => false end
  end.

Definition num_ok (raw : bytes) : bool := num_run 0 raw.

(** the characters a number can contain *)
Definition is_num_char (c : ascii) : bool :=
  let n := code c in
  is_digit c || (n =? 45) || (n =? 43) || (n =? 46) || (n =? 101) || (n =? 69).

Fixpoint span_num (s : bytes) : bytes * bytes :=
  match s with
  | c :: r => if is_num_char c then let '(a, rest) := span_num r in (c :: a, rest) else ([], s)
  | [] => ([], [])
  end.

Definition parse_number (s : bytes) : option (bytes * bytes) :=
  let '(raw, rest) := span_num s in
  if num_ok raw then Some (raw, rest) else None.

(** * Values *)

Section Parser.
(** how a string token is turned into the value kept in [JStr] / member names:
    [decode_string] for the document's meaning, a token-preserving function for a raw view of the text *)
Variable dec : bytes -> option bytes.
Definition parse_string := parse_string_with dec.

(** One unit of fuel per call; [2 * length + 2] is always enough (a value consumes
    at least one byte, an array or object at least two).
    [parse_elems]  : after '[' or ',' : value then ',' or ']'
    [parse_members]: after '{' or ',' : string ':' value then ',' or '}' *)
Fixpoint parse_val (fuel : nat) (s : bytes) {struct fuel} : option (jv * bytes) :=
  match fuel with
  | O => None
  | S f =>
      match skip_ws s with
      | [] => None
      | c :: r =>
          let n := code c in
          if n =? 34 then
            match parse_string c r with Some (v, rest) => Some (JStr v, rest) | None => None end
          else if n =? 91 then                                         (* [ *)
            match skip_ws r with
            | d :: r' =>
                if code d =? 93 then Some (JArr [], r')
                else match parse_elems f r with Some (l, rest) => Some (JArr l, rest) | None => None end
            | [] => None
            end
          else if n =? 123 then                                        (* { *)
            match skip_ws r with
            | d :: r' =>
                if code d =? 125 then Some (JObj [], r')
                else match parse_members f r with Some (m, rest) => Some (JObj m, rest) | None => None end
            | [] => None
            end
          else if starts_with (b "true") (c :: r) then Some (JBool true, skipn 4 (c :: r))
          else if starts_with (b "false") (c :: r) then Some (JBool false, skipn 5 (c :: r))
          else if starts_with (b "null") (c :: r) then Some (JNull, skipn 4 (c :: r))
          else match parse_number (c :: r) with Some (raw, rest) => Some (JNum raw, rest) | None => None end
      end
  end
with parse_elems (fuel : nat) (s : bytes) {struct fuel} : option (list jv * bytes) :=
  match fuel with
  | O => None
  | S f =>
      match parse_val f s with
      | Some (v, rest) =>
          match skip_ws rest with
          | c :: r =>
              if code c =? 44 then
                match parse_elems f r with Some (l, rest') => Some (v :: l, rest') | None => None end
              else if code c =? 93 then Some ([v], r)
              else None
          | [] => None
          end
      | None => None
      end
  end
with parse_members (fuel : nat) (s : bytes) {struct fuel} : option (list (bytes * jv) * bytes) :=
  match fuel with
  | O => None
  | S f =>
      match skip_ws s with
      | q :: r0 =>
          if code q =? 34 then
            match parse_string q r0 with
            | Some (k, r1) =>
                match skip_ws r1 with
                | c :: r2 =>
                    if code c =? 58 then
                      match parse_val f r2 with
                      | Some (v, r3) =>
                          match skip_ws r3 with
                          | d :: r4 =>
                              if code d =? 44 then
                                match parse_members f r4 with
                                | Some (m, rest) => Some ((k, v) :: m, rest)
                                | None => None
                                end
                              else if code d =? 125 then Some ([(k, v)], r4)
                              else None
                          | [] => None
                          end
                      | None => None
                      end
                    else None
                | [] => None
                end
            | None => None
            end
          else None
      | [] => None
      end
  end.

Definition json_fuel (s : bytes) : nat := S (S (2 * List.length s)).

(** JSON-text = ws value ws *)
Definition parse_json_with (s : bytes) : option jv :=
  match parse_val (json_fuel s) s with
  | Some (v, rest) => if is_empty (skip_ws rest) then Some v else None
  | None => None
  end.
End Parser.

Definition parse_json : bytes -> option jv := parse_json_with decode_string.

(** * Compact printer (no whitespace; strings escaped as serde_json does) *)
Fixpoint print_json (v : jv) : bytes :=
  match v with
  | JNull => b "null"
  | JBool true => b "true"
  | JBool false => b "false"
  | JNum raw => raw
  | JStr s => serde_escape s
  | JArr l =>
      "["%char ::
      (fix elems (l : list jv) : bytes :=
         match l with
         | [] => []
         | [x] => print_json x
         | x :: r => print_json x ++ ","%char :: elems r
         end) l ++ ["]"%char]
  | JObj m =>
      "{"%char ::
      (fix mems (m : list (bytes * jv)) : bytes :=
         match m with
         | [] => []
         | [(k, x)] => serde_escape k ++ ":"%char :: print_json x
         | (k, x) :: r => serde_escape k ++ ":"%char :: print_json x ++ ","%char :: mems r
         end) m ++ ["}"%char]
  end.

(** well-formed values: strings are UTF-8, numbers follow the grammar *)
Fixpoint jv_wf (v : jv) : bool :=
  match v with
  | JNull | JBool _ => true
  | JNum raw => num_ok raw
  | JStr s => utf8_valid s
  | JArr l => forallb jv_wf l
  | JObj m => forallb (fun kv => utf8_valid (fst kv) && jv_wf (snd kv)) m
  end.

(** structural equality *)
Fixpoint jv_eqb (x y : jv) {struct x} : bool :=
  match x, y with
  | JNull, JNull => true
  | JBool p, JBool q => Bool.eqb p q
  | JNum p, JNum q => bytes_eqb p q
  | JStr p, JStr q => bytes_eqb p q
  | JArr l, JArr l' =>
      (fix go (l l' : list jv) : bool :=
         match l, l' with
         | [], [] => true
         | a :: r, a' :: r' => jv_eqb a a' && go r r'
         | _, _ => false
         end) l l'
  | JObj m, JObj m' =>
      (fix go (m m' : list (bytes * jv)) : bool :=
         match m, m' with
         | [], [] => true
         | (k, a) :: r, (k', a') :: r' => bytes_eqb k k' && jv_eqb a a' && go r r'
         | _, _ => false
         end) m m'
  | _, _ => false
  end.
