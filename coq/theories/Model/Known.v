(** Boolean classifiers of the recorded known findings (one per `known:` line of
    /verif/known-findings.txt).  A property theorem excludes exactly these
    classes; the run-time check evaluates the same functions. *)
From Rocfl Require Import Base.Bytes Model.VersionNum.
Open Scope N_scope.

(** C14: u32 arithmetic of VersionNum::next overflows for padding widths above
    10 (10^(w-1) does not fit u32) and at number = u32::MAX. *)
Definition c14_overflow (v : vnum) : bool := (10 <? vn_width v) || (vn_number v =? U32MAX).
