(** Boolean classifiers of the recorded known findings (one per `known:` line of
    /verif/known-findings.txt).  A property theorem excludes exactly these
    classes; the run-time check evaluates the same functions.

    This file holds the classifiers of C14's VersionNum half: none is left.
    (The class c14_overflow - u32 overflow of VersionNum::next for padding widths
    above 10 and at number u32::MAX - was repaired by fix 476b184; the theorems of
    Props/C14.v about next hold for every width and number now.)  The classifiers
    of the other properties live in Model/Known<ID>.v. *)
From Rocfl Require Import Base.Bytes Model.VersionNum.
Open Scope N_scope.
